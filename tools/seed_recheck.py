#!/venv/bin/python
"""Re-run the property's quick check against every seeded change (no baseline, no demo): tools/seed_recheck.py [ids...]
Records the verdict of the CURRENT machinery in seeded/<id>/meta.json under "recheck"."""
import json, os, subprocess, sys, tempfile, time
VERIF = os.path.dirname(os.path.dirname(os.path.abspath(__file__)))
ids = sys.argv[1:] or sorted(os.listdir(os.path.join(VERIF, "seeded")))
head = subprocess.run("git -C %s rev-parse --short HEAD" % VERIF, shell=True, stdout=subprocess.PIPE, text=True).stdout.strip()
for sid in ids:
    d = os.path.join(VERIF, "seeded", sid)
    mp = os.path.join(d, "meta.json")
    if not os.path.exists(mp):
        continue
    meta = json.load(open(mp))
    if "property" not in meta:
        continue        # soundness probes (seeded/benign-*) are not changes against one property
    prop = meta["property"]
    scratch = tempfile.mkdtemp(prefix="rc-", dir="/tmp"); os.rmdir(scratch)
    try:
        subprocess.run("git -C /repo worktree add -q --detach %s HEAD" % scratch, shell=True, check=True)
        r = subprocess.run("git -C %s apply %s" % (scratch, os.path.join(d, "patch.diff")), shell=True)
        if r.returncode != 0:
            print(sid, "patch does not apply"); continue
        t0 = time.time()
        env = dict(os.environ, VERIF_REPO=scratch)
        rc = subprocess.run("%s %s --tier quick" % (os.path.join(VERIF, "check"), prop), shell=True, env=env, stdout=subprocess.PIPE, stderr=subprocess.STDOUT, text=True)
        lines = rc.stdout.strip().splitlines()
        keys = [l[4:160] for l in lines if l.startswith("--- ")]
        meta["recheck"] = {"verif_commit": head, "exit": rc.returncode, "detected": rc.returncode == 1, "first_keys": keys[:3], "wall_s": round(time.time() - t0, 1)}
        for l in lines:
            if l.startswith("VIOLATION") and "replay=" in l:
                p = l.split("replay=")[1].strip()
                if os.path.exists(p): os.unlink(p)
        json.dump(meta, open(mp, "w"), indent=1)
        print(sid, "exit", rc.returncode, keys[:1], flush=True)
    finally:
        subprocess.run("git -C /repo worktree remove --force %s" % scratch, shell=True)
