#!/bin/sh
# usage: tools/mutate.sh <file-relative-to-src/orquestra/quantum> <python-regex-old> <new> -- <check args...>
# makes a scratch copy of /repo/src, applies one textual mutation, runs ./check on it, removes the copy.
set -e
F="$1"; OLD="$2"; NEW="$3"; shift 3; [ "$1" = "--" ] && shift
D=$(mktemp -d /tmp/mut-XXXXXX)
mkdir -p "$D/src"; cp -r /repo/src/orquestra "$D/src/"
/venv/bin/python - "$D/src/orquestra/quantum/$F" "$OLD" "$NEW" <<'PY'
import sys
p, old, new = sys.argv[1:4]
s = open(p).read()
if old not in s:
    print("MUTATION TARGET NOT FOUND"); sys.exit(3)
open(p, "w").write(s.replace(old, new, 1))
PY
set +e
VERIF_REPO="$D" /verif/check "$@" 2>&1 | tail -8
echo "exit=$?"
rm -rf "$D"
