#!/venv/bin/python
"""Run the repository's pinned test command (guard off) on a tree and compare with BASELINE.json stable_pass.
usage: tools/baseline.py [repo_dir]   exit 0 iff every stable-pass test still passes"""
import json, os, subprocess, sys, tempfile, xml.etree.ElementTree as ET
repo = sys.argv[1] if len(sys.argv) > 1 else "/repo"
base = json.load(open("/root/.vp/BASELINE.json"))
out = tempfile.mktemp(suffix=".xml")
env = dict(os.environ); env.pop("ORQ_VERIF_TRACE", None)
if repo != "/repo":
    env["PYTHONPATH"] = os.path.join(repo, "src")
cmd = ["/venv/bin/python", "-m", "pytest", "-q", "-p", "no:cacheprovider", "--timeout=900", "--continue-on-collection-errors", "--junitxml=" + out, "-x" if False else "-q"]
p = subprocess.run(cmd, cwd=repo, env=env, stdout=subprocess.PIPE, stderr=subprocess.STDOUT, text=True)
passed = set()
for tc in ET.parse(out).getroot().iter("testcase"):
    if not any(ch.tag in ("failure", "error", "skipped") for ch in tc):
        passed.add(tc.get("classname") + "::" + tc.get("name"))
os.unlink(out)
want = set(base["stable_pass"])
lost = sorted(want - passed)
print("passed %d, baseline stable %d, lost %d" % (len(passed), len(want), len(lost)))
for l in lost[:20]: print("  LOST", l)
print(p.stdout.strip().splitlines()[-1])
sys.exit(1 if lost else 0)
