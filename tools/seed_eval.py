#!/venv/bin/python
"""Evaluate one seeded change: tools/seed_eval.py <seed_dir> <prop> [--checks C08,C01] [--tier quick] [--no-baseline]
<seed_dir> holds patch.diff, demo.py (and notes.md).  In a scratch git worktree of /repo (removed afterwards):
 1. demo.py must pass on the clean tree, 2. patch applies, demo.py must fail, 3. the pinned test-suite keeps every
 baseline stable-pass test, 4. each named check is run against the patched tree (VERIF_REPO) and its verdict recorded.
Writes /verif/seeded/<name>/{patch.diff,demo.py,notes.md,meta.json}."""
import argparse, json, os, shutil, subprocess, sys, tempfile, time
ap = argparse.ArgumentParser()
ap.add_argument("seed_dir"); ap.add_argument("prop"); ap.add_argument("--checks"); ap.add_argument("--tier", default="quick")
ap.add_argument("--no-baseline", action="store_true"); ap.add_argument("--name")
a = ap.parse_args()
VERIF = os.path.dirname(os.path.dirname(os.path.abspath(__file__)))
name = a.name or (a.prop + "-" + os.path.basename(os.path.normpath(a.seed_dir)))
dest = os.path.join(VERIF, "seeded", name)
os.makedirs(dest, exist_ok=True)
for f in ("patch.diff", "demo.py", "notes.md"):
    if os.path.exists(os.path.join(a.seed_dir, f)) and os.path.abspath(a.seed_dir) != os.path.abspath(dest):
        shutil.copy(os.path.join(a.seed_dir, f), os.path.join(dest, f))
meta_path = os.path.join(dest, "meta.json")
meta = json.load(open(meta_path)) if os.path.exists(meta_path) else {}
meta.update({"property": a.prop, "source": "independent sub-agent given only the property text and a scratch worktree"})
scratch = tempfile.mkdtemp(prefix="se-", dir="/tmp")
os.rmdir(scratch)
def sh(cmd, **kw):
    return subprocess.run(cmd, shell=True, stdout=subprocess.PIPE, stderr=subprocess.STDOUT, text=True, **kw)
try:
    r = sh("git -C /repo worktree add -q --detach %s HEAD" % scratch)
    assert r.returncode == 0, r.stdout
    meta["repo_commit"] = sh("git -C /repo rev-parse --short HEAD").stdout.strip()
    env = dict(os.environ, PYTHONPATH=os.path.join(scratch, "src"), PYTHONHASHSEED="0")
    demo = os.path.join(dest, "demo.py")
    r0 = sh("timeout 600 /venv/bin/python %s" % demo, env=env, cwd=scratch)
    meta["demo_clean_exit"] = r0.returncode
    ra = sh("git -C %s apply %s" % (scratch, os.path.join(dest, "patch.diff")))
    meta["patch_applies"] = ra.returncode == 0
    if ra.returncode != 0:
        meta["apply_output"] = ra.stdout[-500:]
    r1 = sh("timeout 600 /venv/bin/python %s" % demo, env=env, cwd=scratch)
    meta["demo_patched_exit"] = r1.returncode
    meta["demo_patched_tail"] = r1.stdout.strip().splitlines()[-3:]
    if not a.no_baseline:
        rb = sh("/venv/bin/python %s %s" % (os.path.join(VERIF, "tools", "baseline.py"), scratch))
        meta["baseline"] = rb.stdout.strip().splitlines()[:1]
        meta["baseline_ok"] = rb.returncode == 0
    meta["confirmed"] = bool(meta["demo_clean_exit"] == 0 and meta["patch_applies"] and meta["demo_patched_exit"] != 0 and meta.get("baseline_ok", False))
    checks = (a.checks.split(",") if a.checks else [a.prop])
    meta.setdefault("checks", {})
    for c in checks:
        t0 = time.time()
        rc = sh("%s %s --tier %s" % (os.path.join(VERIF, "check"), c, a.tier), env=dict(os.environ, VERIF_REPO=scratch))
        lines = rc.stdout.strip().splitlines()
        keys = [l[4:200] for l in lines if l.startswith("--- ")]
        meta["checks"]["%s:%s" % (c, a.tier)] = {"exit": rc.returncode, "detected": rc.returncode == 1, "first_keys": keys[:4], "wall_s": round(time.time() - t0, 1),
                                                  "tail": lines[-2:] if rc.returncode != 1 else lines[-1:]}
        # replay files written for a scratch tree are of no use afterwards
        for l in lines:
            if l.startswith("VIOLATION") and "replay=" in l:
                p = l.split("replay=")[1].strip()
                if os.path.exists(p):
                    os.unlink(p)
    meta["ran"] = "tools/seed_eval.py %s %s --checks %s --tier %s" % (a.seed_dir, a.prop, ",".join(checks), a.tier)
finally:
    sh("git -C /repo worktree remove --force %s" % scratch)
    shutil.rmtree(scratch, ignore_errors=True)
json.dump(meta, open(meta_path, "w"), indent=1)
print(name, "confirmed=%s" % meta.get("confirmed"), {k: v["exit"] for k, v in meta["checks"].items()})
