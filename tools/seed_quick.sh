#!/bin/sh
# tools/seed_quick.sh <patch.diff> <Cxx> [tier]: run one check against a scratch worktree carrying the patch (no baseline, no demo)
P=$(realpath $1); C=$2; T=${3:-quick}
W=$(mktemp -d /tmp/sq-XXXXXX); rmdir $W
git -C /repo worktree add -q --detach $W HEAD || exit 2
git -C $W apply $P || { git -C /repo worktree remove --force $W; exit 2; }
VERIF_REPO=$W /verif/check $C --tier $T 2>&1 | grep -E "^---|^C[0-9]+ |VIOLATION|MACHINERY|BEYOND|KNOWN" | cut -c1-400 | head -12
git -C /repo worktree remove --force $W
rm -f /verif/replays/*.json
