#!/venv/bin/python
"""Regenerate MANIFEST.json from tools/manifest_entries.json (one entry per claimed property)."""
import json, os
HERE = os.path.dirname(os.path.dirname(os.path.abspath(__file__)))
ent = json.load(open(os.path.join(HERE, "tools", "manifest_entries.json")))
props = [json.loads(l) for l in open(os.path.join(HERE, "properties.jsonl"))]
baseline = json.load(open("/root/.vp/BASELINE.json"))["cmd"]
checks, na = [], []
for p in props:
    pid = p["id"]
    e = ent.get(pid)
    if not e or e.get("not_applicable"):
        na.append({"property_id": pid, "reason": (e or {}).get("reason", "check not built yet (see DESIGN.md section 4 for the planned specification)")})
        continue
    checks.append({
        "property_id": pid,
        "quick_cmd": "./check %s --tier quick" % pid,
        "thorough_cmd": "./check %s --tier thorough" % pid,
        "evidence_file": "evidence/%s.json" % pid,
        "replay_cmd_template": "./check %s --replay {path}" % pid,
        "engine": "tlc+conformance",
        "level_claimed": {"category": "model_checking", "text": e["text"], "design_ref": "DESIGN.md section 4, " + pid},
        "level_note": e["note"],
        "technique": e["technique"],
    })
m = {
    "version": 1,
    "setup_cmd": "true",
    "hooks": {
        "guard": "ORQ_VERIF_TRACE",
        "enable": "no source change in /repo: tracers are run-time wrappers installed by /verif/harness/vh/trace when ORQ_VERIF_TRACE=<path> is set; checks import the library from $VERIF_REPO (default /repo) working tree",
        "baseline_off_cmd": baseline,
        "source_commits": [],
        "add_only": True,
    },
    "engines": [{"name": "tlc+conformance", "path": "check", "serves_properties": [c["property_id"] for c in checks],
                 "kind_free_text": "explicit TLA+ specifications (spec/*.tla) model-checked by TLC 1.8; transitions exported by TLC are replayed through the real Python API (spec->code) and traces recorded from the real code are validated by TLC trace specifications (code->spec)"}],
    "checks": checks,
    "not_applicable": na,
    "notes": "See DESIGN.md.  Exit 0 = held (KNOWN-FINDING lines for listed findings), 1 = VIOLATION, 2 = machinery failure.",
}
json.dump(m, open(os.path.join(HERE, "MANIFEST.json"), "w"), indent=1)
print("claimed:", [c["property_id"] for c in checks], "not claimed:", [x["property_id"] for x in na])
