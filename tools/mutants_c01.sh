#!/bin/sh
cd /verif
tools/mutate.sh circuits/_unitary_tools.py "    return [int(char) for char in bin(i)[2:].zfill(num_qubits)]" "    return [int(char) for char in bin(i)[2:].zfill(num_qubits)][::-1]" -- C01 | cut -c1-300 | tail -3
tools/mutate.sh circuits/_unitary_tools.py "    inner_matrix = perm_matrix.transpose() @ inner_gate_matrix @ perm_matrix" "    inner_matrix = perm_matrix @ inner_gate_matrix @ perm_matrix.transpose()" -- C01 | cut -c1-300 | tail -3
tools/mutate.sh circuits/_circuit.py "        for op in reversed(self.operations):
            if isinstance(op, _gates.GateOperation):
                lifted_matrices" "        for op in self.operations:
            if isinstance(op, _gates.GateOperation):
                lifted_matrices" -- C01 | cut -c1-300 | tail -3
tools/mutate.sh circuits/_circuit.py "        n_qubits=max(circuit.n_qubits, other.n_qubits)," "        n_qubits=max(circuit.n_qubits, _circuit_size_by_operations(other.operations))," -- C01 | cut -c1-300 | tail -3
tools/mutate.sh circuits/_wavefunction_operations.py "exp_params = np.exp(np.asarray(self.params, dtype=float) * 1j)" "exp_params = np.exp(np.asarray(self.params, dtype=float) * -1j)" -- C01 | cut -c1-300 | tail -3
