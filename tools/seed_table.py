#!/venv/bin/python
"""Regenerate the per-round tables of seeded changes in DESIGN.md (between the SEEDED-TABLE markers) from seeded/*/meta.json,
and record the strengthening that answered a miss (STRENGTHENED below) in the meta.json of the change."""
import glob, json, os, re
VERIF = os.path.dirname(os.path.dirname(os.path.abspath(__file__)))
STRENGTHENED = {
 "C01-r3-m1": "CircuitSem alphabet: controlled-RZ (a diagonal two-qubit gate that is not invariant under bit reversal)",
 "C01-r3-m3": "concatenation after a phase operation; C01 'split' run: programs of 3 operations over {H, CNOT, two phase operations}",
 "C01-r4-m1": "C01 'split' run: programs of 3 operations over {H, CNOT, two phase operations} on two qubits (phase, gate, phase inside one non-native run)",
 "C02-r3-m1": "compound real expressions as parameters (a + b, 2t, -t, t/3, pi/5 + u ...), symbolic matrix evaluated at a point and bound gate against the polynomial",
 "C02-r3-m2": "histories that start at special points (0, pi, 2pi): replace_params / replace-to-symbols-then-bind, flag, dagger and matrix of the re-parametrised gate",
 "C02-r4-m2": "parameter values that hash alike in CPython (-1.0 then -2.0, -1 then -2) evaluated one after the other",
 "C03-r2-m2": "first operations of a chain chosen by content (sums on the left first) instead of TLC's emission order",
 "C03-r3-m3": "operands of the first operation of a chain must still denote their matrices afterwards; /= among the chain operations",
 "C03-r4-m1": "equality and hashing observed on the operands BEFORE the arithmetic of a chain",
 "C04-r3-m1": "the same tuples listed in reverse order evaluated right after (C04), histograms with equal outcome sets in another order (C10)",
 "C04-r3-m3": "exact expectation of Z-type sums with repeated non-adjacent strings (C04); unsimplified sums in PoolC09 (C09)",
 "C05-r3-m1": "Serde.tla parameter alphabet: elements of two vectors with suffix-related names (eta[1], theta[1], a[0]*alpha[0])",
 "C05-r3-m3": "Serde.tla: RX(pi) next to RX(Symbol('pi')) in one circuit; CtrlOnly runs with nested controlled gates that print alike",
 "C06-r3-m1": "Bind.tla: one-key maps mentioned by their own value (theta -> theta + pi/2, theta -> 2 theta) are inside the domain",
 "C06-r3-m2": "partially bound circuits evaluated as they are (mixed numeric/symbolic factors), three-operation circuits",
 "C06-r4-m1": "partially bound circuit / gates evaluated after the unbound ones had been evaluated",
 "C06-r4-m2": "Bind.tla: a bilinear monomial a*b among the parameters; maps binding a factor to zero (the other symbol is annihilated)",
 "C06-r4-m3": "the caller's dictionary refilled with another map and bound to the same circuit again",
 "C07-r4-m2": "custom gate A1x: the matrix A1 handed over with exact algebraic entries ((-1)^(1/4): complex numbers written without I)",
 "C08-r3-m2": "parametric custom gate built at the all-zero point and re-parametrised before inverse()",
 "C09-r3-m1": "PoolC09: unsimplified sums with repeated non-adjacent strings whose later coefficients are complex",
 "C10-r3-m1": "operator handed over as a bare PauliTerm (one value, 1x1 frames, one tally row)",
 "C10-r3-m2": "one dictionary object refilled in place with the complemented outcomes (Stats!ComplementLaw), same outcomes in another order",
 "C10-r3-m3": "StatsTrace verdict total on result shapes (was a machinery failure); tallies compared per term",
 "C10-r4-m1": "the last shot of a persistent measurement set edited in place, statistics read again",
 "C11-r3-m2": "nearly equal operators (coefficients shifted by a few 1e-7) serialised before and after the operator under test",
 "C11-r4-m1": "nearly equal operators (coefficients shifted by a few 1e-7) serialised before and after the operator under test",
 "C12-r3-m1": "symbol b of the states carries an assumption (real=True) in every route",
 "C12-r3-m2": "Wavefunction.tla: flip of symbolic / mixed states, then bind / set / flip on the reversed object (SymFlipOnly run)",
 "C12-r4-m2": "Tolerance.tla: acceptance tolerance of assignments (global re-check; the entry-local shortcut is refuted by TLC), boundary assignments and 120-step behaviours on one object",
 "C12-r4-m3": "Dicke states on 9 and 10 qubits (11, 12 in the thorough tier)",
 "C13-r4-m2": "the returned measurement set edited (shot overwritten, shot appended) and the same request repeated",
 "C13-r4-m3": "wider supports (6-13 outcomes) with several shots of over/undershoot, every call repeated with fresh draws",
 "C14-r3-m2": "Runner.tla circuits: the same operations on a wider register and an empty register of another width (tracker records)",
 "C14-r4-m2": "Runner.tla circuits: the same operations on a wider register and an empty register of another width (tracker records)",
 "C15-r3-m2": "the simulator has just simulated the tasks' circuit objects from other initial states",
 "C16-r3-m1": "coefficients whose imaginary part is small only relative to a large real part (2000 + 0.01j)",
 "C17-r3-m1": "Distribution.tla input: a three-qubit distribution without permutation symmetry (every order of the marginal)",
 "C17-r4-m2": "Distribution.tla input: a three-qubit distribution without permutation symmetry (every order of the marginal)",
 "C17-r3-m2": "one parameter dictionary holding an ARRAY of kernel widths shared by mmd(p,q) and mmd(q,p), snapshotted",
 "C17-r3-m3": "round-off sized negative weight next to weights summing to 1: no object may hold a negative probability",
 "C19-r4-m2": "like-named symbols with assumptions converted BETWEEN a conversion and its translation back",
 "C20-r4-m1": "ValueSemantics.tla: augmented assignment (p_iadd, p_imul) as operations, a term on another string among the seeds",
 "C01-r5-m3": "gates at angles far below the ring's grid (1.8e-5 .. 2e-7 rad): single application and 200 in a row against the closed form",
 "C07-r5-m2": "matrix objects a caller holds: received, another gate of the same shape evaluated, the first object compared again; entry overwritten",
 "C07-r5-m3": "quick-tier run of the chains power(1/q) - controlled - exp over X and CNOT (3-qubit gates)",
 "C11-r5-m3": "coefficient family with an imaginary part that is small only relative to the real part (1000 + 0.005j)",
 "C13-r5-m3": "scale_and_discretize at large totals (shares of 10^4 .. 10^6)",
 "C15-r5-m2": "every result of a first call edited in place, the same request repeated",
 "C15-r5-m3": "operators with coefficients of size 1e-9 on basis states",
 "C17-r5-m1": "the returned marginal must not share its dictionary with the source; editing it leaves the source intact",
 "C19-r5-m2": "a numeric dialect, then the sympy dialect again, after a refused (nested) translation",
 "C12-r6-m3": "probabilities of the numeric entries of a state that is still symbolic",
 "C07-r6-m3": "bases built at special points (0, pi, 2 pi), re-parametrised to the parameters of the case, then modified",
 "C13-r6-m1": "per-copy results given as collections.Counter objects, combined twice",
 "C13-r6-m3": "a batch of another shape is a named violation (was a harness crash = machinery failure)",
 "C19-r6-m3": "sums and products of 9 .. 33 operands (judged numerically)",
}
NOT_A_VIOLATION = {
 "C08-r3-m3": "not a violation under the documented reading of controlled(): the unchanged Circuit.controlled already drops idle declared qubits, and the check compares both sides padded to a common width (the statement does not fix the width of a controlled circuit)",
}
def note(d):
    p = os.path.join(d, "notes.md")
    if not os.path.exists(p):
        return ""
    for line in open(p):
        t = line.strip().lstrip("#").strip()
        if len(t) > 12:
            t = re.sub(r"^(C\d\d\s*/\s*)?m\d\s*[-—:]+\s*", "", t)
            return t.replace("|", "/")[:110]
    return ""
rows = {}
for d in sorted(glob.glob(os.path.join(VERIF, "seeded", "*"))):
    sid = os.path.basename(d)
    mp = os.path.join(d, "meta.json")
    if not os.path.exists(mp):
        continue
    m = json.load(open(mp))
    if sid in STRENGTHENED and m.get("strengthening_done") != STRENGTHENED[sid]:
        m["strengthening_done"] = STRENGTHENED[sid]
        json.dump(m, open(mp, "w"), indent=1)
    if sid in NOT_A_VIOLATION:
        m["judged"] = NOT_A_VIOLATION[sid]
        json.dump(m, open(mp, "w"), indent=1)
    rnd = re.search(r"-r(\d)-", sid)
    rnd = int(rnd.group(1)) if rnd else 1
    first = any(v.get("detected") for v in m.get("checks", {}).values())
    rc = m.get("recheck") or {}
    now = rc.get("detected") if rc else first
    key = (rc.get("first_keys") or [k for v in m.get("checks", {}).values() for k in v.get("first_keys", [])] or [""])[0]
    rows.setdefault(rnd, []).append((sid, note(d), first, now, key.split(":")[0] + (":" + key.split(":")[1] if key.count(":") > 1 and len(key.split(":")[1]) < 24 else ""), m.get("strengthening_done", ""), sid in NOT_A_VIOLATION))
out = ["<!-- SEEDED-TABLE-BEGIN (generated by tools/seed_table.py from seeded/*/meta.json) -->", ""]
for rnd in sorted(rows):
    if rnd == 1:
        continue  # the first round has its hand-written table above
    rs = rows[rnd]
    n, f, c = len(rs), sum(1 for r in rs if r[2]), sum(1 for r in rs if r[3] or r[2])
    out.append("**Round %d**: %d changes; %d caught by the check as it stood on the first run; %d caught by the current checks%s." % (rnd, n, f, c, "".join("; %s: %s" % (r[0], NOT_A_VIOLATION[r[0]]) for r in rs if r[6])))
    out.append("")
    out.append("| seeded change | what it does (sub-agent's note) | first run | now | first violation key | what was added after a miss |")
    out.append("|---|---|---|---|---|---|")
    for sid, nt, first, now, key, st, nav in rs:
        out.append("| %s | %s | %s | %s | `%s` | %s |" % (sid, nt, "caught" if first else "missed", "not a violation (see above)" if nav else ("caught" if (now or first) else "MISSED"), key[:40], st))
    out.append("")
out.append("<!-- SEEDED-TABLE-END -->")
p = os.path.join(VERIF, "DESIGN.md")
s = open(p).read()
block = "\n".join(out)
if "<!-- SEEDED-TABLE-BEGIN" in s:
    s = re.sub(r"<!-- SEEDED-TABLE-BEGIN.*?<!-- SEEDED-TABLE-END -->", lambda _: block, s, flags=re.S)
else:
    s = s.replace("A second round of seeded changes (different mechanisms) is evaluated the same way; its results are in\n`seeded/*-r2-*` and summarised at the end of this section when available.\n", "Later rounds (other mechanisms each time) were evaluated the same way:\n\n" + block + "\n")
open(p, "w").write(s)
print({r: len(v) for r, v in rows.items()})
