"""C06 - binding parameters commutes with evaluating the circuit.

spec: Bind.tla - parameters are linear forms over three symbols (numbers, bare symbols, expressions); TLC checks
MechanismIsSubstitution (three-way dispatch = simultaneous substitution), SubstitutionLemma (parameter by
parameter and matrix by matrix), CustomFactorySound, StepsComposeToOnce, UntouchedParams, ExtraKeysIgnored,
FreeSymbolsExact, NoFreeIffAllNumeric, PowerExpRefuse on every circuit / chain of maps inside the bounds, and
refutes the custom-gate factory with sequential substitution (the construction as found, F11).
spec->code: every exported bind step is replayed on a real circuit (built-in, controlled, dagger, custom gates,
a non-gate phase operation, power / exponential wrappers): parameters, free symbols (ordered), refusal, and the
matrices - bound-then-evaluated against evaluated-symbolically-then-substituted and against the specification's
exact unitary at two total assignments; chains of partial maps against one composed map."""
import math

import numpy as np

from .. import circ_common as cc
from ..bridge import close, mat
from ..common import Snap
from ..tlc import TLCError

INV = ["MechanismIsSubstitution", "SubstitutionLemma", "CustomFactorySound", "StepsComposeToOnce", "UntouchedParams", "ExtraKeysIgnored", "FreeSymbolsExact", "NoFreeIffAllNumeric", "PowerExpRefuse"]
NAMES = {1: "a", 2: "b", 3: "c", 4: "unused"}
ASSIGN = [(1, 2, 3), (3, 1, 6)]
H = math.pi / 2


def sym(i):
    """the circuit's symbols; 'c' carries an assumption ('any symbols': a symbol is more than its name)"""
    import sympy

    return sympy.Symbol(NAMES[i], real=True) if i == 3 else sympy.Symbol(NAMES[i])


def param(lf):
    """linear form -> a number (python float/int), a bare symbol or a sympy expression"""
    c, k = lf["c"], lf["k"]
    nz = [i for i in range(3) if c[i] != 0]
    if lf.get("d"):
        # the monomial d*a*b in the specification's units: the real parameter is d*a*b/(pi/2)
        e = lf["d"] * sym(1) * sym(2) / H
        for i in nz:
            e = e + c[i] * sym(i + 1)
        return e + k * H if k else e
    if not nz:
        return k * H if k else 0
    if len(nz) == 1 and c[nz[0]] == 1 and k == 0:
        return sym(nz[0] + 1)
    e = 0
    for i in nz:
        e = e + c[i] * sym(i + 1)
    return e + k * H if k else e


_V = []


def vdef():
    import sympy
    from orquestra.quantum.circuits import CustomGateDefinition

    if not _V:
        a, b = sympy.Symbol("a"), sympy.Symbol("b")
        rz = sympy.Matrix([[sympy.exp(-sympy.I * a / 2), 0], [0, sympy.exp(sympy.I * a / 2)]])
        rx = sympy.Matrix([[sympy.cos(b / 2), -sympy.I * sympy.sin(b / 2)], [-sympy.I * sympy.sin(b / 2), sympy.cos(b / 2)]])
        _V.append(CustomGateDefinition("V", rz * rx, (a, b)))
    return _V[0]


def real_op(o):
    from orquestra.quantum.circuits import MultiPhaseOperation, builtin_gate_by_name

    ps = [param(p) for p in o["ps"]]
    if o["kind"] == "phase":
        return MultiPhaseOperation(tuple(ps))
    if o["kind"] == "custom":
        g = vdef()(*ps)
    else:
        g = builtin_gate_by_name(o["name"])(*ps)
    if o["kind"] == "ctrl":
        g = g.controlled(1)
    elif o["kind"] == "dag":
        g = g.dagger
    elif o["kind"] == "pow":
        g = g.power(2)
    elif o["kind"] == "exp":
        g = g.exp
    return g(*o["qs"])


def real_circuit(c):
    from orquestra.quantum.circuits import Circuit

    return Circuit([real_op(o) for o in c], n_qubits=2)


def real_map(m):
    return {sym(e["s"]): param(e["v"]) for e in m}


def show(c):
    def p(lf):
        return str(param(lf)) if not isinstance(param(lf), float) else "%d*pi/2" % lf["k"]

    return "Circuit([%s])" % ", ".join("%s%s(%s)%s" % (o["name"] or "phase", {"ctrl": ".controlled(1)", "dag": ".dagger", "pow": ".power(2)", "exp": ".exp"}.get(o["kind"], ""), ", ".join(p(x) for x in o["ps"]), tuple(o["qs"])) for o in c)


def numeric_unitary(circ):
    """action of a fully numeric circuit, column by column through .apply (works for non-gate operations too)"""
    n = circ.n_qubits
    cols = []
    for j in range(2**n):
        v = np.zeros(2**n, dtype=complex)
        v[j] = 1
        for op in circ.operations:
            v = np.asarray(op.apply(v), dtype=complex).reshape(-1)
        cols.append(v)
    return np.array(cols).T


def params_equal(p, q):
    import sympy

    d = sympy.expand(sympy.sympify(p) - sympy.sympify(q))
    if d == 0:
        return True
    return all(abs(complex(v)) < 1e-9 for v in d.as_coefficients_dict().values())


def same_param(real, lf):
    import sympy

    want = param(lf)
    if isinstance(want, (int, float)):
        try:
            return not getattr(real, "free_symbols", None) and abs(complex(real) - want) < 1e-9
        except TypeError:
            return False
    return params_equal(real, want)


def check_case(ctx, c):
    import sympy

    out = []
    desc = "%s.bind(%s)" % (show(c["pre"]), {NAMES[e["s"]]: str(param(e["v"])) for e in c["m"]})
    pre = real_circuit(c["pre"])
    m = real_map(c["m"])
    snap = Snap([pre, m])
    try:
        bound = pre.bind(m)
        raised = None
    except NotImplementedError as ex:
        raised = ex
        bound = None
    if snap.changed():
        out.append(("mutated", "%s modified its arguments" % desc))
    if (raised is not None) != (c["out"] == "not-implemented"):
        out.append(("refusal", "%s: %s, specification %s" % (desc, "raised NotImplementedError" if raised else "returned a circuit", c["out"])))
        return out
    if raised is not None:
        # the refusing wrappers on their own, too
        for op in pre.operations:
            g = getattr(op, "gate", None)
            if g is not None and type(g).__name__ in ("Power", "Exponential"):
                try:
                    g.bind(m)
                    out.append(("refusal:gate", "%s.bind did not refuse" % g))
                except NotImplementedError:
                    pass
        return out
    if c["chained"]:
        return out  # several keys, some mentioned by the map's values: outside the domain (bare symbols and expressions read it differently)
    if bound.n_qubits != pre.n_qubits or len(bound.operations) != len(pre.operations):
        out.append(("shape", "%s changed the width or the number of operations" % desc))
        return out
    # parameters, operation by operation
    for i, (bop, spec_op, pop) in enumerate(zip(bound.operations, c["post"], pre.operations)):
        if len(bop.params) != len(spec_op["ps"]):
            out.append(("params:count", "%s: operation %d has %d parameters" % (desc, i, len(bop.params))))
            continue
        for j, (rp, lf) in enumerate(zip(bop.params, spec_op["ps"])):
            if not same_param(rp, lf):
                out.append(("params:value", "%s: parameter %d of operation %d is %s, substitution gives %s" % (desc, j, i, rp, param(lf))))
            keys = {e["s"] for e in c["m"]}
            prelf = c["pre"][i]["ps"][j]
            if not any(prelf["c"][s - 1] or (prelf.get("d") and s in (1, 2)) for s in keys if s <= 3) and not (rp is pop.params[j] or rp == pop.params[j]):
                out.append(("params:untouched", "%s: parameter %d of operation %d (%s) does not depend on the map but became %s" % (desc, j, i, pop.params[j], rp)))
        want_free = sorted({NAMES[s + 1] for lf in spec_op["ps"] for s in range(3) if lf["c"][s] or (lf.get("d") and s in (0, 1))})
        if [str(s) for s in bop.free_symbols] != want_free:
            out.append(("free:operation", "%s: operation %d reports free symbols %s, its parameters depend on %s" % (desc, i, list(bop.free_symbols), want_free)))
        g = getattr(bop, "gate", None)
        if g is not None and [str(s) for s in g.free_symbols] != want_free:
            out.append(("free:gate", "%s: gate %s reports free symbols %s, expected %s" % (desc, g, list(g.free_symbols), want_free)))
    want = [NAMES[s] for s in c["free"]]
    if [str(s) for s in bound.free_symbols] != want:
        out.append(("free:circuit", "%s: free symbols %s, first-appearance order gives %s" % (desc, bound.free_symbols, want)))
    if (not bound.free_symbols) != all(not getattr(p, "free_symbols", None) for op in bound.operations for p in op.params):
        out.append(("free:iff", "%s: 'no free symbols' does not coincide with 'every parameter is free of symbols'" % desc))
    # matrices: bound-then-evaluated  vs  specification  vs  evaluated-symbolically-then-substituted
    has_phase = any(o["kind"] == "phase" for o in c["pre"])
    for k, sg in enumerate(ASSIGN):
        total = {sym(i + 1): sg[i] * H for i in range(3)}
        full = bound.bind(total)
        if full.free_symbols:
            out.append(("total-bind", "%s then a total assignment still has free symbols %s" % (desc, full.free_symbols)))
            continue
        U = numeric_unitary(full)
        S = mat(c["U"][k])
        if not close(U, S, 1e-8):
            out.append(("matrix:spec", "%s evaluated at %s differs from the specification's exact matrix" % (desc, dict(zip("abc", sg)))))
        if not has_phase:
            if not close(cc.to_np(full.to_unitary()), S, 1e-8):
                out.append(("matrix:to_unitary", "%s: to_unitary() at %s differs from the specification" % (desc, dict(zip("abc", sg)))))
            # evaluate symbolically first, substitute the composed values afterwards (simultaneously, by the harness)
            comp = {}
            for i in range(3):
                s = sym(i + 1)
                v = m.get(s, s)
                comp[s] = sympy.sympify(v).subs(total, simultaneous=True) if hasattr(v, "subs") or isinstance(v, sympy.Basic) else v
            try:
                u0 = pre.to_unitary()
                Usym = sympy.Matrix(u0.tolist() if isinstance(u0, np.ndarray) else u0).subs(comp, simultaneous=True) if not isinstance(u0, np.ndarray) else u0
                if not close(cc.to_np(Usym), U, 1e-8):
                    out.append(("matrix:commute", "%s: evaluating symbolically and substituting afterwards differs from binding first (at %s)" % (desc, dict(zip("abc", sg)))))
            except Exception as ex:
                out.append(("matrix:symbolic-raises", "%s: symbolic to_unitary raised %s: %s" % (desc, type(ex).__name__, str(ex)[:150])))
        # gate by gate
        for i, (bop, pop) in enumerate(zip(full.operations, pre.operations)):
            g = getattr(bop, "gate", None)
            if g is None:
                continue
            pg = pop.gate
            comp_all = {}
            for s_ in pg.free_symbols:
                v = m.get(s_, s_)
                comp_all[s_] = sympy.sympify(v).subs(total, simultaneous=True)
            M1 = cc.to_np(g.matrix)
            M2 = cc.to_np(sympy.Matrix(pg.matrix).subs(comp_all, simultaneous=True)) if comp_all else cc.to_np(pg.matrix)
            if not close(M1, M2, 1e-8):
                out.append(("matrix:gate", "%s: matrix of operation %d bound first differs from the symbolic matrix substituted afterwards (at %s)" % (desc, i, dict(zip("abc", sg)))))
    # the PARTIALLY bound circuit evaluated as it is (numeric and still-symbolic factors side by side), the remaining symbols
    # substituted afterwards
    if not out and not has_phase and bound.free_symbols:
        for k, sg in enumerate(ASSIGN):
            total = {sym(i + 1): sg[i] * H for i in range(3)}
            try:
                ub = bound.to_unitary()
                Ub = cc.to_np(sympy.Matrix(ub.tolist() if isinstance(ub, np.ndarray) else ub).subs(total, simultaneous=True))
                if not close(Ub, mat(c["U"][k]), 1e-8):
                    out.append(("matrix:partial", "%s: the partially bound circuit evaluated symbolically, remaining symbols substituted afterwards (at %s), differs from the specification's matrix" % (desc, dict(zip("abc", sg)))))
                    break
            except Exception as ex:
                out.append(("matrix:partial-raises", "%s: to_unitary() of the partially bound circuit raised %s: %s" % (desc, type(ex).__name__, str(ex)[:150])))
                break
    # the other order of events: by now every gate of `pre` has been evaluated symbolically (its matrix may be cached);
    # binding the SAME objects again must still give gates that evaluate at the bound parameters
    if not out:
        again = pre.bind(m)
        for k, sg in enumerate(ASSIGN):
            total = {sym(i + 1): sg[i] * H for i in range(3)}
            try:
                full = again.bind(total)
                ok = close(numeric_unitary(full), mat(c["U"][k]), 1e-8)
                # the gates of the circuit bound the second time, evaluated while they still have free symbols
                for aop, fop in zip(again.operations, full.operations):
                    ag = getattr(aop, "gate", None)
                    if ag is not None and ag.free_symbols:
                        if not close(cc.to_np(sympy.Matrix(ag.matrix).subs(total, simultaneous=True)), cc.to_np(fop.gate.matrix), 1e-8):
                            ok = False
                for bop in full.operations:
                    g = getattr(bop, "gate", None)
                    if g is not None and getattr(sympy.Matrix(g.matrix), "free_symbols", None):
                        ok = False
            except Exception as ex:
                out.append(("evaluated-then-bound:raises", "%s after the circuit had been evaluated symbolically: %s: %s" % (desc, type(ex).__name__, str(ex)[:150])))
                break
            if not ok:
                out.append(("evaluated-then-bound", "%s after the circuit had been evaluated symbolically: the bound circuit at %s differs from the specification's matrix (or a bound gate's matrix still mentions symbols)" % (desc, dict(zip("abc", sg)))))
                break
    # the caller's dictionary is the caller's: it is refilled with another map (same object) and handed to the same circuit again -
    # the result is what a fresh circuit gives for a fresh dictionary holding that map
    for mm in ((m, dict(m)) if not out else ()):     # the very object that was bound first, then an equal copy of it
        saved = dict(mm)
        r1 = pre.bind(mm)
        m2 = {k_: (0.5 + 0.25 * j_) for j_, k_ in enumerate(mm)}
        m2.pop(next(iter(m2))) if len(m2) > 1 else None
        mm.clear()
        mm.update(m2)
        try:
            r2 = pre.bind(mm)
            mm.clear()
            mm.update(saved)
            fresh = real_circuit(c["pre"]).bind(dict(m2))
            same = len(r2.operations) == len(fresh.operations) and all(len(x.params) == len(y.params) and all(params_equal(p_, q_) for p_, q_ in zip(x.params, y.params)) for x, y in zip(r2.operations, fresh.operations))
            if not same or [str(s_) for s_ in r2.free_symbols] != [str(s_) for s_ in fresh.free_symbols]:
                out.append(("rebind:refilled-map", "%s, then the same dictionary object refilled with %s and bound to the same circuit again: parameters %s, a fresh circuit and dictionary give %s" % (desc, {str(k_): v_ for k_, v_ in m2.items()}, [op.params for op in r2.operations], [op.params for op in fresh.operations])))
        except Exception as ex:
            out.append(("rebind:raises", "%s, then the same dictionary refilled and bound again: %s: %s" % (desc, type(ex).__name__, str(ex)[:150])))
    # several partial steps = one step with the composed map
    if c["nhist"] == 2 and not out:
        first = real_circuit(c["first"])
        m1, m2 = real_map(c["maps"][0]), real_map(c["maps"][1])
        two = first.bind(m1).bind(m2)
        both = {s: (sympy.sympify(v).subs(m2, simultaneous=True) if isinstance(v, sympy.Basic) else v) for s, v in m1.items()}
        for s, v in m2.items():
            both.setdefault(s, v)
        def is_chained(mm):
            return len(mm) > 1 and any(isinstance(v, sympy.Basic) and (v.free_symbols & set(mm)) for v in mm.values())

        if not (is_chained(m1) or is_chained(m2) or is_chained(both)):
            one = first.bind(both)
            ok = len(one.operations) == len(two.operations) and all(len(x.params) == len(y.params) and all(params_equal(p, q) for p, q in zip(x.params, y.params)) for x, y in zip(one.operations, two.operations))
            if not ok:
                out.append(("steps", "%s: binding %s then %s differs from binding the composed map once" % (show(c["first"]), m1, m2)))
    return out


def run(ctx):
    quick = ctx.tier == "quick"
    allops = "{1, 2, 3, 4, 5, 6, 7, 8, 9, 10, 11, 12, 13, 14, 15, 16, 17, 18}"
    allmaps = "{1, 2, 3, 4, 5, 6, 7, 8, 9, 10, 11, 12, 13, 14}"
    if quick:
        runs = [dict(MaxOps=1, MaxBinds=2, OpSel="{1, 2, 3, 4, 5, 7, 8, 9, 10, 11, 13, 14, 17}", MapSel="{1, 3, 5, 6, 8, 10, 11}"), dict(MaxOps=1, MaxBinds=1, OpSel=allops, MapSel=allmaps),
                dict(MaxOps=2, MaxBinds=1, OpSel="{1, 2, 3, 4, 7, 8, 10, 12, 15, 16}", MapSel="{1, 3, 5, 6, 7, 9, 10, 12}"),
                dict(MaxOps=2, MaxBinds=1, OpSel="{1, 5, 17, 18}", MapSel="{1, 2, 4, 13, 14}"),
                # three operations: a partial map leaves numeric neighbours (which do not commute) next to a still-symbolic gate
                dict(MaxOps=3, MaxBinds=1, OpSel="{3, 6, 14, 16}", MapSel="{1, 2}")]
    else:
        runs = [dict(MaxOps=1, MaxBinds=2, OpSel=allops, MapSel=allmaps), dict(MaxOps=2, MaxBinds=2, OpSel="{1, 2, 3, 4, 7, 8, 10, 12, 15, 17}", MapSel="{1, 3, 5, 6, 8, 10, 13}"),
                dict(MaxOps=2, MaxBinds=1, OpSel=allops, MapSel=allmaps), dict(MaxOps=3, MaxBinds=1, OpSel="{1, 3, 6, 7, 14, 16, 18}", MapSel="{1, 2, 3, 6, 10, 13}")]
    ctx.bounds = {"run%d" % i: r for i, r in enumerate(runs)}

    class _R:
        emitted = []

    res = _R()
    for r in runs:
        r_ = ctx.tlc("Bind", constants=dict(r, Simultaneous=True, Emitting=True), invariants=INV, action_constraints=["Emit"], view="ViewNoGm", coverage=False, timeout=5000)
        res.emitted = res.emitted + r_.emitted
    r2 = ctx.tlc("Bind", constants=dict(MaxOps=1, MaxBinds=1, OpSel="{7, 8}", MapSel="{1}", Simultaneous=False, Emitting=False), invariants=["CustomFactorySound"], view="ViewNoGm", coverage=False, timeout=600, allow_violation=True)
    if "CustomFactorySound" not in r2.violated:
        raise TLCError("vacuity: the custom-gate factory with sequential substitution is not refuted")
    cases = res.emitted
    if len(cases) < 500:
        raise TLCError("Bind exported only %d bind steps" % len(cases))
    if not any(c["out"] == "not-implemented" for c in cases) or not any(c["nhist"] == 2 for c in cases):
        raise TLCError("vacuity: no refusal / no two-step chain exported")
    for c, fails in zip(cases, ctx.pmap(check_case, cases, chunksize=8)):
        ctx.count({"k": "bind", "circuit": show(c["pre"]), "map": c["m"], "step": c["nhist"]}, kind="refused" if c["out"] != "ok" else ("chained map (outside the domain)" if c["chained"] else "bind step %d" % c["nhist"]))
        for key, msg in fails:
            ctx.violation(key, msg, c)
    ctx.assumptions.append("maps with several keys whose values mention keys are outside the domain (one-key maps such as theta -> theta + pi/2 are inside): for them bare-symbol parameters (dictionary lookup) and expression parameters (sympy's sequential dictionary substitution) read the map differently, and the statement does not say which reading is meant")
    ctx.assumptions.append("parameters are linear forms over three symbols with numeric parts on the pi/2 grid (exact matrices); the custom gate's formal parameters carry the same names as circuit symbols, so name capture is visible")


def replay(ctx, case):
    if case.get("k") == "tlc":
        raise TLCError("a TLC counterexample is replayed by re-running the check")
    ctx.count({"k": "bind"})
    for key, msg in check_case(ctx, case):
        ctx.violation(key, msg, case)
