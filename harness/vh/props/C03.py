"""C03 - Pauli operator arithmetic is faithful to matrix arithmetic.

spec: Pauli.tla (mechanism: OPERATOR_MAP/COEFF_MAP table, simplify, square-and-multiply, equality rules;
meaning: dense matrices over the exact ring).  TLC: TableIsFaithful (ASSUME), ArithmeticIsFaithful /
EqIffSameMatrix / ... in every state of a register machine over a pool of seed operands (depth 1 fully,
depth 2 sampled in quick / fully in thorough), plus ALL pairs of Pauli strings on NQ qubits.
spec->code: every exported transition is replayed with the real Python operators; the result is compared
with the spec's result (canonical projection + type) and, independently, its dense matrix (numpy.kron) with
the matrix operation on the dense matrices of the real arguments; arguments are snapshotted (C20)."""
import numpy as np

from .. import pauli_common as pc
from ..bridge import close
from ..common import Snap
from ..tlc import TLCError

INV = ["ArithmeticIsFaithful", "ResultTypes", "ResultsAreSimplified", "EqIffSameMatrix"]
OPS = '{"add","sub","mul","div","eq","pow","simplify"}'


def check_case(ctx, c, nq):
    out = []
    op = c["op"]
    style = (len(c["x"]["ts"]) + len(c["y"]["ts"]) + c["k"]) % 3
    x = pc.operand_real(c["x"], style)
    y = pc.operand_real(c["y"], style + 1)
    desc = "%s %s %s" % (pc.show(c["x"]), op, pc.show(c["y"]) if op not in ("pow", "simplify") else c["k"])
    snap = Snap([x, y])
    try:
        if op == "add":
            r = x + y
        elif op == "sub":
            r = x - y
        elif op == "mul":
            r = x * y
        elif op == "div":
            r = x / y
        elif op == "pow":
            r = x ** c["k"]
        elif op == "simplify":
            r = x.simplify()
        elif op == "eq":
            r = x == y
            r2 = y == x
        else:
            raise KeyError(op)
    except Exception as ex:
        return [("raised:" + op, "%s raised %s: %s" % (desc, type(ex).__name__, str(ex)[:200]))]
    if snap.changed():
        out.append(("mutated:" + op, "%s modified argument(s) %s" % (desc, snap.changed())))
    dx, dy = pc.dense_real(x, nq), pc.dense_real(y, nq)
    if op == "eq":
        same = close(dx, dy, 1e-8)
        if bool(r) != bool(c["b"]) or bool(r2) != bool(c["b"]):
            out.append(("eq:spec", "%s: library says %s/%s, specification %s" % (desc, r, r2, c["b"])))
        simp = all(pc.kind_of(v) != "sum" or (len(set(frozenset(t._ops.items()) for t in v.terms)) == len(v.terms) and all(abs(t.coefficient) > 1e-8 for t in v.terms)) for v in (x, y))
        if simp and bool(r) != same:
            out.append(("eq:matrix", "%s: library says %s but the denoted matrices are %s" % (desc, r, "equal" if same else "different")))
        return out
    want = {"add": lambda: dx + dy, "sub": lambda: dx - dy, "mul": lambda: dx @ dy, "div": lambda: dx / complex(y), "pow": lambda: np.linalg.matrix_power(dx, c["k"]), "simplify": lambda: dx}[op]()
    try:
        dr = pc.dense_real(r, nq)
    except Exception as ex:
        return out + [("result:" + op, "%s: result %r cannot be interpreted: %s" % (desc, r, ex))]
    if not close(dr, want, 1e-8):
        out.append(("matrix:" + op, "%s: result %r does not denote the matrix %s of the arguments" % (desc, r, op)))
    if not pc.canon_close(pc.canon_real(r), pc.canon_abstract(c["res"])):
        out.append(("spec:" + op, "%s: result %r differs from the specification result %s" % (desc, r, pc.show(c["res"]))))
    if pc.kind_of(r) != c["res"]["t"]:
        ctx.spec_drift("%s returned a %s, the transcription a %s" % (op, pc.kind_of(r), c["res"]["t"]))
    if op == "simplify" or (pc.kind_of(r) == "sum" and op in ("add", "sub", "mul")):
        keys = [frozenset(t._ops.items()) for t in r.terms]
        if len(set(keys)) != len(keys) or any(abs(t.coefficient) <= 1e-8 for t in r.terms):
            if op == "simplify":
                out.append(("simplify:not-simplified", "%s: %r still has duplicate or zero terms" % (desc, r)))
    return out


def apply_op(op, a, b, inplace=False):
    import operator as o_

    f = {"add": (o_.add, o_.iadd), "sub": (o_.sub, o_.isub), "mul": (o_.mul, o_.imul), "div": (o_.truediv, o_.itruediv)}[op][1 if inplace else 0]
    return f(a, b)


def is_simplified(v):
    return pc.kind_of(v) != "sum" or (len(set(frozenset(t._ops.items()) for t in v.terms)) == len(v.terms) and all(abs(t.coefficient) > 1e-8 for t in v.terms))


def check_chain(ctx, ch):
    """two operations of the specification on ONE evolving real object: the second operand of the second operation is the
    object the library itself returned from the first (not a fresh copy); with and without the in-place operators"""
    out = []
    c1, c2, nq = ch["c1"], ch["c2"], ch["nq"]
    for inplace in (False, True):
        x1, y1 = pc.operand_real(c1["x"], 0), pc.operand_real(c1["y"], 1)
        desc1 = "(%s %s%s %s)" % (pc.show(c1["x"]), c1["op"], "=" if inplace else "", pc.show(c1["y"]))
        if not inplace:
            # equality / hashing are observations: made BEFORE the arithmetic (whatever they remember about the operands must not
            # leak into objects derived from them); the in-place pass is the history without them
            for o_ in (x1, y1):
                if pc.kind_of(o_) != "num":
                    bool(o_ == o_)
                    try:
                        hash(o_)
                    except TypeError:
                        pass
            if pc.kind_of(x1) != "num" and pc.kind_of(y1) != "num":
                bool(x1 == y1)
        d_x1 = pc.dense_real(x1, nq) if pc.kind_of(x1) != "num" else None
        d_y1 = pc.dense_real(y1, nq) if pc.kind_of(y1) != "num" else None
        try:
            r1 = apply_op(c1["op"], x1, y1, inplace and pc.kind_of(x1) != "num")
            if ch["side"] == "x":
                other = pc.operand_real(c2["y"], 2)
                desc = "%s %s%s %s" % (desc1, c2["op"], "=" if inplace else "", pc.show(c2["y"]))
                r2 = apply_op(c2["op"], r1, other, inplace and pc.kind_of(r1) != "num")
            else:
                other = pc.operand_real(c2["x"], 2)
                desc = "%s %s %s" % (pc.show(c2["x"]), c2["op"], desc1)
                snap = Snap([r1])
                r2 = apply_op(c2["op"], other, r1, False)
                if snap.changed():
                    out.append(("chain:mutated", "%s modified its right operand (a result of the library)" % desc))
        except Exception as ex:
            out.append(("chain:raised", "%s then %s on the returned object%s raised %s: %s" % (desc1, c2["op"], " (in place)" if inplace else "", type(ex).__name__, str(ex)[:150])))
            continue
        # the operands of the FIRST operation are still the operators they were (the object the library returned from it may
        # hold them; whatever is done to that object afterwards, in place or not, is not done to them) - unless the operand is
        # itself the object that was updated in place
        for nm, obj, d0 in (("left", x1, d_x1), ("right", y1, d_y1)):
            if d0 is not None and obj is not r1 and obj is not r2 and not close(pc.dense_real(obj, nq), d0, 1e-12):
                out.append(("chain:operand-changed" + (":inplace" if inplace else ""), "%s: afterwards the %s operand of the first operation is %r - it no longer denotes the matrix it denoted" % (desc, nm, obj)))
        want = pc.dense_abstract(c2["res"], nq)
        try:
            dr = pc.dense_real(r2, nq)
        except Exception as ex:
            out.append(("chain:result", "%s: result %r cannot be interpreted: %s" % (desc, r2, ex)))
            continue
        if not close(dr, want, 1e-8) or not pc.canon_close(pc.canon_real(r2), pc.canon_abstract(c2["res"])):
            out.append(("chain:matrix" + (":inplace" if inplace else ""), "%s = %r does not denote the matrix of the specification's result %s" % (desc, r2, pc.show(c2["res"]))))
            continue
        # simplification and equality on what the library returned: simplify() yields a simplified operator with the same
        # matrix, and it compares equal to a freshly built operator with the same matrix
        if pc.kind_of(r2) == "sum":
            rs = r2.simplify()
            fresh = pc.operand_real(c2["res"], 1)
            eq_ok = bool(rs == fresh) and bool(fresh == rs)
            if not close(pc.dense_real(rs, nq), want, 1e-8):
                out.append(("chain:simplify:matrix", "%s: simplify() changed the denoted matrix" % desc))
            elif is_simplified(fresh) and not eq_ok:
                # the statement: equality between simplified operators coincides with equality of the denoted matrices
                if not is_simplified(rs):
                    out.append(("chain:simplify", "%s = %r: simplify() returns %r, which still has duplicate or ~0 terms and does not compare equal to the freshly built %r with the same matrix" % (desc, r2, rs, fresh)))
                else:
                    out.append(("chain:eq", "%s: simplified result %r and the freshly built %r denote the same matrix but do not compare equal" % (desc, rs, fresh)))
            elif not is_simplified(rs):
                ctx.spec_drift("simplify() keeps duplicate or ~0 terms, equality ignores them")
    return out


def run(ctx):
    quick = ctx.tier == "quick"
    ctx.bounds = {"NQ": 2, "pool": 16, "ops": OPS, "depth": "every single operation; second operation from 1/16 (quick) or 1/3 (thorough) of the first-level results (deterministic hash)", "pairs": "all 256 two-qubit pairs" + ("" if quick else " + all 4096 three-qubit pairs")}
    runs = [
        ("arith2", dict(NQ=2, Pool="<-PoolArith2", Ops=OPS, Depth=3, ExpandMod=16 if quick else 3, Emitting=True), ["DepthBound", "NoOverflow"]),
        ("pairs2", dict(NQ=2, Pool="<-PoolStrings", Ops='{"mul"}', Depth=2, ExpandMod=1, Emitting=True), ["DepthBound"]),
    ]
    if not quick:
        runs.append(("pairs3", dict(NQ=3, Pool="<-PoolStrings", Ops='{"mul"}', Depth=2, ExpandMod=1, Emitting=True), ["DepthBound"]))
        runs.append(("arith3", dict(NQ=3, Pool="<-PoolArith3", Ops=OPS, Depth=2, ExpandMod=1, Emitting=True), ["DepthBound", "NoOverflow"]))
    for name, consts, cons in runs:
        res = ctx.tlc("Pauli", constants=consts, invariants=INV, constraints=cons, action_constraints=["Emit"], coverage=False, timeout=3000)
        if len(res.emitted) < 200:
            raise TLCError("Pauli/%s exported only %d transitions" % (name, len(res.emitted)))
        if name.startswith("arith"):
            ctx.exhaustive = ctx.exhaustive and not quick
        for c in res.emitted:
            c["cfg"] = name
            c["nq"] = consts["NQ"]
            ctx.count(c, kind=name + ":" + c["op"])
            for key, msg in check_case(ctx, c, consts["NQ"]):
                ctx.violation(key, msg, c)
    # chains on one evolving object
    res = ctx.tlc("Pauli", constants=dict(NQ=2, Pool="<-PoolChain", Ops='{"add","sub","mul","div"}', Depth=3, ExpandMod=1, Emitting=True), invariants=INV, constraints=["DepthBound", "NoOverflow"], action_constraints=["Emit"], coverage=False, timeout=3000)
    first = {}
    allc = res.emitted
    import json as _json

    key = lambda v: _json.dumps(v, sort_keys=True)
    pool_keys = set()
    for c in allc:
        first.setdefault(key(c["res"]), []).append(c)
    chains = []
    _fc = {}

    def firsts(k_):
        """the distinct first operations that produce this value, in an order that does not depend on TLC's emission order:
        those whose LEFT operand is a sum first (the in-place flavours act on an object the sum owns), at most four"""
        if k_ not in _fc:
            d = {}
            for c in first.get(k_, []):
                d.setdefault(key([c["op"], c["x"], c["y"]]), c)
            _fc[k_] = [d[q] for q in sorted(d, key=lambda q: (d[q]["x"]["t"] != "sum", d[q]["y"]["t"] == "num", q))][:4]
        return _fc[k_]

    for c2 in allc:
        for side in ("x", "y"):
            for c1 in firsts(key(c2[side])):
                if c1 is not c2 and c1["res"]["t"] != "num":
                    chains.append({"k": "chain", "c1": c1, "c2": c2, "side": side, "nq": 2})
    if len(chains) < 500:
        raise TLCError("only %d chains assembled" % len(chains))
    # deterministic selection (TLC's emission order varies with the worker schedule): distinct chains sorted by content; every
    # chain whose evolving object is the LEFT operand (the in-place flavours apply) is kept, the others are sampled
    uniq = {}
    for ch in chains:
        uniq.setdefault(key([ch["c1"]["op"], ch["c1"]["x"], ch["c1"]["y"], ch["c2"]["op"], ch["c2"]["x"], ch["c2"]["y"], ch["side"]]), ch)
    chains = [uniq[k_] for k_ in sorted(uniq)]
    rng_ = __import__("random").Random(ctx.seed)
    left = [ch for ch in chains if ch["side"] == "x"]
    right = [ch for ch in chains if ch["side"] != "x"]
    lim = 3000 if quick else 60000
    if len(right) > lim:
        right = rng_.sample(right, lim)
    chains = left + right
    ctx.note("chains: %d with the evolving object on the left (all replayed), %d with it on the right" % (len(left), len(right)))
    for ch, fails in zip(chains, ctx.pmap(check_chain, chains, chunksize=64)):
        ctx.count({"k": "chain", "first": [ch["c1"]["op"], ch["c1"]["x"], ch["c1"]["y"]], "second": [ch["c2"]["op"], ch["side"]]}, kind="chain:%s-%s" % (ch["c1"]["op"], ch["c2"]["op"]))
        for key_, msg in fails:
            ctx.violation(key_, msg, ch)
    ctx.assumptions.append("equality clause is checked between operators (terms and sums), not against plain numbers")


def replay(ctx, case):
    if case.get("k") == "chain":
        ctx.count({"k": "chain"})
        for key, msg in check_chain(ctx, case):
            ctx.violation(key, msg, case)
        return
    ctx.count(case)
    for key, msg in check_case(ctx, case, case["nq"]):
        ctx.violation(key, msg, case)
