"""C03 - Pauli operator arithmetic is faithful to matrix arithmetic.

spec: Pauli.tla (mechanism: OPERATOR_MAP/COEFF_MAP table, simplify, square-and-multiply, equality rules;
meaning: dense matrices over the exact ring).  TLC: TableIsFaithful (ASSUME), ArithmeticIsFaithful /
EqIffSameMatrix / ... in every state of a register machine over a pool of seed operands (depth 1 fully,
depth 2 sampled in quick / fully in thorough), plus ALL pairs of Pauli strings on NQ qubits.
spec->code: every exported transition is replayed with the real Python operators; the result is compared
with the spec's result (canonical projection + type) and, independently, its dense matrix (numpy.kron) with
the matrix operation on the dense matrices of the real arguments; arguments are snapshotted (C20)."""
import numpy as np

from .. import pauli_common as pc
from ..bridge import close
from ..common import Snap
from ..tlc import TLCError

INV = ["ArithmeticIsFaithful", "ResultTypes", "ResultsAreSimplified", "EqIffSameMatrix"]
OPS = '{"add","sub","mul","div","eq","pow","simplify"}'


def check_case(ctx, c, nq):
    out = []
    op = c["op"]
    style = (len(c["x"]["ts"]) + len(c["y"]["ts"]) + c["k"]) % 3
    x = pc.operand_real(c["x"], style)
    y = pc.operand_real(c["y"], style + 1)
    desc = "%s %s %s" % (pc.show(c["x"]), op, pc.show(c["y"]) if op not in ("pow", "simplify") else c["k"])
    snap = Snap([x, y])
    try:
        if op == "add":
            r = x + y
        elif op == "sub":
            r = x - y
        elif op == "mul":
            r = x * y
        elif op == "div":
            r = x / y
        elif op == "pow":
            r = x ** c["k"]
        elif op == "simplify":
            r = x.simplify()
        elif op == "eq":
            r = x == y
            r2 = y == x
        else:
            raise KeyError(op)
    except Exception as ex:
        return [("raised:" + op, "%s raised %s: %s" % (desc, type(ex).__name__, str(ex)[:200]))]
    if snap.changed():
        out.append(("mutated:" + op, "%s modified argument(s) %s" % (desc, snap.changed())))
    dx, dy = pc.dense_real(x, nq), pc.dense_real(y, nq)
    if op == "eq":
        same = close(dx, dy, 1e-8)
        if bool(r) != bool(c["b"]) or bool(r2) != bool(c["b"]):
            out.append(("eq:spec", "%s: library says %s/%s, specification %s" % (desc, r, r2, c["b"])))
        simp = all(pc.kind_of(v) != "sum" or (len(set(frozenset(t._ops.items()) for t in v.terms)) == len(v.terms) and all(abs(t.coefficient) > 1e-8 for t in v.terms)) for v in (x, y))
        if simp and bool(r) != same:
            out.append(("eq:matrix", "%s: library says %s but the denoted matrices are %s" % (desc, r, "equal" if same else "different")))
        return out
    want = {"add": lambda: dx + dy, "sub": lambda: dx - dy, "mul": lambda: dx @ dy, "div": lambda: dx / complex(y), "pow": lambda: np.linalg.matrix_power(dx, c["k"]), "simplify": lambda: dx}[op]()
    try:
        dr = pc.dense_real(r, nq)
    except Exception as ex:
        return out + [("result:" + op, "%s: result %r cannot be interpreted: %s" % (desc, r, ex))]
    if not close(dr, want, 1e-8):
        out.append(("matrix:" + op, "%s: result %r does not denote the matrix %s of the arguments" % (desc, r, op)))
    if not pc.canon_close(pc.canon_real(r), pc.canon_abstract(c["res"])):
        out.append(("spec:" + op, "%s: result %r differs from the specification result %s" % (desc, r, pc.show(c["res"]))))
    if pc.kind_of(r) != c["res"]["t"]:
        ctx.spec_drift("%s returned a %s, the transcription a %s" % (op, pc.kind_of(r), c["res"]["t"]))
    if op == "simplify" or (pc.kind_of(r) == "sum" and op in ("add", "sub", "mul")):
        keys = [frozenset(t._ops.items()) for t in r.terms]
        if len(set(keys)) != len(keys) or any(abs(t.coefficient) <= 1e-8 for t in r.terms):
            if op == "simplify":
                out.append(("simplify:not-simplified", "%s: %r still has duplicate or zero terms" % (desc, r)))
    return out


def run(ctx):
    quick = ctx.tier == "quick"
    ctx.bounds = {"NQ": 2, "pool": 16, "ops": OPS, "depth": "every single operation; second operation from 1/40 (quick) or 1/3 (thorough) of the first-level results (deterministic hash)", "pairs": "all 256 two-qubit pairs" + ("" if quick else " + all 4096 three-qubit pairs")}
    runs = [
        ("arith2", dict(NQ=2, Pool="<-PoolArith2", Ops=OPS, Depth=3, ExpandMod=40 if quick else 3, Emitting=True), ["DepthBound", "NoOverflow"]),
        ("pairs2", dict(NQ=2, Pool="<-PoolStrings", Ops='{"mul"}', Depth=2, ExpandMod=1, Emitting=True), ["DepthBound"]),
    ]
    if not quick:
        runs.append(("pairs3", dict(NQ=3, Pool="<-PoolStrings", Ops='{"mul"}', Depth=2, ExpandMod=1, Emitting=True), ["DepthBound"]))
        runs.append(("arith3", dict(NQ=3, Pool="<-PoolArith3", Ops=OPS, Depth=2, ExpandMod=1, Emitting=True), ["DepthBound", "NoOverflow"]))
    for name, consts, cons in runs:
        res = ctx.tlc("Pauli", constants=consts, invariants=INV, constraints=cons, action_constraints=["Emit"], coverage=False, timeout=3000)
        if len(res.emitted) < 200:
            raise TLCError("Pauli/%s exported only %d transitions" % (name, len(res.emitted)))
        if name.startswith("arith"):
            ctx.exhaustive = ctx.exhaustive and not quick
        for c in res.emitted:
            c["cfg"] = name
            c["nq"] = consts["NQ"]
            ctx.count(c, kind=name + ":" + c["op"])
            for key, msg in check_case(ctx, c, consts["NQ"]):
                ctx.violation(key, msg, c)
    ctx.assumptions.append("equality clause is checked between operators (terms and sums), not against plain numbers")


def replay(ctx, case):
    ctx.count(case)
    for key, msg in check_case(ctx, case, case["nq"]):
        ctx.violation(key, msg, case)
