"""C13 - splitting, batching and recombining shots never loses or invents a shot.

spec: Shots.tla (integers only).  TLC checks the seven invariants on every request list inside the
bounds and exports every Expand / Combine / Batch transition; each is replayed through
expand_sample_sizes / combine_measurement_counts / combine_bitstrings / split_into_batches (exact
comparison), a subset through expand -> real SymbolicSimulator -> combine.  code->spec: recorded
results of scale_and_discretize and Measurements.get_measurements_representing_distribution are
validated by ShotsTrace.tla (membership in the allowed sets).
"""
import itertools
import json
import os
import random

import numpy as np

# violation keys of behaviour modelled beyond the statement of the property (reported, never an alarm)
BEYOND = ("sample:",)
INV = [
    "ChunksWithinBounds",
    "ChunksSumToRequest",
    "MultiplicitiesMatch",
    "ExpandRunCombineConserves",
    "BatchesCoverInOrder",
    "BatchSizeBounded",
    "BatchSamplesSuffice",
]
BOUNDS = {"quick": dict(MaxLen=3, MaxN=9, MaxMax=4), "thorough": dict(MaxLen=3, MaxN=12, MaxMax=6)}


def _circ(j):
    from orquestra.quantum.circuits import RZ, Circuit, X

    return Circuit([X(0)] + [RZ(0.1 * (j + 1))(0)])


from ..common import Snap, guarded


def check_case(ctx, c):
    """returns list of (key, message)"""
    from orquestra.quantum.circuits import (
        combine_bitstrings,
        combine_measurement_counts,
        expand_sample_sizes,
        split_into_batches,
    )

    out = []
    k = c["k"]
    ns, mx = list(c["ns"]), c["mx"]
    circuits = [_circ(j) for j in range(len(ns))]
    if k == "expand":
        ns_in = list(ns)
        new_c, new_n, mult = expand_sample_sizes(circuits, ns_in, mx)
        owners = [next(i + 1 for i, x in enumerate(circuits) if x is y) for y in new_c]
        if list(new_n) != c["chunks"]:
            out.append(("expand:chunks", "expand_sample_sizes(%s, max=%s) sample sizes %s, spec %s" % (ns, mx, list(new_n), c["chunks"])))
        if list(mult) != c["mult"]:
            out.append(("expand:mult", "multiplicities %s, spec %s for ns=%s max=%s" % (list(mult), c["mult"], ns, mx)))
        if owners != c["owners"]:
            out.append(("expand:owners", "expanded circuits belong to %s, spec %s for ns=%s max=%s" % (owners, c["owners"], ns, mx)))
        if ns_in != ns:
            out.append(("expand:mutated", "expand_sample_sizes modified its input list"))
        # the statement itself, directly on the implementation's output (independent of the transcription)
        for j, n in enumerate(ns):
            mine = [new_n[i] for i, o in enumerate(owners) if o == j + 1]
            if sum(mine) != n or any(x < 1 or x > mx for x in mine) or len(mine) != mult[j]:
                out.append(("expand:law", "circuit %d asked %d shots, copies %s (max %d), multiplicity %s" % (j, n, mine, mx, mult[j])))
    elif k == "combine":
        runs, mult = c["runs"], list(c["mult"])
        width = max(1, len(bin(len(runs) + 1)) - 2)
        # variant A: every copy's shots carry the copy's label; variant B adds a shared key so that merging must add
        countsA = [{format(i, "0%db" % width): n} for i, n in runs]
        countsB = [{format(i, "0%db" % width): n, "0" * width: 1} for i, n in runs]
        bits = [[format(i, "0%db" % width)] * n for i, n in runs]
        exp = c["comb"]
        snap = Snap([countsA, countsB, bits, mult])
        try:
            gotA = combine_measurement_counts(countsA, mult)
            gotB = combine_measurement_counts(countsB, mult)
            gotS = combine_bitstrings(bits, mult)
            # value semantics: the per-copy results are not consumed - combining the same results again gives the same totals
            againA = combine_measurement_counts(countsA, mult)
            againS = combine_bitstrings(bits, mult)
            # a backend may hand back ONE result object for identical copies (memoised): every copy still counts once
            shared = {"0" * width: 1}
            gotShared = combine_measurement_counts([shared] * len(runs), mult)
        except Exception as ex:
            return [("combine:raised", "combine raised %r for runs=%s mult=%s" % (ex, runs, mult))]
        if snap.changed():
            out.append(("combine:mutated", "combining modified its arguments (runs=%s mult=%s)" % (runs, mult)))
        # per-copy results of another mapping type (a backend returns collections.Counter objects): the same totals, twice
        import collections

        countsC = [collections.Counter(d_) for d_ in countsB]
        keepC = [dict(d_) for d_ in countsC]
        try:
            gotC1 = combine_measurement_counts(countsC, mult)
            gotC2 = combine_measurement_counts(countsC, mult)
            if [dict(x) for x in gotC1] != [dict(x) for x in gotB] or [dict(x) for x in gotC2] != [dict(x) for x in gotB] or [dict(d_) for d_ in countsC] != keepC:
                out.append(("combine:counter-inputs", "per-copy results given as Counter objects (runs=%s mult=%s): first combination %s, second %s, with dictionaries %s; the inputs afterwards %s" % (runs, mult, gotC1, gotC2, gotB, countsC)))
        except Exception as ex:
            out.append(("combine:counter-inputs:raised", "combining Counter results raised %r" % ex))
        if [dict(x) for x in againA] != [dict(x) for x in gotA] or [list(x) for x in againS] != [list(x) for x in gotS]:
            out.append(("combine:twice", "combining the same per-copy results a second time gave %s, first %s" % (againA, gotA)))
        if [dict(x) for x in gotShared] != [{"0" * width: m} for m in mult] or shared != {"0" * width: 1}:
            out.append(("combine:shared-object", "combining %d references to one result {'0..0': 1} with multiplicities %s gave %s" % (len(runs), mult, gotShared)))
        expA = [{format(i, "0%db" % width): n for i, n in grp} for grp in exp]
        expS = [sum(([format(i, "0%db" % width)] * n for i, n in grp), []) for grp in exp]
        if [dict(x) for x in gotA] != expA:
            out.append(("combine:counts", "combine_measurement_counts gave %s, spec %s" % (gotA, expA)))
        for j, grp in enumerate(exp):
            e = {format(i, "0%db" % width): n for i, n in grp}
            e["0" * width] = e.get("0" * width, 0) + len(grp)
            if j < len(gotB) and dict(gotB[j]) != e:
                out.append(("combine:counts-shared-key", "merging with a shared key gave %s, expected %s" % (gotB[j], e)))
        if [list(x) for x in gotS] != expS:
            out.append(("combine:bitstrings", "combine_bitstrings gave %s, spec %s" % (gotS, expS)))
        for j, n in enumerate(ns):
            if j < len(gotA) and sum(gotA[j].values()) != n:
                out.append(("combine:law", "circuit %d requested %d, combined total %d" % (j, n, sum(gotA[j].values()))))
        # wrong-length input must be refused, not regrouped silently
        if runs:
            for fn, arg in ((combine_measurement_counts, countsA[:-1]), (combine_bitstrings, bits[:-1])):
                try:
                    fn(arg, mult)
                    out.append(("combine:no-reject", "%s accepted %d results for multiplicities %s" % (fn.__name__, len(arg), mult)))
                except ValueError:
                    pass
    elif k == "batch":
        # a batch is a pair (sequence of circuits, samples): a result of another shape is a wrong result, named as such
        raw = list(split_into_batches(circuits, ns, mx))
        try:
            got = [(list(cs), n) for cs, n in raw]
            if any(not all(any(x is y for y in circuits) for x in cs) for cs, _ in got):
                raise TypeError("a batch holds something that is not one of the circuits")
        except (TypeError, ValueError) as ex:
            return out + [("batch:shape", "split_into_batches(ns=%s, max=%s) does not yield (circuits, samples) pairs: %s (%s)" % (ns, mx, [type(b_).__name__ if not isinstance(b_, tuple) else tuple(type(z_).__name__ for z_ in b_) for b_ in raw][:3], ex))]
        gotpos = [([next(i + 1 for i, x in enumerate(circuits) if x is y) for y in cs], n) for cs, n in got]
        exp = [(b["circs"], b["n"]) for b in c["batches"]]
        if gotpos != [(list(a), b) for a, b in exp]:
            out.append(("batch:shape", "split_into_batches(ns=%s, max=%s) gave %s, spec %s" % (ns, mx, gotpos, exp)))
        flat = [p for cs, _ in gotpos for p in cs]
        if flat != list(range(1, len(ns) + 1)) or any(len(cs) > mx or n < max(ns[p - 1] for p in cs) for cs, n in gotpos):
            out.append(("batch:law", "batches %s do not cover %d circuits in order within size %d with enough samples" % (gotpos, len(ns), mx)))
    elif k == "pipeline":
        from orquestra.quantum.runners.symbolic_simulator import SymbolicSimulator
        from orquestra.quantum.circuits import Circuit, X

        sim = SymbolicSimulator(seed=c.get("seed", 0))
        # circuit j prepares a distinct basis state on 3 qubits, so results cannot be confused between circuits
        circs = [Circuit([X(q) for q in range(3) if ((j + 1) >> (2 - q)) & 1], n_qubits=3) for j in range(len(ns))]
        new_c, new_n, mult = expand_sample_sizes(circs, ns, mx)
        ms = sim.run_batch_and_measure(new_c, new_n) if new_c else []
        comb = combine_measurement_counts([m.get_counts() for m in ms], mult)
        combS = combine_bitstrings([["".join(map(str, b)) for b in m.bitstrings] for m in ms], mult)
        for j, n in enumerate(ns):
            key = format(j + 1, "03b")
            if dict(comb[j]) != {key: n}:
                out.append(("pipeline:counts", "circuit %d (|%s>) asked %d shots, expand->run->combine gave %s" % (j, key, n, comb[j])))
            if combS[j] != [key] * n:
                out.append(("pipeline:bitstrings", "circuit %d asked %d shots, combined bitstrings %s" % (j, n, combS[j][:5])))
    else:
        raise KeyError(k)
    return out


def _record_traces(ctx, b, path):
    """code->spec: run the real rounding helpers on every small input and record what they returned"""
    from orquestra.quantum.distributions import MeasurementOutcomeDistribution
    from orquestra.quantum.measurements import Measurements
    from orquestra.quantum.utils import scale_and_discretize

    rng = random.Random(ctx.seed)
    np.random.seed(ctx.seed)
    events = []
    L, W, N = b["MaxLen"] + 1, b["MaxMax"], b["MaxN"]
    factors = [1.0, 0.1, 1.0 / 3.0, 7.3]
    for k in range(1, L + 1):
        for w in itertools.product(range(1, W + 1), repeat=k):
            for total in range(0, N + 1):
                f = factors[(sum(w) + total) % len(factors)]
                vals = [x * f for x in w]
                before = list(vals)
                try:
                    r = scale_and_discretize(vals, total)
                    r = [int(x) for x in r]
                except AssertionError:
                    r = [-1] * k
                events.append({"op": "scale", "w": list(w), "total": total, "r": r, "id": len(events) + 1})
                if vals != before:
                    ctx.violation("scale:mutated", "scale_and_discretize modified its input", events[-1])
    # the same helper at LARGE totals (shares of 10^4 .. 10^6: where "is it already an integer" tests with relative tolerances bite)
    for w, total in (([1, 1, 1], 1000000), ([1, 2, 4], 1000001), ([3, 3, 1], 700000), ([1, 1], 99999), ([2, 1, 1, 1], 500002), ([1] * 7, 1000003)):
        vals = [x * 0.1 for x in w]
        try:
            r = [int(x) for x in scale_and_discretize(vals, total)]
        except AssertionError:
            r = [-1] * len(w)
        events.append({"op": "scale", "w": list(w), "total": total, "r": r, "id": len(events) + 1})
    nscale = len(events)
    for k in range(1, 5):
        outcomes = [format(i, "02b") for i in range(k)]
        for w in itertools.product(range(0, 4), repeat=k):
            if sum(w) == 0:
                continue
            for n in range(1, N + 1):
              # where rounding the shares does not give n the helper corrects at RANDOM: those calls are repeated (fresh draws)
              deterministic = sum(int(round(x / sum(w) * n)) for x in w) == n
              for rep in range(1 if deterministic else (4 if ctx.tier == "quick" else 12)):
                d = MeasurementOutcomeDistribution({o: x / sum(w) for o, x in zip(outcomes, w)})
                before = dict(d.distribution_dict)
                try:
                    m = Measurements.get_measurements_representing_distribution(d, n)
                    cnt = m.get_counts()
                    r = [int(cnt.get(o, 0)) for o in outcomes]
                    extra = sum(cnt.values()) - sum(r)
                    if extra:  # shots on outcomes that are not even keys of the distribution
                        r = [-1] * k
                except Exception as ex:  # a failure to deliver is not an allowed result
                    r = [-2] * k
                events.append({"op": "represent", "dist": list(w), "n": n, "r": r, "id": len(events) + 1})
                if dict(d.distribution_dict) != before:
                    ctx.violation("represent:mutated", "get_measurements_representing_distribution modified the distribution", events[-1])
                if rep == 0 and r[0] >= 0:
                    # what was returned is the caller's: it is edited (a shot overwritten by a tuple outside the support, one appended)
                    # and the SAME request is made again - the second answer is judged like any other
                    try:
                        junk = tuple([1] * len(outcomes[0])) if k < 4 else (1, 1, 1)
                        m.bitstrings[0] = junk
                        m.bitstrings.append(junk)
                        cnt2 = Measurements.get_measurements_representing_distribution(d, n).get_counts()
                        r2 = [int(cnt2.get(o, 0)) for o in outcomes]
                        if sum(cnt2.values()) - sum(r2):
                            r2 = [-1] * k
                    except Exception:
                        r2 = [-2] * k
                    events.append({"op": "represent", "dist": list(w), "n": n, "r": r2, "id": len(events) + 1, "again": True})
    # wider supports, where rounding overshoots or undershoots the request by several shots (all the random correction branches);
    # every call is repeated with fresh draws
    for k, ws in ((6, [1] * 6), (7, [3, 1, 1, 1, 1, 1, 1]), (9, [1] * 9), (13, [1] * 13), (13, [2, 1] * 6 + [1])):
        outcomes = [format(i, "04b") for i in range(k)]
        for n in ((k + 1) // 2, k // 2 + 2, 3 * k // 2, 3 * k // 2 + 1):
            for rep in range(6 if ctx.tier == "quick" else 40):
                d = MeasurementOutcomeDistribution({o: x / sum(ws) for o, x in zip(outcomes, ws)})
                try:
                    cnt = Measurements.get_measurements_representing_distribution(d, n).get_counts()
                    r = [int(cnt.get(o, 0)) for o in outcomes]
                    if sum(cnt.values()) - sum(r):
                        r = [-1] * k
                except Exception:
                    r = [-2] * k
                events.append({"op": "represent", "dist": list(ws), "n": n, "r": r, "id": len(events) + 1})
    # beyond the statement: the plain sampler behind sample_from_wavefunction - n draws, every one on an outcome of positive probability
    from orquestra.quantum.utils import sample_from_probability_distribution

    for k in range(1, 5):
        outcomes = [format(i, "02b") for i in range(k)]
        for w in itertools.product(range(0, 3), repeat=k):
            if sum(w) == 0:
                continue
            for n in (0, 1, 2, 7):
                pd = {o: x / sum(w) for o, x in zip(outcomes, w)}
                try:
                    cnt = sample_from_probability_distribution(dict(pd), n)
                    r = [int(cnt.get(o, 0)) for o in outcomes]
                    if sum(cnt.values()) - sum(r):
                        r = [-1] * k
                except Exception:
                    r = [-2] * k
                events.append({"op": "sample", "dist": list(w), "n": n, "r": r, "id": len(events) + 1})
    # the binding must bite: two CANARY records - recorded results with one field corrupted - have to be rejected by the
    # trace specification on every run (one shot too many; a shot on an outcome of probability zero)
    sc = dict(next(e for e in events if e["op"] == "scale" and e["r"][0] >= 0), canary=True)
    sc["r"] = [sc["r"][0] + 1] + list(sc["r"][1:])
    rp = dict(next(e for e in events if e["op"] == "represent" and 0 in e["dist"] and e["r"][0] >= 0), canary=True)
    z = rp["dist"].index(0)
    nz = next(i for i, x in enumerate(rp["r"]) if x > 0)
    rp["r"] = list(rp["r"])
    rp["r"][z] += 1
    rp["r"][nz] -= 1
    for cn in (sc, rp):
        cn["id"] = len(events) + 1
        events.append(cn)
    with open(path, "w") as f:
        for e in events:
            f.write(json.dumps({k: v for k, v in e.items() if k != "canary"}) + "\n")
    return events, nscale


def run(ctx):
    b = BOUNDS[ctx.tier]
    ctx.bounds = dict(b)
    res = ctx.tlc(
        "Shots",
        constants=dict(b, Emitting=True),
        invariants=INV,
        action_constraints=["Emit"],
        require_actions=["Submit", "Expand", "RunAll", "Combine", "Batch"],
        timeout=900,
    )
    if len(res.emitted) < 100:
        from ..tlc import TLCError

        raise TLCError("Shots exported only %d transitions" % len(res.emitted))
    rng = random.Random(ctx.seed)
    for c in res.emitted:
        ctx.count(c, nontrivial=len(c["ns"]) > 0)
        for key, msg in guarded(check_case, ctx, c):
            ctx.violation(key, msg, c)
    pipe = [c for c in res.emitted if c["k"] == "expand" and c["ns"]]
    pipe.sort(key=lambda c: json.dumps([c["ns"], c["mx"]]))     # TLC's emission order varies
    rng.shuffle(pipe)
    for c in pipe[: 150 if ctx.tier == "quick" else 1500]:
        pc = {"k": "pipeline", "ns": c["ns"], "mx": c["mx"], "seed": ctx.seed}
        ctx.count(pc)
        for key, msg in guarded(check_case, ctx, pc):
            ctx.violation(key, msg, pc)
    # ---- the arithmetic core for ALL sizes up to 10^6, symbolically (Apalache); floor division must be refuted ---------
    from .. import apalache

    from ..tlc import TLCError

    # (the property is decided by the TLC runs and the conformance above; this symbolic pass widens the bounds of two design
    #  lemmas and is skipped with a note, not failed, where Apalache cannot run)
    try:
        a_ok = apalache.check("MC_ChunkArith_True", "ChunkOK", timeout=600)
        a_bad = apalache.check("MC_ChunkArith_False", "ChunkOK", timeout=600)
        s_ok = apalache.check("MC_ScaleArith_True", "ShortfallSmall", timeout=600)
        s_bad = apalache.check("MC_ScaleArith_False", "ShortfallSmall", timeout=600)
    except TLCError as ex:
        ctx.note("Apalache pass skipped: %s" % str(ex)[:300])
    else:
        ctx.tlc_runs += [a_ok, a_bad, s_ok, s_bad]
        if a_bad["outcome"] != "Error" or s_bad["outcome"] != "Error":
            raise TLCError("vacuity: Apalache does not refute the deliberately wrong variants (floor-division chunking / ceiling shares)")
        if a_ok["outcome"] != "NoError":
            ctx.violation("spec:ChunkArith", "Apalache refutes ChunkOK for the transcribed ceil-division chunking (n, m in 1..10^6)", {"k": "apalache"})
        if s_ok["outcome"] != "NoError":
            ctx.violation("spec:ScaleArith", "Apalache refutes the shortfall bound of floor shares (three weights, all values up to 10^5)", {"k": "apalache"})
        ctx.bounds["chunk arithmetic (Apalache, symbolic)"] = "all n, m in 1..10^6"
        ctx.bounds["floor-share shortfall (Apalache, symbolic)"] = "three weights and the total, all up to 10^5"
    # the real helper at a few large sizes inside that range (the small box is enumerated by TLC above)
    from orquestra.quantum.circuits._itertools import expand_sample_sizes, split_into_batches

    big = random.Random(ctx.seed + 17)
    for _ in range(200):
        n_, m_ = big.randint(1, 10**6), big.choice([1, 2, 7, 1000, 65536, 10**6, big.randint(1, 10**6)])
        _, chunks, mult = expand_sample_sizes(["c"], [n_], m_)
        bc = {"k": "expand-large", "n": n_, "max": m_}
        ctx.count(bc, kind="expand at large sizes")
        if sum(chunks) != n_ or any(c_ < 1 or c_ > m_ for c_ in chunks) or list(mult) != [len(chunks)] or len(chunks) != -(-n_ // m_):
            ctx.violation("expand:large", "expand_sample_sizes(n=%d, max=%d): %d chunks, sum %d, min %d, max %d" % (n_, m_, len(chunks), sum(chunks), min(chunks), max(chunks)), bc)
    # ---- code -> spec --------------------------------------------------------------------------
    path = os.path.join(ctx.tmp, "shots.ndjson")
    events, nscale = _record_traces(ctx, b, path)
    tr = ctx.tlc(
        "ShotsTrace",
        init="TInit",
        next_="TNext",
        constants=dict(b, Emitting=False),
        postcondition="Consumed",
        workers=1,
        env={"TRACE_FILE": path},
        coverage=False,
        timeout=900,
    )
    if "POSTCONDITION" in tr.violated or tr.distinct != len(events) + 1:
        from ..tlc import TLCError

        raise TLCError("ShotsTrace consumed %d of %d events" % (tr.distinct - 1, len(events)))
    ctx.traces_validated += len(events) - 2
    rejected_ids = {rj["reject"] for rj in tr.emitted}
    canaries = [i + 1 for i, e in enumerate(events) if e.get("canary")]
    if not set(canaries) <= rejected_ids:
        from ..tlc import TLCError

        raise TLCError("binding self-test failed: ShotsTrace accepted a corrupted record (canaries %s, rejected %s)" % (canaries, sorted(rejected_ids)[:10]))
    ctx.by_kind["canary records rejected by the trace specification"] = len(canaries)
    for rj in tr.emitted:
        e = events[rj["reject"] - 1]
        if e.get("canary"):
            continue
        ctx.count(e)
        if e["op"] == "sample":
            ctx.violation("sample:not-allowed", "sample_from_probability_distribution(weights %s, n=%s) returned per-outcome counts %s: not exactly n draws on the support" % (e["dist"], e["n"], e["r"]), e)
        elif e["op"] == "scale":
            ctx.violation("scale:not-allowed", "scale_and_discretize(weights∝%s, total=%s) returned %s: not integers summing to the total within one of each share" % (e["w"], e["total"], e["r"]), e)
        else:
            ctx.violation("represent:not-allowed", "get_measurements_representing_distribution(weights %s, N=%s) returned per-outcome shots %s: not exactly N shots on the support" % (e["dist"], e["n"], e["r"]), e)
    ctx.samples.append(events[nscale // 2])
    ctx.samples.append(events[-1])
    ctx.by_kind["trace:scale"] = nscale
    ctx.by_kind["trace:sample (beyond the property)"] = sum(1 for e in events if e["op"] == "sample")
    ctx.by_kind["trace:represent"] = len(events) - nscale - ctx.by_kind["trace:sample (beyond the property)"]
    ctx.assumptions.append("sampled outcomes are random: only shot totals, support membership and share bounds are compared (seeded numpy RNG)")


def replay(ctx, case):
    if case.get("op") in ("scale", "represent"):
        path = os.path.join(ctx.tmp, "one.ndjson")
        b = BOUNDS["quick"]
        # re-run the real helper on the recorded input
        from orquestra.quantum.distributions import MeasurementOutcomeDistribution
        from orquestra.quantum.measurements import Measurements
        from orquestra.quantum.utils import scale_and_discretize

        np.random.seed(ctx.seed)
        e = dict(case)
        if e["op"] == "scale":
            e["r"] = [int(x) for x in scale_and_discretize([float(x) for x in e["w"]], e["total"])]
        else:
            outs = [format(i, "02b") for i in range(len(e["dist"]))]
            d = MeasurementOutcomeDistribution({o: x / sum(e["dist"]) for o, x in zip(outs, e["dist"])})
            cnt = Measurements.get_measurements_representing_distribution(d, e["n"]).get_counts()
            e["r"] = [int(cnt.get(o, 0)) for o in outs]
            if sum(cnt.values()) != sum(e["r"]):
                e["r"] = [-1] * len(outs)
        e["id"] = 1
        with open(path, "w") as f:
            f.write(json.dumps(e) + "\n")
        tr = ctx.tlc("ShotsTrace", init="TInit", next_="TNext", constants=dict(b, Emitting=False), workers=1, env={"TRACE_FILE": path}, coverage=False)
        ctx.count(e)
        for rj in tr.emitted:
            ctx.violation(e["op"] + ":not-allowed", "result %s not allowed by Shots" % e["r"], e)
        return
    ctx.count(case)
    for key, msg in guarded(check_case, ctx, case):
        ctx.violation(key, msg, case)
