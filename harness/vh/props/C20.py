"""C20 - value-returning operations never modify their arguments.

spec: ValueSemantics.tla - a pool of live objects of six kinds whose values are free terms over seeds and
operations; every operation of the statement is an action (the same live object may be passed twice; results feed
later calls); TLC checks ArgumentsUnchanged, SameCallTwiceSameResult, ResultIsNew as action properties over every
well-typed call history to the depth bound.
spec->code: the tree of histories exported by TLC is walked depth-first on REAL objects that persist along each
history; every live object is deep-snapshotted (structural fingerprint: numpy arrays by value, dictionaries with key
order, sympy by srepr) before and after every public call; a repeated call must return an equal result."""
import json
import math
import os
import random
import warnings

import numpy as np

from ..common import fingerprint, library_raised, same_observable
from ..tlc import TLCError

PROPS = ["ArgumentsUnchanged", "SameCallTwiceSameResult", "ResultIsNew"]
SEED_NAMES = ["C1", "C2", "C3", "G1", "G2", "G3", "T1", "T2", "S1", "S2", "M1", "D1", "D2", "W1", "W2", "D3", "T3"]
# the symbol maps handed to every bind call are the caller's objects too: ONE dictionary per kind of call lives through the
# whole history, carries entries the receiver does not use, and is snapshotted like every live object
_MAPS = {}


def shared_maps(reset=False):
    import sympy

    if reset or not _MAPS:
        th = sympy.Symbol("theta")
        _MAPS.clear()
        _MAPS["gate"] = {th: 0.7, sympy.Symbol("unused_1"): 1.0, sympy.Symbol("b"): 0.25}
        _MAPS["wf"] = {th: 0.5, sympy.Symbol("unused_2"): 2.0}
    return _MAPS


def maps_fingerprint():
    return tuple((k, tuple(sorted((str(s_), float(v_)) for s_, v_ in m.items()))) for k, m in sorted(shared_maps().items()))


def make_seeds():
    import sympy
    from orquestra.quantum.circuits import CNOT, RX, U3, Circuit, CustomGateDefinition, H, MultiPhaseOperation, X
    from orquestra.quantum.distributions import MeasurementOutcomeDistribution
    from orquestra.quantum.measurements import Measurements
    from orquestra.quantum.operators import PauliSum, PauliTerm
    from orquestra.quantum.wavefunction import Wavefunction

    th = sympy.Symbol("theta")
    a = sympy.Symbol("a")
    cdef = CustomGateDefinition("VGate", sympy.Matrix([[sympy.cos(a), 0, 0, -sympy.sin(a)], [0, 1, 0, 0], [0, 0, 1, 0], [sympy.sin(a), 0, 0, sympy.cos(a)]]), (a,))
    C1 = Circuit([H(0), RX(th)(1), CNOT(0, 1)])
    C2 = Circuit([MultiPhaseOperation((0.1, 0.2, 0.3, 0.4)), X(0)], n_qubits=2)
    C3 = Circuit([X(0), U3(0.1, 0.2, 0.3).controlled(1)(1, 0), cdef(0.4)(0, 1)])
    G1, G2, G3 = RX(th), cdef(0.4), X
    T1 = PauliTerm("2.5*X0*Z1")
    T2 = PauliTerm({0: "X", 1: "Z"}, 0.5)
    S1 = PauliSum("1*X0*Z1 + 2*Y0 + 0.5*X0*Z1")
    S2 = PauliSum("1*Z0 + 1j*Z1*Z2")
    M1 = Measurements([(0, 1), (1, 1), (0, 1), (0, 0)])
    D1 = MeasurementOutcomeDistribution({(0, 0): 0.5, (1, 1): 0.5})
    D2 = MeasurementOutcomeDistribution({(0, 1): 0.25, (1, 0): 0.75})
    W1 = Wavefunction(np.array([0.5, 0.5j, -0.5, 0.5], dtype=complex))
    W2 = Wavefunction([th, 0.5, 0.5, sympy.Symbol("b")])
    with warnings.catch_warnings():
        warnings.simplefilter("ignore")
        D3 = MeasurementOutcomeDistribution({(0, 0): 2.0, (0, 1): 6.0, (1, 1): 0.0}, normalize=False)
    T3 = PauliTerm("1*Z0")
    return [C1, C2, C3, G1, G2, G3, T1, T2, S1, S2, M1, D1, D2, W1, W2, D3, T3]


_ISING = []


def ising():
    from orquestra.quantum.operators import PauliSum

    if not _ISING:
        _ISING.append(PauliSum("2*Z0 + 3*Z0*Z1 + 1*I0"))
    return _ISING[0]


def perform(op, a, tmp):
    """the public call behind one abstract operation"""
    import sympy
    from orquestra.quantum.distributions import compute_clipped_negative_log_likelihood, compute_jensen_shannon_divergence, compute_mmd, save_measurement_outcome_distribution
    from orquestra.quantum.measurements import Measurements, get_parities_from_measurements
    from orquestra.quantum.operators import convert_op_to_dict, get_sparse_operator, hermitian_conjugated
    from orquestra.quantum.runners.symbolic_simulator import SymbolicSimulator
    from orquestra.quantum.wavefunction import save_wavefunction

    th = sympy.Symbol("theta")
    np.random.seed(7)
    if op == "c_add":
        return a[0] + a[1]
    if op == "c_append":
        return a[0] + a[1](*range(a[1].num_qubits))
    if op == "c_bind":
        return a[0].bind(shared_maps()["gate"])
    if op in ("d_copy", "d_copy_n"):
        from orquestra.quantum.distributions import MeasurementOutcomeDistribution

        return MeasurementOutcomeDistribution(a[0].distribution_dict)
    if op == "c_inverse":
        return a[0].inverse()
    if op == "c_controlled":
        return a[0].controlled(1)
    if op == "c_to_dict":
        from orquestra.quantum.circuits import to_dict

        return to_dict(a[0])
    if op == "c_unitary":
        return a[0].to_unitary()
    if op == "c_free":
        return a[0].free_symbols
    if op == "g_dagger":
        return a[0].dagger
    if op == "g_controlled":
        return a[0].controlled(1)
    if op == "g_power":
        return a[0].power(2)
    if op == "g_bind":
        return a[0].bind(shared_maps()["gate"])
    if op == "g_replace":
        return a[0].replace_params(tuple(0.9 for _ in a[0].params))
    if op == "g_matrix":
        return a[0].matrix
    if op == "p_add":
        return a[0] + a[1]
    if op == "p_sub":
        return a[0] - a[1]
    if op == "p_mul":
        return a[0] * a[1]
    if op == "p_iadd":
        x = a[0]
        x += a[1]
        return x
    if op == "p_imul":
        x = a[0]
        x *= 2
        return x
    if op == "p_pow":
        return a[0] ** 2
    if op == "p_simplify":
        return a[0].simplify()
    if op == "p_conj":
        return hermitian_conjugated(a[0])
    if op == "p_scal":
        return 2 * a[0]
    if op == "p_to_dict":
        return convert_op_to_dict(a[0])
    if op == "p_sparse":
        return get_sparse_operator(a[0], 3)
    if op == "p_eq":
        return a[0] == a[1]
    if op == "m_counts":
        return a[0].get_counts()
    if op == "m_dist":
        return a[0].get_distribution()
    if op == "m_expect":
        return a[0].get_expectation_values(ising())
    if op == "m_parities":
        return get_parities_from_measurements(a[0].bitstrings, ising())
    if op == "m_repr":
        return Measurements.get_measurements_representing_distribution(a[0], 10)
    if op == "d_marginal":
        return a[0].subdistribution([1, 0][: a[0].get_number_of_subsystems()])
    if op == "d_mmd":
        return compute_mmd(a[0], a[1], {"sigma": 0.8})
    if op == "d_nll":
        return compute_clipped_negative_log_likelihood(a[0], a[1], {"epsilon": 1e-6})
    if op == "d_js":
        return compute_jensen_shannon_divergence(a[0], a[1], {"epsilon": 1e-6})
    if op == "d_save":
        p = os.path.join(tmp, "c20-dist-%d.json" % random.getrandbits(40))
        save_measurement_outcome_distribution(a[0], p)
        with open(p) as f:
            out = f.read()
        os.unlink(p)
        return out
    if op == "w_probs":
        return a[0].get_probabilities()
    if op == "w_outcome":
        return a[0].get_outcome_probs()
    if op == "w_bind":
        return a[0].bind(shared_maps()["wf"])
    if op == "w_sim":
        return SymbolicSimulator(seed=3).get_wavefunction(a[0], initial_state=a[1].amplitudes)
    if op == "w_save":
        p = os.path.join(tmp, "c20-wf-%d.json" % random.getrandbits(40))
        save_wavefunction(a[0], p)
        with open(p) as f:
            out = f.read()
        os.unlink(p)
        return out
    raise KeyError(op)


def describe(val):
    if not val["a"]:
        return val["o"]
    return "%s(%s)" % (val["o"], ", ".join(describe(x) for x in val["a"]))


class Tree:
    def __init__(self, edges):
        self.out = {}
        for e in edges:
            self.out.setdefault(json.dumps([e["pre"], e["prek"]], sort_keys=True), []).append(e)


def replay_subtree(ctx, case):
    import sys

    sys.setrecursionlimit(max(sys.getrecursionlimit(), 20000))
    return _replay_subtree(ctx, case)


def _replay_subtree(ctx, case):
    """case: {'path': [first-level edge], 'tree': Tree}: depth-first over all histories below the given first call"""
    tree = _TREE[0]
    fails = []
    counts = {"calls": 0, "raised": 0}
    pool = make_seeds()
    ising()
    shared_maps(reset=True)
    maps0 = maps_fingerprint()
    fps = [fingerprint(o) for o in pool] + [fingerprint(ising())]
    results = {}  # pool index -> fingerprint of the result object

    def call(e, hist):
        """perform edge e on the current pool; returns False if the branch must stop"""
        args = [pool[i - 1] for i in e["args"]]
        if any(x is None for x in args):
            return False  # an earlier call of this history legitimately raised: nothing to pass on
        counts["calls"] += 1
        desc = " ; ".join(hist + ["%s(%s)" % (e["op"], ", ".join(describe(e["pre"][i - 1]["v"]) for i in e["args"]))])
        raised = None
        try:
            with warnings.catch_warnings():
                warnings.simplefilter("ignore")
                res = perform(e["op"], args, ctx.tmp)
        except Exception as ex:
            raised = ex
            res = None
            counts["raised"] += 1
        after = [fingerprint(o) for o in pool] + [fingerprint(ising())]
        if maps_fingerprint() != maps0:
            fails.append(("mutated:map:" + e["op"], "history [%s]: the symbol map passed to the call (it carries entries the receiver does not use, and is reused by the caller) was modified: now %s" % (desc[-600:], {k_: {str(s_): v_ for s_, v_ in m_.items()} for k_, m_ in shared_maps().items()})))
            return False
        changed = [i for i, (x, y) in enumerate(zip(fps, after)) if not same_observable(x, y)]
        if e["op"] in ("p_iadd", "p_imul"):
            # the receiver of an augmented assignment is Python's business (and so is every other handle on that very object)
            for i in changed:
                if i < len(pool) and pool[i] is pool[e["args"][0] - 1]:
                    fps[i] = after[i]      # whatever it is now is what later calls of this walk start from
            changed = [i for i in changed if not (i < len(pool) and pool[i] is pool[e["args"][0] - 1])]
        if changed:
            names = [describe(e["pre"][i]["v"]) if i < len(e["pre"]) else "the operator passed to the query" for i in changed]
            role = ["argument %d" % (e["args"].index(i + 1) + 1) if (i + 1) in e["args"] else "a live object that was not even an argument" for i in changed]
            fails.append(("mutated:" + e["op"], "history [%s]%s: %s changed (%s)" % (desc[-600:], " (raised %s)" % type(raised).__name__ if raised else "", ", ".join(names), ", ".join(role))))
            return False
        if e["rep"]:
            first = results.get(("last", len(hist)))
            fp = fingerprint(res) if raised is None else ("raised", type(raised).__name__)
            if first is not None and not same_observable(first, fp) and e["op"] not in ("p_iadd", "p_imul"):     # an in-place receiver legitimately accumulates
                fails.append(("repeat:" + e["op"], "history [%s]: the same call on the same arguments gave a different result the second time" % desc))
                return False
        else:
            results[("last", len(hist) + 1)] = fingerprint(res) if raised is None else ("raised", type(raised).__name__)
        if e["res"]:
            pool.append(res if raised is None else None)
            fps.insert(len(pool) - 1, fingerprint(pool[-1]))
        return True

    def dfs(e, hist):
        n0 = len(pool)
        ok = call(e, hist)
        if ok:
            key = json.dumps([e["post"], e["postk"]], sort_keys=True)
            h2 = hist + ["%s(%s)%s" % (e["op"], ",".join(map(str, e["args"])), "'" if e["rep"] else "")]
            for e2 in tree.out.get(key, []):
                if fails:
                    break
                dfs(e2, h2)
        while len(pool) > n0:
            pool.pop()
            del fps[len(pool)]

    dfs(case["edge"], [])
    return [(k, m) for k, m in fails[:3]] + [("COUNT", counts)]


_TREE = [None]


def run(ctx):
    quick = ctx.tier == "quick"
    mc = 2 if quick else 3
    sel = "<-OpAll"
    ctx.bounds = {"MaxCalls": mc, "operations": 43, "seeds": len(SEED_NAMES), "note": "thorough: depth 3 over a reduced operation set"}
    consts = dict(MaxCalls=mc, OpSel=sel if quick else "{1, 3, 4, 9, 11, 15, 17, 19, 26, 27, 30, 31, 32, 33, 35, 38, 40}", Emitting=True)
    res = ctx.tlc("ValueSemantics", constants=consts, invariants=["WellTyped"], properties=PROPS, action_constraints=["Emit"], coverage=False, timeout=3000)
    edges = res.emitted
    if not quick:
        res2 = ctx.tlc("ValueSemantics", constants=dict(MaxCalls=2, OpSel=sel, Emitting=True), invariants=["WellTyped"], properties=PROPS, action_constraints=["Emit"], coverage=False, timeout=3000)
        seen = {json.dumps([e["pre"], e["prek"], e["op"], e["args"], e["rep"]], sort_keys=True) for e in edges}
        edges = edges + [e for e in res2.emitted if json.dumps([e["pre"], e["prek"], e["op"], e["args"], e["rep"]], sort_keys=True) not in seen]
    if len(edges) < 5000:
        raise TLCError("ValueSemantics exported only %d calls" % len(edges))
    tree = Tree(edges)
    _TREE[0] = tree
    init = [{"k": k, "v": {"o": n, "a": []}} for k, n in zip(["circ"] * 3 + ["gate"] * 3 + ["pauli"] * 4 + ["meas"] + ["dist"] * 2 + ["wf"] * 2 + ["udist"] + ["pauli"], SEED_NAMES)]
    first = tree.out.get(json.dumps([init, {"n": 0, "ev": {"op": "none", "args": [], "res": 0, "rep": False}}], sort_keys=True), [])
    if len(first) < 50:
        raise TLCError("only %d first-level calls found in the exported graph" % len(first))
    cases = [{"edge": e} for e in first]
    ops_seen = {e["op"] for e in edges}
    total_calls = total_raised = 0
    for c, fails in zip(cases, ctx.pmap(replay_subtree, cases, chunksize=1)):
        e = c["edge"]
        for key, msg in fails:
            if key == "COUNT":
                total_calls += msg["calls"]
                total_raised += msg["raised"]
                continue
            ctx.violation(key, msg, {"k": "subtree", "edge": e})
        ctx.count({"k": "history-subtree", "first": e["op"], "args": e["args"]}, kind="subtrees by first call")
    ctx.evaluations += total_calls
    ctx.by_kind["public calls replayed with snapshots"] = total_calls
    ctx.note("%d public calls replayed on persistent real objects (%d of them raised without modifying anything - operation not applicable to that object); %d distinct operations" % (total_calls, total_raised, len(ops_seen)))
    ctx.assumptions.append("lazily cached private attributes that are not observable (PauliTerm._circuit etc.) are ignored by the fingerprint; sampling operations are re-seeded before every call")


def replay(ctx, case):
    res = ctx.tlc("ValueSemantics", constants=dict(MaxCalls=2, OpSel="<-OpAll", Emitting=True), invariants=["WellTyped"], properties=PROPS, action_constraints=["Emit"], coverage=False, timeout=3000)
    _TREE[0] = Tree(res.emitted)
    ctx.count({"k": "history-subtree"})
    for key, msg in replay_subtree(ctx, {"edge": case["edge"]}):
        if key != "COUNT":
            ctx.violation(key, msg, case)
