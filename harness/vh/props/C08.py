"""C08 - circuit-level constructions: inverse, controlled, gate layers, apply-to-qubits, ancilla registers.

spec: CircuitOps.tla (extends Modifiers: gate trees with the library's re-association rules).  TLC, as action
properties on every transition: InverseIsAdjoint (+ appended inverse = identity on the whole register),
DoubleInverseSameAction, ControlledIsProjectorSum (meaning defined by index bits, every control position 0..n),
AncillaWidens, LayerShape, ApplyToQubitsShape (the pairing of rows with qubits is nondeterministic in the
specification - any iteration order of the de-duplicated collection), UIsProduct.
spec->code: every exported transition is replayed on a real Circuit built from the pre-state: width and unitary
of the result against the specification's exact matrix, structure where the statement speaks of structure
(layers / apply-to-qubits: the real result must be ONE OF the successors the specification allows), the argument
circuit unchanged.  The same shapes are re-run with the parametric gates moved off the angle grid, the laws then
being judged on the implementation's own matrices (numeric)."""
import json
import math
import random
import warnings

import numpy as np

from .. import circ_common as cc
from ..bridge import close, mat
from ..common import Snap
from ..tlc import TLCError

INV = ["UIsProduct", "DoubleInverseSameAction", "ONoOverflow"]
PROPS = ["InverseIsAdjoint", "ControlledIsProjectorSum", "AncillaWidens", "LayerShape", "ApplyToQubitsShape"]
BASE_CONST = dict(MaxDepth=0, MaxQubits=0, MaxNonRing=0, Bases="{}", Emitting=False)


def expo(e):
    return e[0] if e[1] == 1 else e[0] / e[1]


def angle(k, shift):
    return k * math.pi / 2 + shift


def gate_of(tree, row, cms, shift=0.0, via_replace=False):
    """the specification tree built with the library's constructors"""
    from orquestra.quantum.circuits import builtin_gate_by_name
    from orquestra.quantum.circuits._gates import ControlledGate, Dagger, Exponential, Power

    if tree["k"] == "base":
        if tree["custom"] and tree["np"] == 0:
            return cc.custom_def(tree["name"], cms[tree["name"]])()
        if tree["custom"]:
            # a parametric custom gate is always built at the all-zero point (where it is the identity, hence self-adjoint)
            # and re-parametrised: the way an ansatz is initialised and then updated
            from .C07 import param_custom_def

            kk = row if row else tree["kk"]
            return param_custom_def()(*[0.0] * tree["np"]).replace_params(tuple(angle(kk[j], shift * (j + 1)) for j in range(tree["np"])))
        g = builtin_gate_by_name(tree["name"])
        if tree["np"] > 0:
            kk = row if row else tree["kk"]
            ps = [angle(kk[j], shift * (j + 1)) for j in range(tree["np"])]
            g = g(*[0.0] * tree["np"]).replace_params(tuple(ps)) if via_replace else g(*ps)
        return g
    s = gate_of(tree["a"], row, cms, shift, via_replace)
    if tree["k"] == "ctrl":
        return ControlledGate(s, tree["n"])
    if tree["k"] == "dag":
        return Dagger(s)
    if tree["k"] == "exp":
        return Exponential(s)
    return Power(s, expo(tree["e"]))


def circuit_of(steps, n, cms, shift=0.0, via_replace=False):
    from orquestra.quantum.circuits import Circuit

    return Circuit([gate_of(s["tree"], s["row"], cms, shift, via_replace)(*s["qs"]) for s in steps], n_qubits=n)


def proj_gate(g):
    from orquestra.quantum.circuits._gates import ControlledGate, Dagger, Exponential, Power

    if isinstance(g, ControlledGate):
        return ["ctrl", g.num_control_qubits, proj_gate(g.wrapped_gate)]
    if isinstance(g, Dagger):
        return ["dag", proj_gate(g.wrapped_gate)]
    if isinstance(g, Power):
        return ["pow", float(g.exponent), proj_gate(g.wrapped_gate)]
    if isinstance(g, Exponential):
        return ["exp", proj_gate(g.wrapped_gate)]
    return ["base", g.name, [round(float(p), 9) for p in g.params]]


def proj_tree(tree, row, shift=0.0):
    if tree["k"] == "base":
        kk = row if row else tree["kk"]
        return ["base", tree["name"], [round(angle(kk[j], shift * (j + 1)), 9) for j in range(tree["np"])]]
    s = proj_tree(tree["a"], row, shift)
    if tree["k"] == "ctrl":
        return ["ctrl", tree["n"], s]
    if tree["k"] == "pow":
        return ["pow", float(expo(tree["e"])), s]
    return [tree["k"], s]


def proj_circuit(c):
    return [[proj_gate(op.gate), list(op.qubit_indices)] for op in c.operations]


def proj_steps(steps, shift=0.0):
    return [[proj_tree(s["tree"], s["row"], shift), list(s["qs"])] for s in steps]


def tree_str(t, row):
    if t["k"] == "base":
        kk = row if row else t["kk"]
        return t["name"] + ("(%s)" % ",".join("%d*pi/2" % x for x in kk[: t["np"]]) if t["np"] else "")
    s = tree_str(t["a"], row)
    return {"ctrl": "%s.controlled(%d)" % (s, t.get("n", 0)), "dag": s + ".dagger", "exp": s + ".exp", "pow": "%s.power(%s)" % (s, "/".join(map(str, t["e"])) if t["e"][1] != 1 else t["e"][0])}[t["k"]]


def steps_str(steps, n):
    return "Circuit([%s], n_qubits=%d)" % (", ".join("%s%s" % (tree_str(s["tree"], s["row"]), tuple(s["qs"])) for s in steps), n)


def unitary(c):
    return cc.to_np(c.to_unitary())


def pad(U, n_from, n_to):
    return U if n_to == n_from else np.kron(U, np.eye(2 ** (n_to - n_from)))


def ctrl_meaning(U, k, w):
    """|0><0|_k (x) I + |1><1|_k (x) U on w qubits (U on the other w-1 qubits in their order), by index bits"""
    out = np.zeros((2**w, 2**w), dtype=complex)

    def bit(i):
        return (i >> (w - 1 - k)) & 1

    def rem(i):
        hi = i >> (w - k)
        lo = i & ((1 << (w - 1 - k)) - 1)
        return (hi << (w - 1 - k)) | lo

    for r in range(2**w):
        for c in range(2**w):
            if bit(r) != bit(c):
                continue
            if bit(r) == 0:
                out[r, c] = 1.0 if r == c else 0.0
            else:
                out[r, c] = U[rem(r), rem(c)]
    return out


FACTORY = {1: "X", 5: "RX", 7: "U3"}
NP = {1: 0, 5: 1, 7: 3}


def rows_for(g, m):
    """the parameter rows of the specification (RowOf): row i has np entries, angle = entry * pi/2"""
    if NP[g] == 0:
        return None
    out = []
    for i in range(1, m + 1):
        out.append([((i % 4) if j == 1 else ((j * i + 1) % 4)) * math.pi / 2 for j in range(1, NP[g] + 1)])
    return out


def do_call(c, circ, shift=0.0, numpy_rows=False):
    from orquestra.quantum.circuits import add_ancilla_register, apply_gate_to_qubits, builtin_gate_by_name, create_layer_of_gates

    op, a = c["op"], c["a"]
    if op == "inverse":
        return circ.inverse()
    if op == "controlled":
        return circ.controlled(a[0])
    if op == "ancilla":
        return add_ancilla_register(circ, a[0])
    if op == "apply":
        coll, g = a[0], a[1][0]
        rows = rows_for(g, len(set(coll)))
        if rows is not None and numpy_rows:
            rows = np.array(rows)
        with warnings.catch_warnings():
            warnings.simplefilter("ignore")
            return apply_gate_to_qubits(circ, list(coll), builtin_gate_by_name(FACTORY[g]), rows)
    if op == "layer":
        m, g = a
        rows = rows_for(g, m)
        if rows is not None and numpy_rows:
            rows = np.array(rows).reshape(m, NP[g])
        return create_layer_of_gates(m, builtin_gate_by_name(FACTORY[g]), rows)
    raise ValueError(op)


def call_str(c):
    op, a = c["op"], c["a"]
    if op == "inverse":
        return ".inverse()"
    if op == "controlled":
        return ".controlled(%d)" % a[0]
    if op == "ancilla":
        return " -> add_ancilla_register(., %d)" % a[0]
    if op == "apply":
        return " -> apply_gate_to_qubits(., %s, %s, rows)" % (a[0], FACTORY[a[1][0]])
    if op == "layer":
        return " -> create_layer_of_gates(%d, %s, rows)" % (a[0], FACTORY[a[1]])
    return " + operation"


def check_case(ctx, c):
    """c: one exported transition (for 'apply': plus c['allowed'] = list of allowed post programs)"""
    out = []
    op = c["op"]
    cms = c["custom"]
    desc = steps_str(c["pre"], c["pren"]) + call_str(c)
    if op == "append":
        circ = circuit_of(c["post"], c["n"], cms)
        if circ.n_qubits != c["n"] or not close(unitary(circ), mat(c["U"]), 1e-8):
            out.append(("append:unitary", "%s: unitary of %s differs from the specification" % (desc, steps_str(c["post"], c["n"]))))
        return out
    pre = circuit_of(c["pre"], c["pren"], cms) if op != "layer" else None
    snap = Snap([pre]) if pre is not None else None
    try:
        res = do_call(c, pre)
    except Exception as ex:
        return [(op + ":raises", "%s raised %s: %s" % (desc, type(ex).__name__, str(ex)[:200]))]
    if snap is not None and snap.changed() and not (res is pre):
        out.append((op + ":mutated", "%s modified its argument" % desc))
    S = mat(c["U"])
    n_spec = c["n"]
    try:
        R = unitary(res)
    except Exception as ex:
        return out + [(op + ":unitary-raises", "%s: to_unitary of the result raised %s: %s" % (desc, type(ex).__name__, str(ex)[:200]))]
    n_real = res.n_qubits
    structure = proj_circuit(res)
    if op == "inverse":
        Upre = unitary(pre)
        if n_real != c["pren"]:
            out.append(("inverse:width", "%s acts on %d qubits, the circuit on %d" % (desc, n_real, c["pren"])))
        elif not close(R, Upre.conj().T, 1e-8):
            if c["frac"] and structure == proj_steps(c["post"]) and close(R, S, 1e-8):
                out.append(("KNOWN:K1b", "%s: the inverse is not the conjugate transpose (dagger of a fractional power of an involution)" % desc))
            else:
                out.append(("inverse:adjoint", "%s: matrix is not the conjugate transpose of the circuit's" % desc))
        else:
            both = unitary(pre + res)
            if not close(both, np.eye(both.shape[0]), 1e-8) and not c["frac"]:
                out.append(("inverse:identity", "%s: circuit followed by its inverse is not the identity on the whole register" % desc))
            back = res.inverse()
            if back.n_qubits != c["pren"] or not close(unitary(back), Upre, 1e-8):
                out.append(("inverse:double", "%s.inverse() does not act as the original" % desc))
            if not c["frac"] and not close(R, S, 1e-8):
                out.append(("inverse:spec", "%s: matrix differs from the specification's exact matrix" % desc))
        # the same circuit with every parametric gate built at the all-zero point and re-parametrised afterwards
        if not c["frac"] and any('"np": 0' not in json.dumps(s_["tree"]) for s_ in c["pre"]):
            try:
                pre_b = circuit_of(c["pre"], c["pren"], cms, via_replace=True)
                inv_b = pre_b.inverse()
                if not close(unitary(inv_b), unitary(pre_b).conj().T, 1e-8) or not close(unitary(pre_b + inv_b), np.eye(2 ** c["pren"]), 1e-8):
                    out.append(("inverse:reparametrised", "%s with its parametric gates built at angle 0 and re-parametrised (replace_params): the inverse is not the conjugate transpose / circuit + inverse is not the identity" % desc))
            except Exception as ex:
                out.append(("inverse:reparametrised-raises", "%s with re-parametrised gates: %s: %s" % (desc, type(ex).__name__, str(ex)[:150])))
    elif op == "controlled":
        k = c["a"][0]
        w = max(n_real, n_spec, c["pren"] + 1)
        want = ctrl_meaning(pad(unitary(pre), c["pren"], w - 1), k, w)
        if n_real > w or not close(pad(R, n_real, w), want, 1e-8):
            out.append(("controlled:meaning", "%s: not identity-when-control-0 / original-when-control-1 with the original qubits >= %d shifted up" % (desc, k)))
        elif not close(pad(R, n_real, w), pad(S, n_spec, w), 1e-8):
            out.append(("controlled:spec", "%s: differs from the specification's exact matrix" % desc))
    elif op == "ancilla":
        m = c["a"][0]
        if n_real != c["pren"] + m:
            out.append(("ancilla:width", "%s has %d qubits, expected %d + %d" % (desc, n_real, c["pren"], m)))
        elif not close(R, pad(unitary(pre), c["pren"], n_real), 1e-8) or not close(R, S, 1e-8):
            out.append(("ancilla:action", "%s changes the action on the original qubits" % desc))
        if structure[: len(c["pre"])] != proj_steps(c["pre"]):
            out.append(("ancilla:prefix", "%s does not keep the existing operations in place" % desc))
    elif op in ("apply", "layer"):
        allowed = c.get("allowed") or [c["post"]]
        allowed_p = [proj_steps(p) for p in allowed]
        if structure not in allowed_p:
            out.append((op + ":shape", "%s built %s; the specification allows %s" % (desc, structure, allowed_p[:3])))
        elif n_real != n_spec:
            out.append((op + ":width", "%s has %d qubits, specification %d" % (desc, n_real, n_spec)))
        else:
            i = allowed_p.index(structure)
            Si = mat(c["allowedU"][i]) if c.get("allowedU") else S
            if not close(R, Si, 1e-8):
                out.append((op + ":unitary", "%s: unitary differs from the specification" % desc))
        # the same call with numpy parameter rows: same structure (parameters compared as floats)
        if c["a"] and NP.get(c["a"][1][0] if op == "apply" else c["a"][1], 0) > 0:
            try:
                pre2 = circuit_of(c["pre"], c["pren"], cms) if op != "layer" else None
                res2 = do_call(c, pre2, numpy_rows=True)
                if proj_circuit(res2) not in allowed_p:
                    out.append((op + ":shape-numpy", "%s with numpy rows built %s" % (desc, proj_circuit(res2))))
            except Exception as ex:
                out.append((op + ":numpy-raises", "%s with numpy parameter rows raised %s: %s" % (desc, type(ex).__name__, str(ex)[:200])))
    # structure as transcribed (drift only where the statement does not speak of structure)
    if op in ("inverse", "controlled", "ancilla") and structure != proj_steps(c["post"]):
        ctx.spec_drift("%s: operations %s, transcription %s" % (desc, json.dumps(structure)[:300], json.dumps(proj_steps(c["post"]))[:300]))
    return out


def check_offgrid(ctx, c):
    """the same shape with every parametric gate moved off the grid; laws judged on the implementation's matrices"""
    out = []
    op = c["op"]
    if op not in ("inverse", "controlled", "ancilla"):
        return out
    if c["frac"] or any("pow" in json.dumps(s["tree"]) and '"e": [1, 2]' in json.dumps(s["tree"]) for s in c["pre"]):
        return out
    shift = 0.37
    desc = steps_str(c["pre"], c["pren"]) + call_str(c) + " [angles + %.2f*j]" % shift
    pre = circuit_of(c["pre"], c["pren"], c["custom"], shift)
    res = do_call(c, pre)
    R, Upre = unitary(res), unitary(pre)
    if op == "inverse":
        if res.n_qubits != c["pren"] or not close(R, Upre.conj().T, 1e-8):
            out.append(("inverse:adjoint:offgrid", "%s: not the conjugate transpose" % desc))
    elif op == "controlled":
        w = max(res.n_qubits, c["pren"] + 1)
        if not close(pad(R, res.n_qubits, w), ctrl_meaning(pad(Upre, c["pren"], w - 1), c["a"][0], w), 1e-8):
            out.append(("controlled:meaning:offgrid", "%s: not the projector sum" % desc))
    elif op == "ancilla":
        if res.n_qubits != c["pren"] + c["a"][0] or not close(R, pad(Upre, c["pren"], res.n_qubits), 1e-8):
            out.append(("ancilla:offgrid", "%s: width or action wrong" % desc))
    return out


def check_extras(ctx):
    """wrappers outside the exact ring (exp, fractional powers of non-involutions): inverse = conjugate transpose,
    controlled = projector sum, judged on the implementation's own matrices"""
    from orquestra.quantum.circuits import CNOT, RX, RZ, Circuit, S, T, X, Z

    rng = random.Random(ctx.seed)
    gates = [("X.exp", X.exp, 1), ("S.power(0.5)", S.power(0.5), 1), ("RX(0.3).power(0.5)", RX(0.3).power(0.5), 1), ("RZ(1.1).exp", RZ(1.1).exp, 1),
             ("T.dagger.power(1/3)", T.dagger.power(1 / 3), 1), ("S.exp.controlled(1)", S.exp.controlled(1), 2), ("Z.exp.dagger", Z.exp.dagger, 1)]
    n_cases = 0
    for name, g, nq in gates:
        for qs in ([0] if nq == 1 else [0, 2], [2] if nq == 1 else [1, 0]):
            c = Circuit([CNOT(0, 1), g(*qs), RX(0.7)(1)], n_qubits=3)
            desc = "Circuit([CNOT(0,1), %s%s, RX(0.7)(1)], n_qubits=3)" % (name, tuple(qs))
            U = unitary(c)
            n_cases += 1
            ctx.count({"k": "extra", "circuit": desc}, kind="non-ring wrappers (numeric)")
            inv = c.inverse()
            if inv.n_qubits != 3 or not close(unitary(inv), U.conj().T, 1e-7):
                ctx.violation("inverse:adjoint:nonring", "%s.inverse(): matrix is not the conjugate transpose" % desc, {"k": "extra", "circuit": desc})
            for k in range(4):
                cc_ = c.controlled(k)
                if not close(pad(unitary(cc_), cc_.n_qubits, 4), ctrl_meaning(U, k, 4), 1e-7):
                    ctx.violation("controlled:meaning:nonring", "%s.controlled(%d) is not the projector sum" % (desc, k), {"k": "extra", "circuit": desc, "ctrl": k})
    return n_cases


def group_apply(cases):
    """'apply' transitions that differ only in the specification's nondeterministic choice form ONE case"""
    out, groups = [], {}
    for c in cases:
        if c["op"] != "apply":
            out.append(c)
            continue
        key = json.dumps([c["pre"], c["pren"], c["a"]], sort_keys=True)
        if key not in groups:
            g = dict(c)
            g["allowed"], g["allowedU"] = [], []
            groups[key] = g
            out.append(g)
        groups[key]["allowed"].append(c["post"])
        groups[key]["allowedU"].append(c["U"])
    return out


def run(ctx):
    quick = ctx.tier == "quick"
    if quick:
        runs = [("programs<=2,one construction", dict(MaxQ=2, MaxLen=2, MaxCons=1, MaxW=3, Pool="<-PoolQuick", Widths="{1, 3}"))]
    else:
        runs = [("programs<=2,one construction,all gates", dict(MaxQ=3, MaxLen=2, MaxCons=1, MaxW=4, Pool="<-PoolAll", Widths="{1, 3}")),
                ("programs<=1,three constructions", dict(MaxQ=2, MaxLen=1, MaxCons=3, MaxW=4, Pool="<-PoolQuick", Widths="{1, 2}"))]
    ctx.bounds = {name: consts for name, consts in runs}
    cases = []
    for name, consts in runs:
        k = dict(BASE_CONST)
        k.update(consts)
        res = ctx.tlc("CircuitOps", init="OInit", next_="ONext", constants=k, invariants=INV, properties=PROPS, action_constraints=["OEmit"], view="OView", coverage=False, timeout=7000)
        for e in res.emitted:
            e["cfg"] = name
        cases += res.emitted
    # the known finding K1 must be visible to TLC on the design: with the K1 gate in the pool, "inverse = adjoint" without the exception is refuted
    res = ctx.tlc("CircuitOps", init="OInit", next_="ONext", constants=dict(BASE_CONST, MaxQ=1, MaxLen=1, MaxCons=1, MaxW=2, Pool="{14}", Widths="{1}"),
                  properties=["K1Refutable"], view="OView", coverage=False, timeout=600, allow_violation=True)
    if "K1Refutable" not in res.violated:
        ctx.note("TLC no longer refutes 'inverse = adjoint' for X.power(1/2): the transcription of Power.dagger may be out of date")
    if len(cases) < 1000:
        raise TLCError("CircuitOps exported only %d transitions" % len(cases))
    seen_ops = {c["op"] for c in cases}
    for need in ("inverse", "controlled", "ancilla", "apply", "layer", "append"):
        if need not in seen_ops:
            raise TLCError("vacuity: no %s transition exported" % need)
    cases = group_apply(cases)
    for c, fails in zip(cases, ctx.pmap(check_case, cases, chunksize=8)):
        ctx.count({"k": c["op"], "circuit": steps_str(c["pre"], c["pren"]), "a": c["a"]}, kind=c["op"])
        for key, msg in fails:
            if key.startswith("KNOWN:"):
                ctx.known(key[6:], msg)
            else:
                ctx.violation(key, msg, c)
    off = [c for i, c in enumerate(cases) if c["op"] in ("inverse", "controlled", "ancilla") and i % (5 if quick else 2) == 0]
    for c, fails in zip(off, ctx.pmap(check_offgrid, off, chunksize=8)):
        ctx.count({"k": c["op"] + "-offgrid", "circuit": steps_str(c["pre"], c["pren"]), "a": c["a"]}, kind=c["op"] + " (off-grid angles, numeric)")
        for key, msg in fails:
            ctx.violation(key, msg, dict(c, offgrid=True))
    check_extras(ctx)
    ctx.judged_numerically += ["off-grid angles and wrappers outside the ring (exp, fractional powers): inverse = conjugate transpose, controlled = projector sum, ancilla = U (x) I evaluated on the implementation's own matrices"]
    ctx.assumptions.append("controlled(k): the statement does not fix the width of the result; both sides are padded to a common width")
    ctx.assumptions.append("exp-wrapped gates are not unitary: for them only 'the inverse's matrix is the conjugate transpose' is required")


def replay(ctx, case):
    if case.get("k") == "extra":
        check_extras(ctx)
        return
    if case.get("k") == "tlc":
        raise TLCError("a TLC counterexample is replayed by re-running the check")
    ctx.count({"k": case["op"]})
    fn = check_offgrid if case.get("offgrid") else check_case
    for key, msg in fn(ctx, case):
        if key.startswith("KNOWN:"):
            ctx.known(key[6:], msg)
        else:
            ctx.violation(key, msg, case)
