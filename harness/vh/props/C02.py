"""C02 - every built-in gate is a valid unitary that keeps its textbook identities.

spec: Gates.tla (27 gates as matrices of Laurent polynomials; identities hold for ALL real parameters).
conformance (spec->code): for every row TLC exports, the real gate's declared arity / flag / matrix are
compared with the row: symbolically (coefficient extraction after theta -> -2i log z) where sympy allows,
and numerically on the angle grid and at seeded random real angles."""
import cmath
import itertools
import math
import random

import numpy as np

from ..bridge import close, ring
from ..tlc import TLCError

INV = ["AllRowsVisited", "PolyOfIsTable", "Dimension", "UnitaryForAllParams", "HermitianFlagSound", "HermitianFlagExact", "GroupLaw", "ParamsOnlyWhereDeclared", "FixedRelations", "EmitInv"]


def poly_eval(poly, params):
    z = [cmath.exp(0.5j * p) for p in params] + [1.0] * (3 - len(params))
    n = len(poly)
    out = np.zeros((n, n), dtype=complex)
    for r in range(n):
        for c in range(n):
            s = 0
            for m in poly[r][c]:
                e = m["e"]
                s += ring(m["c"]) * z[0] ** e[0] * z[1] ** e[1] * z[2] ** e[2]
            out[r, c] = s
    return out


def poly_degree(poly):
    d = 0
    for row in poly:
        for ent in row:
            for m in ent:
                d = max(d, max(abs(x) for x in m["e"]))
    return d


def gate_of(name, params):
    from orquestra.quantum.circuits import builtin_gate_by_name

    g = builtin_gate_by_name(name)
    return g(*params) if params or name in PARAMETRIC else g


PARAMETRIC = {"RX", "RY", "RZ", "RH", "PHASE", "U3", "GPi", "GPi2", "CPHASE", "XX", "YY", "ZZ", "XY", "MS", "Delay"}


def np_matrix(m):
    import sympy

    return np.array(sympy.Matrix(m).evalf().tolist(), dtype=complex)


def symbolic_coeffs(name, row):
    """try to prove matrix == poly for all parameters: returns True (proved), False (refuted), None (not extractable)"""
    import sympy

    npar = row["np"]
    if npar == 0:
        return None
    th = sympy.symbols("t1:%d" % (npar + 1), real=True)
    zs = sympy.symbols("z1:%d" % (npar + 1), positive=True)
    try:
        m = gate_of(name, list(th)).matrix
    except Exception:
        return None
    n = len(row["poly"])
    for r in range(n):
        for c in range(n):
            ex = sympy.sympify(m[r, c]).rewrite(sympy.exp)
            ex = ex.subs({t: -2 * sympy.I * sympy.log(z) for t, z in zip(th, zs)})
            ex = sympy.expand(sympy.powsimp(sympy.expand(sympy.simplify(ex)), force=True))
            want = 0
            for mono in row["poly"][r][c]:
                a, b, cc, d, k = mono["c"]
                w = sympy.exp(sympy.I * sympy.pi / 4)
                coef = (a + b * w + cc * sympy.I + d * w**3) / 2**k
                term = coef
                for j in range(npar):
                    term *= zs[j] ** mono["e"][j]
                want += term
            diff = sympy.expand(ex - want)
            if diff == 0:
                continue
            # numeric coefficients (floats in the factory): compare as polynomial in z with tolerance
            try:
                d2 = sympy.expand(diff * sympy.prod([z**8 for z in zs]))
                p = sympy.Poly(d2, *zs)
                if all(abs(complex(sympy.N(co))) < 1e-12 for co in p.coeffs()):
                    continue
                return False
            except Exception:
                return None
    return True


def check_row(ctx, row, seed):
    from orquestra.quantum.circuits import builtin_gate_by_name

    out = []
    name = row["name"]
    npar = row["np"]
    try:
        proto = builtin_gate_by_name(name)
    except Exception as ex:
        return [("missing:" + name, "no built-in gate %s: %r" % (name, ex))]
    # parameter points: grid (multiples of pi/4 over two periods), random reals, special values
    rng = random.Random(seed * 1000 + sum(map(ord, name)))
    grid = [k * math.pi / 4 for k in range(16)]
    if npar == 0:
        pts = [()]
    elif npar == 1:
        pts = [(a,) for a in grid] + [(rng.uniform(-7, 7),) for _ in range(40)] + [(0,), (1,), (-3,)]
    elif npar == 2:
        pts = list(itertools.product(grid[::2], repeat=2)) + [(rng.uniform(-7, 7), rng.uniform(-7, 7)) for _ in range(40)]
    else:
        g4 = [k * math.pi / 2 for k in range(4)]
        pts = list(itertools.product(g4, [k * math.pi / 4 for k in range(0, 8, 2)], [k * math.pi / 4 for k in range(1, 8, 2)])) + [tuple(rng.uniform(-7, 7) for _ in range(3)) for _ in range(40)]
    # values that are different numbers but hash alike in CPython (hash(-1) == hash(-2), ints and floats), one after the other
    if npar >= 1:
        pts = pts + [tuple([-1.0] * npar), tuple([-2.0] * npar), tuple([-1] * npar), tuple([-2] * npar), tuple([-2.0] + [-1.0] * (npar - 1))]
    first = True
    for p in pts:
        try:
            g = gate_of(name, list(p))
            m = np_matrix(g.matrix)
        except Exception as ex:
            out.append(("matrix-raises:" + name, "%s%s.matrix cannot be computed: %s: %s" % (name, p if p else "", type(ex).__name__, str(ex)[:200])))
            break
        want = poly_eval(row["poly"], p)
        if first:
            # the matrix a caller received is the caller's: overwriting its entries must not change the gate
            try:
                raw = g.matrix
                if hasattr(raw, "__setitem__"):
                    raw[0, 0] = 7
                    raw[raw.shape[0] - 1, raw.shape[1] - 1] = 7
                again = np_matrix(gate_of(name, list(p)).matrix)
                if not close(again, m) or not close(np_matrix(g.matrix), m):
                    out.append(("matrix-shared:" + name, "%s%s: after a caller overwrote entries of the matrix it had received, the gate's matrix is %s" % (name, p if p else "", np.round(again, 6).tolist())))
            except TypeError:
                pass  # immutable matrices cannot be overwritten: nothing to check
        if first:
            first = False
            if g.num_qubits != row["nq"]:
                out.append(("num_qubits:" + name, "%s declares %d qubits, specification %d" % (name, g.num_qubits, row["nq"])))
            if m.shape != (2 ** g.num_qubits, 2 ** g.num_qubits):
                out.append(("dimension:" + name, "%s matrix has shape %s but declares %d qubits" % (name, m.shape, g.num_qubits)))
        if m.shape != want.shape or not close(m, want):
            out.append(("matrix:" + name, "%s%s.matrix differs from the specification polynomial\n got %s\nwant %s" % (name, p, np.round(m, 6).tolist(), np.round(want, 6).tolist())))
            break
        if m.shape[0] == m.shape[1] and not close(m @ m.conj().T, np.eye(m.shape[0])):
            out.append(("unitary:" + name, "%s%s.matrix is not unitary" % (name, p)))
            break
        flagged = bool(getattr(g, "is_hermitian", False))
        if flagged and not close(m, m.conj().T):
            out.append(("hermitian-flag:" + name, "%s is flagged self-adjoint but its matrix at %s is not" % (name, p)))
            break
        try:
            dg = g.dagger
            dm = np_matrix(dg.matrix)
            if not close(dm, want.conj().T):
                out.append(("dagger:" + name, "%s%s.dagger.matrix is not the conjugate transpose" % (name, p)))
                break
        except Exception as ex:
            out.append(("dagger-raises:" + name, "%s%s.dagger.matrix raises %r" % (name, p, ex)))
            break
    # histories: a gate whose matrix has already been looked at is re-parametrised (bind / replace_params) - the new
    # gate's matrix is the polynomial at the NEW parameters
    if npar > 0 and not out:
        import sympy

        syms = sympy.symbols("t0:%d" % npar)
        try:
            gs = gate_of(name, list(syms))
            gs.matrix
            some = [tuple(float(x) for x in q) for q in (pts[1], pts[5], pts[-1], pts[-2])]
            gn = gate_of(name, list(some[0]))
            gn.matrix
            for q in some[1:]:
                want = poly_eval(row["poly"], q)
                for how, gg in (("bind after .matrix", gs.bind(dict(zip(syms, q)))), ("replace_params after .matrix", gs.replace_params(q)), ("numeric replace_params after .matrix", gn.replace_params(q))):
                    if tuple(float(x) for x in gg.params) != q:
                        out.append(("reparam-params:" + name, "%s: %s reports parameters %s, expected %s" % (name, how, gg.params, q)))
                    elif not close(np_matrix(gg.matrix), want):
                        out.append(("reparam-matrix:" + name, "%s: matrix after %s to %s is not the gate's matrix at these parameters" % (name, how, q)))
                gn = gn.replace_params(q)
                gn.matrix
        except Exception as ex:
            out.append(("reparam-raises:" + name, "%s: re-parametrising raised %s: %s" % (name, type(ex).__name__, str(ex)[:200])))
    # histories that START at a special point (all parameters 0, pi, 2 pi: the matrix there may be the identity, self-adjoint,
    # diagonal ...): nothing learnt about the gate at that point may survive re-parametrisation - flag, dagger and matrix
    # of the re-parametrised gate are those of the gate built directly at the new parameters
    if npar > 0 and not out:
        import sympy

        syms = sympy.symbols("t0:%d" % npar)
        targets = [tuple(rng.uniform(0.2, 2.9) for _ in range(npar)) for _ in range(2)]
        for start in (0.0, math.pi, 2 * math.pi, 0):
            try:
                g0 = gate_of(name, [start] * npar)
                g0.matrix, g0.dagger.matrix
                for q in targets:
                    want = poly_eval(row["poly"], q)
                    routes = (("replace_params", g0.replace_params(q)), ("replace_params to symbols, then bind", g0.replace_params(tuple(syms)).bind(dict(zip(syms, q)))))
                    for how, gg in routes:
                        mm = np_matrix(gg.matrix)
                        dm = np_matrix(gg.dagger.matrix)
                        if not close(mm, want):
                            out.append(("special-start:matrix:" + name, "%s built at %s, %s to %s: the matrix is not the gate's matrix at the new parameters" % (name, (start,) * npar, how, q)))
                        elif not close(dm, want.conj().T):
                            out.append(("special-start:dagger:" + name, "%s built at %s, %s to %s: .dagger.matrix is not the conjugate transpose (is_hermitian=%s)" % (name, (start,) * npar, how, q, getattr(gg, "is_hermitian", None))))
                        elif bool(getattr(gg, "is_hermitian", False)) and not close(mm, mm.conj().T):
                            out.append(("special-start:flag:" + name, "%s built at %s, %s to %s: flagged self-adjoint but the matrix is not" % (name, (start,) * npar, how, q)))
            except Exception as ex:
                out.append(("special-start:raises:" + name, "%s built at %s and re-parametrised: raised %s: %s" % (name, (start,) * npar, type(ex).__name__, str(ex)[:200])))
            if out:
                break
    # parameters that are COMPOUND real expressions (a + b, 2 t, -t, t/3, pi/5 + t ...): "the matrix can be computed for
    # every real parameter" - the symbolic matrix, evaluated at a point, is the polynomial at the values of the expressions;
    # for the one-parameter families this includes the right-hand side G(a + b) of the group law
    if npar > 0 and not out:
        import sympy

        a, b = sympy.symbols("a b", real=True)
        u = sympy.Symbol("u")
        forms = [a + b, 2 * a, -a, a / 3, sympy.pi / 5 + u, a - b, u * 2 + 1, sympy.Rational(1, 2) * (a + u)]
        point = {a: 0.37, b: -1.21, u: 2.05}
        for k0 in range(len(forms)):
            exprs = [forms[(k0 + j) % len(forms)] for j in range(npar)]
            vals = tuple(float(e.subs(point)) for e in exprs)
            try:
                gsym = gate_of(name, exprs)
                msym = sympy.Matrix(gsym.matrix).subs(point)
                mm = np.array(msym.evalf().tolist(), dtype=complex)
                if tuple(gsym.params) != tuple(exprs):
                    out.append(("compound:params:" + name, "%s(%s) reports parameters %s" % (name, exprs, gsym.params)))
                if gsym.free_symbols is not None and set(gsym.free_symbols) != set().union(*[e.free_symbols for e in exprs]):
                    out.append(("compound:free:" + name, "%s(%s) reports free symbols %s" % (name, exprs, gsym.free_symbols)))
                bound = gsym.bind(point)
                mb = np_matrix(bound.matrix)
            except Exception as ex:
                out.append(("compound:raises:" + name, "%s(%s): the matrix for compound real expressions cannot be computed: %s: %s" % (name, exprs, type(ex).__name__, str(ex)[:200])))
                break
            want = poly_eval(row["poly"], vals)
            if not close(mm, want) or not close(mb, want):
                out.append(("compound:matrix:" + name, "%s(%s) at %s: the symbolic matrix evaluated at the point (or the bound gate's matrix) is not the gate's matrix at %s" % (name, exprs, point, vals)))
                break
    return out


BEYOND = ("unitary-tools:",)


def check_unitary_tools(ctx):
    """UnitaryTools.tla -> utils.compare_unitary / is_unitary / is_identity (behaviour beyond the statement of C02)"""
    from orquestra.quantum.utils import compare_unitary, is_identity, is_unitary

    from ..bridge import mat

    res = ctx.tlc("UnitaryTools", constants=dict(Emitting=True), invariants=["MechanismDecidesWhereDefined", "UndefinedOnlyForUnequal", "Symmetric"], action_constraints=["Emit"], workers=8, coverage=False, timeout=900)
    pairs = [e for e in res.emitted if "equal" in e]
    if len(pairs) < 200 or not any(not e["defined"] for e in pairs) or not any(e["equal"] and e["ida"] != e["idb"] for e in pairs):
        raise TLCError("UnitaryTools exported %d pairs" % len(pairs))
    undefined_raises = 0
    for e in pairs:
        A, B = mat(e["a"]), mat(e["b"])
        c = {"k": "unitary-tools", "a": e["ida"], "b": e["idb"]}
        ctx.count(c, kind="compare_unitary (beyond the property)")
        try:
            got = bool(compare_unitary(A, B, tol=1e-9))
        except ZeroDivisionError:
            got = "ZeroDivisionError"
        except Exception as ex:
            got = type(ex).__name__
        if e["defined"]:
            if got is not e["equal"]:
                ctx.violation("unitary-tools:compare", "compare_unitary of the pool matrices %s and %s: %s, equal up to one global phase: %s" % (e["ida"], e["idb"], got, e["equal"]), c)
        else:
            # <0|A^dagger B|0> = 0: the mechanism divides by zero (as found); a plain False would be the meaning
            if got == "ZeroDivisionError":
                undefined_raises += 1
            elif got is not False:
                ctx.violation("unitary-tools:compare", "compare_unitary of %s and %s (not equal up to a phase, first overlap entry zero): %s" % (e["ida"], e["idb"], got), c)
        if not is_unitary(A, tol=1e-9) or bool(is_identity(A, tol=1e-9)) != (e["ida"][1] == 1):
            ctx.violation("unitary-tools:predicates", "is_unitary / is_identity on the pool matrix %s: %s / %s" % (e["ida"], is_unitary(A, tol=1e-9), is_identity(A, tol=1e-9)), c)
        for Mb in e["bad"]:
            if is_unitary(mat(Mb), tol=1e-9):
                ctx.violation("unitary-tools:predicates", "is_unitary accepts a matrix that is not unitary", c)
    if undefined_raises:
        ctx.note("compare_unitary raises ZeroDivisionError for %d of the %d ordered pairs whose first overlap entry <0|A^dagger B|0> is zero (e.g. I and X): UnitaryTools.tla shows the mechanism undefined exactly there, all such pairs being unequal - an observation beyond the listed properties" % (undefined_raises, sum(1 for e in pairs if not e["defined"])))


def run(ctx):
    res = ctx.tlc("Gates", constants=dict(Emitting=True), invariants=INV, workers=4, coverage=False, timeout=900)
    rows = res.emitted
    if len(rows) != 27:
        raise TLCError("Gates exported %d rows, expected 27" % len(rows))
    from orquestra.quantum.circuits import _builtin_gates

    # the table must cover every built-in gate the library defines
    from orquestra.quantum.circuits._gates import MatrixFactoryGate

    lib = sorted(n for n, v in vars(_builtin_gates).items() if n[:1].isupper() and n not in ("Union", "Callable", "GatePrototype", "GateRef") and (isinstance(v, MatrixFactoryGate) or getattr(v, "__name__", "") == "_factory"))
    specnames = sorted(r["name"] for r in rows)
    extra = [n for n in lib if n not in specnames and n not in ("Gate", "GatePrototype")]
    if extra:
        ctx.note("built-in gates not in the specification table: %s" % extra)
    proved, sampled = [], []
    for row in rows:
        ctx.count({"k": "gate", "name": row["name"], "nq": row["nq"], "np": row["np"], "herm": row["herm"], "degree": poly_degree(row["poly"])})
        fails = check_row(ctx, row, ctx.seed)
        for key, msg in fails:
            ctx.violation(key, msg, {"k": "gate", "name": row["name"]})
        if not fails and row["np"] > 0:
            sym = None
            try:
                sym = symbolic_coeffs(row["name"], row)
            except Exception as ex:
                sym = None
            if sym is True:
                proved.append(row["name"])
            elif sym is False:
                # symbolic disagreement while all samples agree: report as note (the numeric judge is final)
                ctx.note("symbolic extraction disagreed for %s although all sampled angles agree" % row["name"])
                sampled.append(row["name"])
            else:
                sampled.append(row["name"])
    check_unitary_tools(ctx)
    ctx.bounds = {"gates": 27, "grid": "multiples of pi/4 over two periods; U3 4x4x4; MS 8x8", "random_points_per_gate": 40}
    ctx.judged_numerically.append("matrix = specification polynomial: proved by symbolic coefficient extraction for %s; sampled (grid + random, more than 2*degree+1 points) for %s" % (proved, sampled))


def replay(ctx, case):
    if case.get("k") == "unitary-tools":
        check_unitary_tools(ctx)
        return
    res = ctx.tlc("Gates", constants=dict(Emitting=True), invariants=INV, workers=4, coverage=False, timeout=900)
    for row in res.emitted:
        if row["name"] == case["name"]:
            ctx.count(case)
            for key, msg in check_row(ctx, row, ctx.seed):
                ctx.violation(key, msg, case)
