"""C18 - decomposing a circuit never changes what it does.

spec: Decompose.tla.  TLC: RuleChainOrder (the recursive mechanism equals one pass per rule, each on the output of
the previous one), EmptyRulesIdentity (same operations AND same width), WidthKept, UntouchedOpsKept,
SameActionUpToPhase (ordered products over the exact ring, equal up to ONE global phase) on every program and
every list of distinct rules inside the bounds; the U3 rule for ALL real angles as Laurent identities (ASSUME).
Known finding K2 is part of the specification as an exact exception (controlled U3 with e^{i(phi+lambda)/2} # 1
loses exactly that phase on the controlled block); TLC must refute the property without the exception.
spec->code: every exported decomposition is replayed through decompose_orquestra_circuit / decompose_operations
with real rule objects (the bundled U3GateToRotation and three harness-defined rules); width, unitary (up to one
global phase) and the untouched operations are compared; the same shapes are re-run at off-grid angles."""
import json
import math

import numpy as np

from .. import circ_common as cc
from ..bridge import close, close_up_to_phase, mat
from ..common import Snap
from ..tlc import TLCError

INV = ["RuleChainOrder", "EmptyRulesIdentity", "WidthKept", "UntouchedOpsKept", "SameActionUpToPhase", "AppendIsProduct"]


def gate_of(o, shift=0.0):
    from orquestra.quantum.circuits import builtin_gate_by_name

    g = builtin_gate_by_name(o["name"])
    npar = {"U3": 3, "RY": 1, "RZ": 1}.get(o["name"], 0)
    if npar:
        g = g(*[o["k"][j] * math.pi / 2 + shift * (j + 1) for j in range(npar)])
    if o["dag"]:
        g = g.dagger
    if o["nc"]:
        g = g.controlled(o["nc"])
    return g


def circuit_of(ops, n, shift=0.0):
    from orquestra.quantum.circuits import Circuit

    return Circuit([gate_of(o, shift)(*o["qs"]) for o in ops], n_qubits=n)


def op_str(o):
    s = o["name"]
    npar = {"U3": 3, "RY": 1, "RZ": 1}.get(o["name"], 0)
    if npar:
        s += "(%s)" % ",".join("%d*pi/2" % x for x in o["k"][:npar])
    if o["dag"]:
        s += ".dagger"
    if o["nc"]:
        s += ".controlled(%d)" % o["nc"]
    return s + str(tuple(o["qs"]))


def prog_str(ops, n):
    return "Circuit([%s], n_qubits=%d)" % (", ".join(op_str(o) for o in ops), n)


_RULES = {}


def rule(name):
    """real rule objects: the bundled one and three harness-defined rules with exact productions"""
    if name in _RULES:
        return _RULES[name]
    from orquestra.quantum.circuits import RY, U3, H, S, X, Z
    from orquestra.quantum.circuits._gates import ControlledGate
    from orquestra.quantum.decompositions import U3GateToRotation

    def ctl(op, g):
        return g.controlled(op.gate.num_control_qubits) if isinstance(op.gate, ControlledGate) else g

    class XtoHZH:
        def predicate(self, op):
            return op.gate.name == "X"

        def production(self, op):
            return [H(*op.qubit_indices), Z(*op.qubit_indices), H(*op.qubit_indices)]

    class ZtoSS:
        def predicate(self, op):
            return op.gate.name == "Z"

        def production(self, op):
            return [S(*op.qubit_indices), S(*op.qubit_indices)]

    class RYtoU3:
        def predicate(self, op):
            return op.gate.name == "RY" or (isinstance(op.gate, ControlledGate) and op.gate.wrapped_gate.name == "RY")

        def production(self, op):
            return [ctl(op, U3(op.params[0], 0, 0))(*op.qubit_indices)]

    class RYhalf:
        """RY(t) with t an even non-zero multiple of pi/2 -> RY(t/2) RY(t/2); its products may match it again"""

        def _even(self, t):
            k = float(t) / (math.pi / 2)
            return abs(k - round(k)) < 1e-9 and round(k) % 2 == 0 and round(k) != 0

        def predicate(self, op):
            return op.gate.name == "RY" and self._even(op.params[0])

        def production(self, op):
            return [RY(op.params[0] / 2)(*op.qubit_indices), RY(op.params[0] / 2)(*op.qubit_indices)]

    _RULES.update({"U3rot": U3GateToRotation(), "XtoHZH": XtoHZH(), "ZtoSS": ZtoSS(), "RYtoU3": RYtoU3(), "RYhalf": RYhalf()})
    return _RULES[name]


def unitary(c):
    if not c.operations:
        return np.eye(2**c.n_qubits, dtype=complex)
    return cc.to_np(c.to_unitary())


def pad(U, a, b):
    return U if a == b else np.kron(U, np.eye(2 ** (b - a)))


def np_lift(G, qs, n):
    """G on the ordered qubits qs of an n-qubit register, by index bits (qubit 0 = most significant)"""
    out = np.zeros((2**n, 2**n), dtype=complex)
    rest = [q for q in range(n) if q not in qs]

    def bit(i, q):
        return (i >> (n - 1 - q)) & 1

    for r in range(2**n):
        for c in range(2**n):
            if any(bit(r, q) != bit(c, q) for q in rest):
                continue
            sr = sum(bit(r, q) << (len(qs) - 1 - t) for t, q in enumerate(qs))
            sc = sum(bit(c, q) << (len(qs) - 1 - t) for t, q in enumerate(qs))
            out[r, c] = G[sr, sc]
    return out


def k2_expected(ops, n, shift):
    """the original circuit with the phase e^{i(phi+lambda)/2} removed from every controlled-U3 block (finding K2)"""
    U = np.eye(2**n, dtype=complex)
    for o in ops:
        g = gate_of(o, shift)
        M = cc.to_np(g.matrix)
        if o["name"] == "U3" and o["nc"] and not o["dag"]:
            theta, phi, lam = [float(p) for p in g.params]
            inner = cc.to_np(g.wrapped_gate.matrix) * np.exp(-1j * (phi + lam) / 2)
            d = inner.shape[0] * (2 ** o["nc"] - 1)
            M = np.eye(d + inner.shape[0], dtype=complex)
            M[d:, d:] = inner
        U = np_lift(M, list(o["qs"]), n) @ U
    return U


def is_k2_op(o, shift):
    if not (o["name"] == "U3" and o["nc"] and not o["dag"]):
        return False
    g = gate_of(o, shift)
    phi, lam = float(g.params[1]), float(g.params[2])
    return abs(np.exp(1j * (phi + lam) / 2) - 1) > 1e-9


def proj(c):
    return [[op.gate.name, [round(float(p), 9) for p in op.params], list(op.qubit_indices)] for op in c.operations]


def check_case(ctx, c, shift=0.0):
    from orquestra.quantum.circuits import Circuit
    from orquestra.quantum.decompositions import decompose_operations, decompose_orquestra_circuit

    out = []
    tag = ":offgrid" if shift else ""
    desc = "decompose(%s, %s)%s" % (prog_str(c["pre"], c["pren"]), c["rules"], " [angles + %.2f*j]" % shift if shift else "")
    pre = circuit_of(c["pre"], c["pren"], shift)
    rules = [rule(r) for r in c["rules"]]
    snap = Snap([pre])
    try:
        res = decompose_orquestra_circuit(pre, rules)
        ops2 = decompose_operations(pre.operations, rules)
    except Exception as ex:
        return [("raises" + tag, "%s raised %s: %s" % (desc, type(ex).__name__, str(ex)[:200]))]
    if snap.changed():
        out.append(("mutated" + tag, "%s modified the circuit it was given" % desc))
    if list(ops2) != list(res.operations):
        out.append(("ops-vs-circuit" + tag, "%s: decompose_operations and decompose_orquestra_circuit disagree" % desc))
    # width: a decomposition acts on the same register
    if res.n_qubits != c["pren"]:
        out.append(("width" + tag, "%s returned a circuit on %d qubits, the original has %d%s" % (desc, res.n_qubits, c["pren"], " (empty rule list: not returned unchanged)" if not c["rules"] else "")))
    if not c["rules"] and list(res.operations) != list(pre.operations):
        out.append(("empty-rules" + tag, "%s: operations changed with an empty rule list" % desc))
    # untouched operations are kept unchanged and in order
    kept = [op for op, k in zip(pre.operations, c["kept"]) if k]
    it = iter(res.operations)
    if not all(any(op == r for r in it) for op in kept):
        out.append(("untouched" + tag, "%s: operations no rule applies to are not all kept in order: %s" % (desc, res.operations)))
    # the action, up to one global phase
    w = max(res.n_qubits, c["pren"])
    R = pad(unitary(res), res.n_qubits, w)
    O = pad(unitary(pre), c["pren"], w)
    k2 = "U3rot" in c["rules"] and any(is_k2_op(o, shift) for o in c["pre"])
    if not close_up_to_phase(R, O, 1e-8):
        if k2 and close_up_to_phase(R, pad(k2_expected(c["pre"], c["pren"], shift), c["pren"], w), 1e-8):
            out.append(("KNOWN:K2", "%s: controlled U3 decomposed without its phase e^{i(phi+lambda)/2} (relative on the controlled block)" % desc))
        else:
            out.append(("action" + tag, "%s: the decomposed circuit does not act as the original up to one global phase" % desc))
    if not shift:
        S = pad(mat(c["U"]), c["n"], max(w, c["n"]))
        if S.shape != R.shape or not close_up_to_phase(R, S, 1e-8):
            if S.shape == R.shape or res.n_qubits == c["n"]:
                out.append(("action:spec", "%s: differs from the specification's exact matrix" % desc))
        # rule order / structure: the harness rules have fixed productions; the bundled rule's sequence is compared as a drift note only
        spec_struct = [[o["name"] + ("_Dagger" if o["dag"] else ""), o["nc"], list(o["qs"])] for o in c["post"]]
        real_struct = []
        for op in res.operations:
            g = op.gate
            nc = getattr(g, "num_control_qubits", 0)
            inner = g.wrapped_gate if nc else g
            real_struct.append([inner.name, nc, list(op.qubit_indices)])
        if spec_struct != real_struct:
            if "U3rot" in c["rules"] and any(o["name"] == "U3" and not o["dag"] for o in c["pre"]):
                ctx.spec_drift("%s: operations %s, transcription %s" % (desc, real_struct, spec_struct))
            else:
                out.append(("rule-order", "%s produced %s; applying the rules in the order given to the output of the previous rule gives %s" % (desc, real_struct, spec_struct)))
    return out


def check_offgrid(ctx, c):
    return check_case(ctx, c, 0.41)


def check_rule_object(ctx):
    """predicate / production of the bundled rule on single operations (any number of controls, any qubits)"""
    from orquestra.quantum.circuits import RX, U3, Circuit, X
    from orquestra.quantum.decompositions import U3GateToRotation

    r = U3GateToRotation()
    fails = 0
    for nc in range(0, 4):
        for angles in ((0.3, 0.7, 1.1), (1.2, 0.0, 0.0), (0.5, 2.0, -2.0), (math.pi / 2, math.pi, 3 * math.pi)):
            for qs in ([0, 1, 2, 3][: nc + 1], [3, 1, 0, 2][: nc + 1]):
                g = U3(*angles).controlled(nc) if nc else U3(*angles)
                op = g(*qs)
                n = 4
                ctx.count({"k": "rule-object", "op": str(op)}, kind="U3GateToRotation on single operations (numeric)")
                if not r.predicate(op):
                    ctx.violation("predicate", "U3GateToRotation.predicate(%s) is False" % op, {"k": "rule-object"})
                    continue
                prod = list(r.production(op))
                R = unitary(Circuit(prod, n_qubits=n))
                O = unitary(Circuit([op], n_qubits=n))
                phase_is_one = abs(np.exp(1j * (angles[1] + angles[2]) / 2) - 1) < 1e-9
                if close_up_to_phase(R, O, 1e-8):
                    continue
                if nc and not phase_is_one:
                    # K2, exactly: the block comes out multiplied by e^{-i(phi+lambda)/2}
                    D = O.conj().T @ R
                    ones = [i for i in range(2**n) if all((i >> (n - 1 - q)) & 1 for q in qs[:nc])]
                    want = np.eye(2**n, dtype=complex)
                    for i in ones:
                        want[i, i] = np.exp(-1j * (angles[1] + angles[2]) / 2)
                    if close(D, want, 1e-8):
                        ctx.known("K2", "%s: decomposition drops e^{i(phi+lambda)/2} on the controlled block" % op)
                        continue
                ctx.violation("production", "U3GateToRotation.production(%s) does not act as the operation up to a global phase" % op, {"k": "rule-object"})
                fails += 1
    for op in (X(0), RX(0.3)(1), U3(0.1, 0.2, 0.3).dagger(0), X.controlled(1)(0, 1)):
        if r.predicate(op):
            ctx.violation("predicate:other", "U3GateToRotation.predicate(%s) is True" % op, {"k": "rule-object"})


def run(ctx):
    quick = ctx.tier == "quick"
    if quick:
        runs = [("programs<=2 on 2 of 3 qubits", dict(MaxQ=2, MaxLen=2, MaxRules=2, MaxDec=1, Gates="<-GatesQuick", KeepsWidth=True, Widths="{3}")),
                ("single operations, all gates", dict(MaxQ=3, MaxLen=1, MaxRules=3, MaxDec=1, Gates="<-GatesAll", KeepsWidth=True, Widths="{1, 3}"))]
    else:
        runs = [("programs<=2 on 3 qubits", dict(MaxQ=3, MaxLen=2, MaxRules=2, MaxDec=1, Gates="<-GatesQuick", KeepsWidth=True, Widths="{1, 3}")),
                ("single operations, all gates, 4 qubits", dict(MaxQ=4, MaxLen=1, MaxRules=4, MaxDec=2, Gates="<-GatesAll", KeepsWidth=True, Widths="{1, 4}")),
                ("programs<=3 on 2 qubits, decomposed twice", dict(MaxQ=2, MaxLen=3, MaxRules=2, MaxDec=2, Gates="{1, 2, 7, 8, 10, 11}", KeepsWidth=True, Widths="{2, 3}"))]
    ctx.bounds = {name: consts for name, consts in runs}
    cases = []
    for name, consts in runs:
        res = ctx.tlc("Decompose", constants=consts, invariants=INV, action_constraints=["Emit"], view="ViewNoU", coverage=False, timeout=7000)
        for e in res.emitted:
            e["cfg"] = name
        cases += res.emitted
    # the two refutations TLC must produce: without the K2 exception; with the construction that forgets the register width
    r1 = ctx.tlc("Decompose", constants=dict(MaxQ=2, MaxLen=1, MaxRules=1, MaxDec=1, Gates="{2}", KeepsWidth=True, Widths="{2}"), invariants=["NoK2Exception"], view="ViewNoU", coverage=False, timeout=600, allow_violation=True)
    if "NoK2Exception" not in r1.violated:
        ctx.note("TLC no longer refutes the U3 rule on a controlled U3 without the K2 exception - the transcription of the production may be out of date")
    r2 = ctx.tlc("Decompose", constants=dict(MaxQ=1, MaxLen=1, MaxRules=0, MaxDec=1, Gates="{8}", KeepsWidth=False, Widths="{2}"), invariants=["WidthKept", "EmptyRulesIdentity"], view="ViewNoU", coverage=False, timeout=600, allow_violation=True)
    if not r2.violated:
        raise TLCError("vacuity: the width-forgetting construction is not refuted by WidthKept")
    if len(cases) < 1000:
        raise TLCError("Decompose exported only %d decompositions" % len(cases))
    if not any(c["k2"] for c in cases) or not any((not c["k2"]) and any(o["name"] == "U3" and o["nc"] for o in c["pre"]) and "U3rot" in c["rules"] for c in cases):
        raise TLCError("vacuity: no K2 / no K2-free controlled U3 case exported")
    for c, fails in zip(cases, ctx.pmap(check_case, cases, chunksize=16)):
        ctx.count({"k": "decompose", "circuit": prog_str(c["pre"], c["pren"]), "rules": c["rules"]}, kind=c["cfg"])
        for key, msg in fails:
            if key.startswith("KNOWN:"):
                ctx.known(key[6:], msg)
            else:
                ctx.violation(key, msg, c)
    off = [c for i, c in enumerate(cases) if "U3rot" in c["rules"] and any(o["name"] in ("U3", "RY") for o in c["pre"]) and i % (3 if quick else 1) == 0]
    for c, fails in zip(off, ctx.pmap(check_offgrid, off, chunksize=16)):
        ctx.count({"k": "decompose-offgrid", "circuit": prog_str(c["pre"], c["pren"]), "rules": c["rules"]}, kind="off-grid angles (numeric)")
        for key, msg in fails:
            if key.startswith("KNOWN:"):
                ctx.known(key[6:], msg)
            else:
                ctx.violation(key, msg, dict(c, offgrid=True))
    check_rule_object(ctx)
    ctx.judged_numerically += ["off-grid angles: decomposed circuit = original up to one global phase, on the implementation's own matrices; K2 matched by the exact relative phase"]
    ctx.assumptions.append("rule lists consist of distinct rules; the four harness-defined rules have exact productions (X = HZH, Z = SS, RY(t) = U3(t,0,0), RY(t) = RY(t/2) RY(t/2) for even multiples of pi/2)")


def replay(ctx, case):
    if case.get("k") == "rule-object":
        check_rule_object(ctx)
        return
    if case.get("k") == "tlc":
        raise TLCError("a TLC counterexample is replayed by re-running the check")
    ctx.count({"k": "decompose"})
    for key, msg in (check_offgrid if case.get("offgrid") else check_case)(ctx, case):
        if key.startswith("KNOWN:"):
            ctx.known(key[6:], msg)
        else:
            ctx.violation(key, msg, case)
