"""C16 - time-evolution circuits implement exp(-i t H) term by term, and its derivative.

spec: Evolution.tla (Laurent polynomials: identities hold for every real t and all real coefficients).
TLC: TermCircuitIsExponential for every Pauli string on the register, ConstantGivesEmptyCircuit,
ImaginaryCoefficientRejected, SumIsOrderedProductOfSteps, ParameterShiftIsDerivative (operator identity for
every Pauli observable, every term, steps 1..MaxSteps); the construction "as originally implemented"
(RepeatedUsesFullTime / guard without abs) is kept as a named variant which TLC must refute.
spec->code: time_evolution_for_term / time_evolution / time_evolution_derivatives on the exported cases at
grid and random (t, c); derivative pairs are judged by their meaning against the analytic derivative of the
ordered product and a central finite difference of the library's own time_evolution."""
import itertools
import math
import random

import numpy as np

from .. import pauli_common as pc
from ..bridge import close, ring
from ..tlc import TLCError


def dense_string(ops, n):
    return pc.dense_ops(list(ops), n)


def exp_term(P, angle):
    return math.cos(angle) * np.eye(P.shape[0]) - 1j * math.sin(angle) * P


def real_term(ops, c):
    from orquestra.quantum.operators import PauliTerm

    return PauliTerm({q: o for q, o in enumerate(ops) if o != "I"}, c)


def unitary(circ, n):
    from orquestra.quantum.circuits import Circuit

    if not circ.operations:
        return np.eye(2**n, dtype=complex)
    u = np.asarray(Circuit(circ.operations, n_qubits=n).to_unitary(), dtype=complex)
    return u


def poly_eval(poly, z):
    n = len(poly)
    out = np.zeros((n, n), dtype=complex)
    for r in range(n):
        for c in range(n):
            out[r, c] = sum(ring(m["c"]) * z ** m["e"][0] for m in poly[r][c])
    return out


def check_term(ctx, c):
    from orquestra.quantum.evolution import time_evolution_for_term

    out = []
    ops = c["ham"][0]
    n = c["nq"]
    P = dense_string(ops, n)
    rng = random.Random(ctx.seed + hash(tuple(ops)) % 1000)
    pts = [(k * math.pi / 4, cf) for k in range(0, 8, 3) for cf in (1.0, -0.5, 2)] + [(rng.uniform(-3, 3), rng.uniform(-2, 2)) for _ in range(5)]
    const = all(o == "I" for o in ops)
    for t, cf in pts:
        term = real_term(ops, cf)
        try:
            circ = time_evolution_for_term(term, t)
        except Exception as ex:
            out.append(("term:raises", "time_evolution_for_term(%s, %s) raised %r" % (term, t, ex)))
            break
        if const:
            if circ.operations:
                out.append(("term:constant", "constant term %s gives a non-empty circuit" % term))
            continue
        u = unitary(circ, n)
        want = exp_term(P, t * cf)
        spec = poly_eval(c["poly"], np.exp(1j * t * cf))
        if not close(want, spec):
            raise TLCError("harness: specification polynomial and closed form disagree for %s" % (ops,))
        if not close(u, want):
            out.append(("term:unitary", "time_evolution_for_term(%s, t=%s): circuit matrix is not exp(-i t c P)" % (term, t)))
            break
    # complex coefficients must be rejected, whatever the sign of the imaginary part
    if not const:
        for im in (0.5, -0.5, 1e-3, -1e-3):
            try:
                time_evolution_for_term(real_term(ops, complex(1.0, im)), 0.3)
                out.append(("term:imaginary-accepted:%s" % ("neg" if im < 0 else "pos"), "term %s with coefficient %s was accepted (imaginary part silently truncated)" % (ops, complex(1.0, im))))
            except Exception:  # any exception is a rejection; what must not happen is a circuit coming back
                pass
        # an imaginary part that is small only RELATIVE to a large real part (0.01 next to 2000) still changes the evolution
        # (a factor e^{+-0.01 t} on the amplitudes): it is not negligible, and the term must not be accepted
        for coef in (complex(2000.0, 0.01), complex(-2000.0, -0.01), complex(1e5, 0.5)):
            try:
                time_evolution_for_term(real_term(ops, coef), 0.3)
                out.append(("term:imaginary-accepted:relative", "term %s with coefficient %s was accepted (imaginary part silently truncated)" % (ops, coef)))
            except Exception:
                pass
        # the same through a sum (the term sits between two ordinary terms), also for purely imaginary coefficients
        from orquestra.quantum.evolution import time_evolution, time_evolution_derivatives
        from orquestra.quantum.operators import PauliSum, PauliTerm

        for coef in (complex(0.0, 0.5), complex(0.0, -0.5), complex(1.0, 0.5)):
            try:
                time_evolution_for_term(real_term(ops, coef), 0.3)
                out.append(("term:imaginary-accepted:pure" if coef.real == 0 else "term:imaginary-accepted:pos", "term %s with coefficient %s was accepted" % (ops, coef)))
            except Exception:  # any exception is a rejection; what must not happen is a circuit coming back
                pass
            ham = PauliSum([PauliTerm("Z0", 0.7), real_term(ops, coef), PauliTerm("X0", -0.2)])
            for nm, fn in (("time_evolution", lambda: time_evolution(ham, 0.3)), ("time_evolution(n_steps=2)", lambda: time_evolution(ham, 0.3, n_steps=2))):
                try:
                    r_ = fn()
                    out.append(("sum:imaginary-accepted", "%s of %s returned a circuit of %d operations: the term with coefficient %s was not rejected" % (nm, ham, len(r_.operations), coef)))
                except Exception:
                    pass
        try:
            time_evolution_for_term(real_term(ops, complex(1.0, 0.0)), 0.3)
        except Exception as ex:
            out.append(("term:real-complex-rejected", "term with coefficient (1+0j) rejected: %r" % ex))
    return out


def step_unitary(ham, coefs, t, n, nsteps):
    U = np.eye(2**n, dtype=complex)
    for _ in range(nsteps):
        for ops, cf in zip(ham, coefs):
            if all(o == "I" for o in ops):
                continue
            U = exp_term(dense_string(ops, n), t * cf / nsteps) @ U
    return U


def check_sum(ctx, c):
    from orquestra.quantum.evolution import time_evolution
    from orquestra.quantum.operators import PauliSum

    out = []
    ham, n, steps = c["ham"], c["nq"], c["steps"]
    rng = random.Random(ctx.seed + len(ham) * 7 + steps)
    for _ in range(4):
        coefs = [rng.choice([1.0, -0.7, 0.3, 2]) for _ in ham]
        t = rng.uniform(-2, 2)
        H = PauliSum([real_term(o, cf) for o, cf in zip(ham, coefs)])
        circ = time_evolution(H, t, n_steps=steps)
        u = unitary(circ, n)
        want = step_unitary(ham, coefs, t, n, steps)
        if not close(u, want):
            out.append(("sum:unitary", "time_evolution(%s, t=%.3f, n_steps=%d) is not the ordered product of the per-term circuits for t/steps" % (H, t, steps)))
            break
    return out


def check_deriv(ctx, c):
    from orquestra.quantum.evolution import time_evolution, time_evolution_derivatives
    from orquestra.quantum.operators import PauliSum

    out = []
    ham, n, steps = c["ham"], c["nq"], c["steps"]
    rng = random.Random(ctx.seed + len(ham) * 11 + steps)
    obs = [dense_string(o, n) for o in itertools.product("IXYZ", repeat=n)]
    for trial in range(3):
        coefs = [rng.choice([1.0, -0.7, 0.3, 1.5]) for _ in ham]
        t = rng.uniform(-1.5, 1.5)
        H = PauliSum([real_term(o, cf) for o, cf in zip(ham, coefs)])
        try:
            circs, factors = time_evolution_derivatives(H, t, n_steps=steps)
        except Exception as ex:
            out.append(("deriv:raises", "time_evolution_derivatives(%s, %.3f, n_steps=%d) raised %r" % (H, t, steps, ex)))
            break
        Us = [unitary(ci, n) for ci in circs]
        # analytic derivative of U^dag O U, U = ordered product (product rule over every occurrence)
        occ = [(ops, cf) for _ in range(steps) for ops, cf in zip(ham, coefs) if not all(o == "I" for o in ops)]
        mats = [exp_term(dense_string(ops, n), t * cf / steps) for ops, cf in occ]
        U = np.eye(2**n, dtype=complex)
        for m in mats:
            U = m @ U
        dU = np.zeros_like(U)
        for j, (ops, cf) in enumerate(occ):
            left = np.eye(2**n, dtype=complex)
            for m in mats[j + 1:]:
                left = left @ np.eye(2**n) if False else m @ left
            right = np.eye(2**n, dtype=complex)
            for m in mats[:j]:
                right = m @ right
            dU = dU + left @ ((-1j * cf / steps) * dense_string(ops, n) @ mats[j]) @ right
        h = 1e-5
        up = unitary(time_evolution(H, t + h, n_steps=steps), n)
        um = unitary(time_evolution(H, t - h, n_steps=steps), n)
        for O in obs:
            got = sum(f * (u.conj().T @ O @ u) for f, u in zip(factors, Us))
            want = dU.conj().T @ O @ U + U.conj().T @ O @ dU
            if not close(got, want, 1e-8):
                out.append(("deriv:identity", "time_evolution_derivatives(%s, t=%.3f, n_steps=%d): factor-weighted sum of expectations differs from d/dt of the evolved observable (max error %.3g)" % (H, t, steps, float(np.max(np.abs(got - want))))))
                break
            fd = (up.conj().T @ O @ up - um.conj().T @ O @ um) / (2 * h)
            if not close(got, fd, 1e-5):
                out.append(("deriv:finite-difference", "time_evolution_derivatives(%s, t=%.3f, n_steps=%d) disagrees with the finite difference of time_evolution (max error %.3g)" % (H, t, steps, float(np.max(np.abs(got - fd))))))
                break
        if out:
            break
    return out


def check_case(ctx, c):
    return {"term": check_term, "sum": check_sum, "deriv": check_deriv}[c["kind"]](ctx, c)


def run(ctx):
    quick = ctx.tier == "quick"
    base = dict(RepeatedUsesFullTime=False, GuardUsesAbs=True, Emitting=True)
    runs = [
        ("terms2", dict(NQ=2, Cases='"terms"', Hams="<-Hams2", MaxSteps=1), ["TermCircuitIsExponential", "ConstantGivesEmptyCircuit", "ImaginaryCoefficientRejected", "EmitInv"], None),
        ("terms3", dict(NQ=3, Cases='"terms"', Hams="<-Hams2", MaxSteps=1), ["TermCircuitIsExponential", "ConstantGivesEmptyCircuit", "EmitInv"], None),
        ("sums2", dict(NQ=2, Cases='"sums"', Hams="<-Hams2" if quick else "<-Hams2Big", MaxSteps=2 if quick else 3), ["SumIsOrderedProductOfSteps", "EmitInv"], None),
        ("derivs1", dict(NQ=1, Cases='"derivs"', Hams="<-Hams1", MaxSteps=2 if quick else 3), ["ParameterShiftIsDerivative", "EmitInv"], None),
        # the construction as originally implemented must be refuted by TLC (the specification bites)
        ("derivs1-as-implemented", dict(NQ=1, Cases='"derivs"', Hams="<-Hams1", MaxSteps=2, RepeatedUsesFullTime=True, Emitting=False), ["ParameterShiftIsDerivative"], "ParameterShiftIsDerivative"),
        ("guard-as-implemented", dict(NQ=1, Cases='"terms"', Hams="<-Hams1", MaxSteps=1, GuardUsesAbs=False, Emitting=False), ["ImaginaryCoefficientRejected"], "ImaginaryCoefficientRejected"),
    ]
    if not quick:
        runs.append(("derivs2", dict(NQ=2, Cases='"derivs"', Hams="<-Hams2", MaxSteps=2), ["ParameterShiftIsDerivative", "EmitInv"], None))
    ctx.bounds = {"terms": "all 16 + 64 Pauli strings on 2 and 3 qubits", "sums": "5-7 Hamiltonians on 2 qubits, steps <= %d" % (2 if quick else 3), "derivatives": "3 Hamiltonians on 1 qubit%s, steps <= %d, every Pauli observable" % ("" if quick else " and 5 on 2 qubits", 2 if quick else 3)}
    cases = []
    for name, consts, inv, expect in runs:
        cc = dict(base)
        cc.update(consts)
        res = ctx.tlc("Evolution", constants=cc, invariants=inv, coverage=False, timeout=3000, allow_violation=expect is not None)
        if expect is not None:
            if expect not in res.violated:
                raise TLCError("vacuity: the defective construction %s was NOT refuted by TLC" % name)
            ctx.note("TLC refutes the construction as originally implemented (%s): %s violated" % (name, expect))
            continue
        for e in res.emitted:
            e["cfg"] = name
            cases.append(e)
    if len(cases) < 80:
        raise TLCError("Evolution exported only %d cases" % len(cases))
    # derivative cases for the Hamiltonians of the sums as well (judged on the implementation, steps 1..3)
    extra = [dict(e, kind="deriv", cfg="derivs-from-sums") for e in cases if e["kind"] == "sum"]
    extra += [dict(e, steps=3) for e in extra if e["steps"] == 2]
    cases += extra
    for c, fails in zip(cases, ctx.pmap(check_case, cases, chunksize=4)):
        ctx.count({"k": c["kind"], "ham": c["ham"], "steps": c["steps"]}, kind=c["cfg"])
        for key, msg in fails:
            ctx.violation(key, msg, c)
    ctx.judged_numerically.append("the library's circuits are compared with the specification's closed forms numerically at grid and random (t, c); the identities themselves are proved by TLC as polynomial identities")


def replay(ctx, case):
    ctx.count({"k": case["kind"], "ham": case["ham"], "steps": case["steps"]})
    for key, msg in check_case(ctx, case):
        ctx.violation(key, msg, case)
