"""C07 - gate modifiers (dagger, controlled, power, exp) mean what they say.

spec: Modifiers.tla.  TLC: for all modifier chains to the depth bound over the base alphabet: DaggerIsAdjoint,
ControlledIsBlock, IntegerPowerIsProduct (exact ring), NumQubitsImplied, ParamsPreserved, ReplaceParamsCommutes
(on the transcribed re-association rules).  spec->code: every exported chain is built on real gates through the
API; num_qubits / params / replace_params / matrix are compared with the specification; the laws for 1/q powers
(q-th power returns the original) and exp (matrix exponential) are evaluated on the implementation's floats."""
import math
import signal

import numpy as np

from .. import circ_common as cc
from ..bridge import close, mat
from ..tlc import TLCError

INV = ["DaggerIsAdjoint", "ControlledIsBlock", "IntegerPowerIsProduct", "NumQubitsImplied", "ParamsPreserved", "ChainIsWhatWasBuilt", "ReplaceParamsCommutes", "UnitaryWhenRing"]


class Timeout(BaseException):     # not an Exception: code under test (sympy) that catches Exception must not swallow the alarm
    pass


def _alarm(signum, frame):
    raise Timeout()


def base_gate(b, custom_m=None, kk=None):
    from orquestra.quantum.circuits import builtin_gate_by_name

    if b["custom"] and b["np"] > 0:
        k = kk if kk is not None else b["kk"]
        return param_custom_def()(*[k[j] * math.pi / 2 if not isinstance(k[j], float) else k[j] for j in range(b["np"])])
    if b["custom"]:
        return cc.custom_def(b["name"], custom_m)()
    g = builtin_gate_by_name(b["name"])
    if b["np"] > 0:
        k = kk if kk is not None else b["kk"]
        g = g(*[k[j] * math.pi / 2 if not isinstance(k[j], float) else k[j] for j in range(b["np"])])     # floats: off-grid angles, taken as they are
    return g


_PC = []


def param_custom_def():
    import sympy
    from orquestra.quantum.circuits import CustomGateDefinition

    if not _PC:
        a = sympy.Symbol("a")
        _PC.append(CustomGateDefinition("PC", sympy.Matrix([[1, 0], [0, sympy.exp(sympy.I * a)]]), (a,)))
    return _PC[0]


def law_holds(mod, M, Mp):
    import scipy.linalg

    if mod["m"] == "dagger":
        return close(M, Mp.conj().T, 1e-8), "conjugate transpose"
    if mod["m"] == "controlled":
        d = Mp.shape[0] * (2 ** mod["c"] - 1)
        want = np.eye(d + Mp.shape[0], dtype=complex)
        want[d:, d:] = Mp
        return close(M, want, 1e-8), "identity on the first %d basis states followed by the original matrix" % d
    if mod["m"] == "power":
        e = mod["e"]
        if e[1] == 1:
            want = np.linalg.matrix_power(Mp, e[0]) if e[0] >= 0 else np.linalg.matrix_power(np.linalg.inv(Mp), -e[0])
            return close(M, want, 1e-8), "repeated product"
        return close(np.linalg.matrix_power(M, e[1]), np.linalg.matrix_power(Mp, e[0]) if e[0] >= 0 else np.linalg.inv(Mp), 1e-7), "a matrix whose %d-th power is the original" % e[1]
    return close(M, scipy.linalg.expm(Mp), 1e-8), "matrix exponential"


def k1_applies_real(g):
    """a fractional power of a gate with eigenvalue -1 somewhere under g (real gate objects, any parameter values)"""
    from orquestra.quantum.circuits._gates import ControlledGate, Dagger, Exponential, Power

    if isinstance(g, Power):
        if abs(g.exponent - round(g.exponent)) > 1e-12 and np.any(np.abs(np.linalg.eigvals(np_matrix(g.wrapped_gate)) + 1) < 1e-9):
            return True
        return k1_applies_real(g.wrapped_gate)
    if isinstance(g, (ControlledGate, Dagger, Exponential)):
        return k1_applies_real(g.wrapped_gate)
    return False


OFFGRID = [(0.3, 1.1, 2.2), (1.8, 0.0, 0.7), (4.4, 5.9, 1.0)]


def expo(e):
    return e[0] if e[1] == 1 else e[0] / e[1]


def apply_chain(g, chain):
    for m in chain:
        if m["m"] == "dagger":
            g = g.dagger
        elif m["m"] == "controlled":
            g = g.controlled(m["c"])
        elif m["m"] == "power":
            g = g.power(expo(m["e"]))
        elif m["m"] == "exp":
            g = g.exp
    return g


def np_matrix(g):
    import sympy

    return np.array(sympy.Matrix(g.matrix).evalf().tolist(), dtype=complex)


def eval_tree(tree, custom_m):
    """the specification tree (the code's normal form as transcribed) evaluated numerically, principal branches"""
    import scipy.linalg

    if tree["k"] == "base":
        return np_matrix(base_gate(tree, custom_m))
    s = eval_tree(tree["a"], custom_m)
    if tree["k"] == "ctrl":
        d = s.shape[0] * (2 ** tree["n"] - 1)
        out = np.eye(d + s.shape[0], dtype=complex)
        out[d:, d:] = s
        return out
    if tree["k"] == "dag":
        return s.conj().T
    if tree["k"] == "exp":
        return scipy.linalg.expm(s)
    e = tree["e"]
    if e[1] == 1:
        return np.linalg.matrix_power(s, e[0]) if e[0] >= 0 else np.linalg.matrix_power(np.linalg.inv(s), -e[0])
    return scipy.linalg.fractional_matrix_power(s, e[0] / e[1])


def build_tree(tree, custom_m):
    """the specification tree built with the library's constructors (no API re-association involved)"""
    from orquestra.quantum.circuits._gates import ControlledGate, Dagger, Exponential, Power

    if tree["k"] == "base":
        return base_gate(tree, custom_m)
    s = build_tree(tree["a"], custom_m)
    if tree["k"] == "ctrl":
        return ControlledGate(s, tree["n"])
    if tree["k"] == "dag":
        return Dagger(s)
    if tree["k"] == "exp":
        return Exponential(s)
    return Power(s, expo(tree["e"]))


def has_minus_one_under_fractional_power(tree, custom_m):
    if tree["k"] == "base":
        return False
    if tree["k"] == "pow" and tree["e"][1] != 1:
        ev = np.linalg.eigvals(eval_tree(tree["a"], custom_m))
        if np.any(np.abs(ev + 1) < 1e-9):
            return True
    return has_minus_one_under_fractional_power(tree["a"], custom_m)


def tree_str(t):
    if t["k"] == "base":
        return t["name"] + ("(%s)" % ",".join("%d*pi/2" % x for x in t["kk"][: t["np"]]) if t["np"] else "")
    s = tree_str(t["a"])
    return {"ctrl": "%s.controlled(%d)" % (s, t.get("n", 0)), "dag": s + ".dagger", "exp": s + ".exp", "pow": "%s.power(%s)" % (s, "/".join(map(str, t["e"])) if t["e"][1] != 1 else t["e"][0])}[t["k"]]


def chain_str(base, chain):
    s = tree_str(base)
    for m in chain:
        s += {"dagger": ".dagger", "exp": ".exp", "controlled": ".controlled(%d)" % m["c"], "power": ".power(%s)" % (expo(m["e"]) if m["e"][1] == 1 else "%d/%d" % tuple(m["e"]))}[m["m"]]
    return s


def check_case(ctx, c):
    import scipy.linalg

    out = []
    cm = c["custom"] or None
    desc = chain_str(c["base"], c["chain"])
    old = signal.signal(signal.SIGALRM, _alarm)
    signal.alarm(6 if ctx.tier == "quick" else 25)
    try:
        g0 = base_gate(c["base"], cm)
        pre = apply_chain(g0, c["chain"][:-1])
        g = apply_chain(pre, c["chain"][-1:])
        mod = c["mod"]
        # declared arity and parameters
        if g.num_qubits != c["nq"]:
            out.append(("num_qubits", "%s declares %d qubits, implied %d" % (desc, g.num_qubits, c["nq"])))
        if tuple(g.params) != tuple(g0.params):
            out.append(("params", "%s reports parameters %s, base gate %s" % (desc, g.params, g0.params)))
        try:
            M = np_matrix(g)
            Mp = np_matrix(pre)
        except Timeout:
            raise
        except Exception as ex:
            nonring = [m for m in c["chain"] if m["m"] == "exp" or (m["m"] == "power" and m["e"][1] != 1)]
            if len(nonring) >= 2 and isinstance(ex, (IndexError, NotImplementedError)) and any(m["m"] == "exp" for m in c["chain"][:-1]):
                return [("KNOWN:K3", "%s: matrix cannot be computed (%s inside sympy)" % (desc, type(ex).__name__))]
            return out + [("matrix-raises", "%s.matrix raised %s: %s" % (desc, type(ex).__name__, str(ex)[:150]))]
        if M.shape != (2 ** g.num_qubits,) * 2:
            out.append(("dimension", "%s: matrix shape %s for %d qubits" % (desc, M.shape, g.num_qubits)))
            return out
        # the modifier's law, against the implementation's own matrix of the gate it was applied to
        law_ok = True
        if mod["m"] == "dagger":
            law_ok = close(M, Mp.conj().T, 1e-8)
            law = "conjugate transpose"
        elif mod["m"] == "controlled":
            d = Mp.shape[0] * (2 ** mod["c"] - 1)
            want = np.eye(d + Mp.shape[0], dtype=complex)
            want[d:, d:] = Mp
            law_ok = close(M, want, 1e-8)
            law = "identity on the first %d basis states followed by the original matrix" % d
        elif mod["m"] == "power":
            e = mod["e"]
            if e[1] == 1:
                want = np.linalg.matrix_power(Mp, e[0]) if e[0] >= 0 else np.linalg.matrix_power(np.linalg.inv(Mp), -e[0])
                law_ok = close(M, want, 1e-8)
                law = "repeated product"
            else:
                law_ok = close(np.linalg.matrix_power(M, e[1]), np.linalg.matrix_power(Mp, e[0]) if e[0] >= 0 else np.linalg.inv(Mp), 1e-7)
                law = "a matrix whose %d-th power is the original" % e[1]
        elif mod["m"] == "exp":
            law_ok = close(M, scipy.linalg.expm(Mp), 1e-8)
            law = "matrix exponential"
        if not law_ok:
            # K1: the only accepted discrepancy - dagger pushed inside a fractional power of a gate with eigenvalue -1
            if mod["m"] == "dagger" and has_minus_one_under_fractional_power(c["pre"], cm) and g == build_tree(c["tree"], cm):
                out.append(("KNOWN:K1", "%s: dagger of a fractional power of a gate with eigenvalue -1 is (g^dagger)^e, not the adjoint" % desc))
            else:
                out.append(("law:" + mod["m"], "%s: matrix is not the %s of the matrix of %s" % (desc, law, chain_str(c["base"], c["chain"][:-1]))))
        # matrices a caller HOLDS: the matrix object received for this gate, then the matrix of another gate of the same shape (a
        # controlled gate for a controlled one), then the first object again - it still is this gate's matrix; and what the
        # caller does to the object it received does not change the gate
        if law_ok and mod["m"] in ("controlled", "dagger") and g.num_qubits <= 3:
            try:
                import sympy as _sp
                from orquestra.quantum.circuits import RZ as _RZ, Z as _Z

                held = g.matrix
                sib = (_Z if g.num_qubits == 1 else _RZ(0.7).controlled(g.num_qubits - 1) if g.num_qubits > 1 else _Z)
                sib_m = sib.matrix
                again = np.array(_sp.Matrix(held).evalf().tolist(), dtype=complex)
                if not close(again, M, 1e-9):
                    out.append(("held-matrix", "%s: the matrix object received for this gate changed when the matrix of %s was computed" % (desc, sib)))
                elif hasattr(held, "__setitem__"):
                    try:
                        held[0, 0] = 7
                        if not close(np_matrix(g), M, 1e-9) or not close(np_matrix(apply_chain(g0, c["chain"])), M, 1e-9):
                            out.append(("held-matrix:shared", "%s: after a caller overwrote an entry of the matrix it had received, the gate's matrix changed" % desc))
                    except TypeError:
                        pass
            except Timeout:
                raise
            except Exception as ex:
                out.append(("held-matrix:raises", "%s: %s: %s" % (desc, type(ex).__name__, str(ex)[:120])))
        # the same law at parameter values OFF the grid of the exact ring (the statement is about every real parameter): judged
        # on the implementation's own matrices, for chains short enough to stay inside the time limit
        if c["base"]["np"] > 0 and len(c["chain"]) <= 2 and law_ok:
            for og in OFFGRID[: 2 if ctx.tier == "quick" else 3]:
                kk = [float(x) for x in og]
                g0o = base_gate(c["base"], cm, kk=kk)
                preo = apply_chain(g0o, c["chain"][:-1])
                go = apply_chain(preo, c["chain"][-1:])
                try:
                    Mo, Mpo = np_matrix(go), np_matrix(preo)
                except Timeout:
                    raise
                except Exception as ex:
                    if any(m["m"] == "exp" for m in c["chain"][:-1]) and isinstance(ex, (IndexError, NotImplementedError)):
                        continue
                    out.append(("offgrid:matrix-raises", "%s at parameters %s: matrix raised %s: %s" % (desc, og[: c["base"]["np"]], type(ex).__name__, str(ex)[:150])))
                    break
                ok_, law_ = law_holds(mod, Mo, Mpo)
                if not ok_:
                    if mod["m"] == "dagger" and k1_applies_real(preo):
                        continue
                    out.append(("offgrid:law:" + mod["m"], "%s at parameters %s: matrix is not the %s of the matrix of the gate it was applied to" % (desc, og[: c["base"]["np"]], law_)))
                    break
        # the same gate reached from a base built at a SPECIAL point (all parameters 0, pi, 2 pi - where its matrix may be the identity
        # or self-adjoint) and re-parametrised to the parameters of this case: the modified gate has the same matrix
        if c["base"]["np"] > 0 and len(c["chain"]) <= 2 and law_ok:
            for start in ([0, 0, 0], [2, 2, 2], [4, 4, 4]):
                try:
                    gs = apply_chain(base_gate(c["base"], cm, kk=start).replace_params(tuple(g0.params)), c["chain"])
                    if not close(np_matrix(gs), M, 1e-8):
                        out.append(("special-start", "%s: built from the base gate at %s*pi/2 and re-parametrised, the modified gate has another matrix" % (desc, start[: c["base"]["np"]])))
                        break
                except Timeout:
                    raise
                except Exception as ex:
                    out.append(("special-start:raises", "%s from a base built at %s*pi/2: %s: %s" % (desc, start[: c["base"]["np"]], type(ex).__name__, str(ex)[:120])))
                    break
        # exact comparison with the specification's meaning for ring trees
        if c["ring"]:
            S = mat(c["sem"])
            if S.shape != M.shape or not close(M, S, 1e-8):
                out.append(("sem", "%s: matrix differs from the specification's exact matrix" % desc))
        # replacing the parameters commutes with the modifiers
        if c["base"]["np"] > 0:
            newk = c["replaced"]
            while newk["k"] != "base":
                newk = newk["a"]
            newp = tuple(newk["kk"][j] * math.pi / 2 for j in range(c["base"]["np"]))
            r1 = g.replace_params(newp)
            r2 = apply_chain(base_gate(c["base"], cm, kk=newk["kk"]), c["chain"])
            if r1 != r2:
                out.append(("replace_params", "%s.replace_params(%s) = %s, modifying the gate built with the new parameters gives %s" % (desc, newp, r1, r2)))
            elif not close(np_matrix(r1), np_matrix(r2), 1e-8):
                out.append(("replace_params:matrix", "%s.replace_params(%s) has a different matrix" % (desc, newp)))
    except Timeout:
        return [("TIMEOUT", desc)]
    finally:
        signal.alarm(0)
        signal.signal(signal.SIGALRM, old)
    return out


def run(ctx):
    quick = ctx.tier == "quick"
    runs = [("depth2", dict(MaxDepth=2, MaxQubits=3, MaxNonRing=1, Bases="<-BasesAll", Emitting=True)),
            ("depth3-ring", dict(MaxDepth=3, MaxQubits=2, MaxNonRing=0, Bases="{1, 2, 5, 8, 10}", Emitting=True)),
            ("depth3-one-nonring-X", dict(MaxDepth=3, MaxQubits=3, MaxNonRing=1, Bases="{1}", Emitting=True)),
            # exponentials of CONTROLLED fractional powers (gates on 3 qubits): of this run only the chains power(1/q) - controlled - exp are replayed
            ("root-controlled-exp", dict(MaxDepth=3, MaxQubits=3, MaxNonRing=2, Bases="{1, 8}", Emitting=True))]
    if not quick:
        runs = [("depth3", dict(MaxDepth=3, MaxQubits=4, MaxNonRing=1, Bases="<-BasesAll", Emitting=True)),
                ("depth2-two-nonring", dict(MaxDepth=2, MaxQubits=2, MaxNonRing=2, Bases="{1, 2, 5, 10, 12}", Emitting=True))]
    ctx.bounds = {name: {k: v for k, v in consts.items() if k != "Emitting"} for name, consts in runs}
    cases = []
    for name, consts in runs:
        res = ctx.tlc("Modifiers", constants=consts, invariants=INV, action_constraints=["Emit"], view="ViewNoGm", coverage=False, timeout=3000)
        for e in res.emitted:
            e["cfg"] = name
        if name == "root-controlled-exp":
            res.emitted = [e for e in res.emitted if [m_["m"] for m_ in e["chain"]] == ["power", "controlled", "exp"] and e["chain"][0]["e"][1] != 1]
            if len(res.emitted) < 4:
                raise TLCError("Modifiers/%s: only %d chains power(1/q) - controlled - exp" % (name, len(res.emitted)))
        cases += res.emitted
    if len(cases) < 500:
        raise TLCError("Modifiers exported only %d chains" % len(cases))
    seen = set()
    for c, fails in zip(cases, ctx.pmap(check_case, cases, chunksize=8)):
        desc = chain_str(c["base"], c["chain"])
        ctx.count({"k": "chain", "gate": desc, "ring": c["ring"]}, nontrivial=desc not in seen, kind=c["cfg"])
        seen.add(desc)
        for key, msg in fails:
            if key == "TIMEOUT":
                ctx.not_evaluated += 1
            elif key.startswith("KNOWN:"):
                ctx.known(key[6:], msg)
            else:
                ctx.violation(key, msg, c)
    ctx.judged_numerically += ["FractionalPowerIsRoot: (g.power(1/q).matrix)^q = g.matrix, evaluated on the implementation's floats", "ExpIsMatrixExponential: compared with scipy.linalg.expm of the implementation's matrix of the wrapped gate"]
    ctx.assumptions.append("sympy matrix powers / exponentials run under a per-case limit (6 s quick, 25 s thorough); cases over the limit are counted as not evaluated")


def replay(ctx, case):
    ctx.count({"k": "chain", "gate": chain_str(case["base"], case["chain"])})
    for key, msg in check_case(ctx, case):
        if key.startswith("KNOWN:"):
            ctx.known(key[6:], msg)
        elif key != "TIMEOUT":
            ctx.violation(key, msg, case)
