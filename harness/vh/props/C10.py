"""C10 - statistics computed from measurements are the exact sample statistics.

spec: Stats.tla (rationals).  TLC: ProductOfEigenvaluesIsSymDiff (ASSUME), MechanismEqualsDefinition for
means / correlations / both covariance denominators, constants, counts, tallies - on every sequence of
<= MaxShots shots and every operator of the pool.  spec->code: every state's statistics are replayed through
Measurements / parities with 1e-12 comparison against the exact rationals.  code->spec: sample sets actually
returned by the simulator, with the statistics the library computed, are validated by StatsTrace."""
import json
import os
import random
from fractions import Fraction

import numpy as np

from ..tlc import TLCError

# violation keys of behaviour modelled beyond the statement of the property (reported, never an alarm)
BEYOND = ("from-parities:", "concatenate:")
INV = ["MechanismEqualsDefinition", "ConstantContributesCoefficient", "CountsSumToShots", "TalliesSumToShots", "PairTalliesAreProductTallies", "MeanFromTallies", "ComplementLaw", "TallyValueIsMean", "PrecisionBounded", "EmitStats"]


def fr(q):
    return Fraction(q[0], q[1])


def real_op(op, ints=False):
    """ints: coefficients that are whole numbers are given as Python ints (an operator may be typed that way by a caller)"""
    from orquestra.quantum.operators import PauliSum, PauliTerm

    def coef(c):
        f = fr(c)
        return int(f) if ints and f.denominator == 1 else float(f)

    return PauliSum([PauliTerm({q: "Z" for q in t["sup"]}, coef(t["c"])) for t in op])


def check_case(ctx, c):
    from orquestra.quantum.measurements import Measurements, get_expectation_value_from_frequencies, get_parities_from_measurements
    from orquestra.quantum.measurements.parities import check_parity, check_parity_of_vector

    out = []
    shots = [tuple(t) for t in c["stats"]]
    N = len(shots)
    op = real_op(c["op"])
    desc = "shots %s, operator %s" % (shots, op)
    m = Measurements(list(shots))
    tol = 1e-12
    try:
        ev = m.get_expectation_values(op)
    except Exception as ex:
        return [("raised", "%s: get_expectation_values raised %r" % (desc, ex))]
    k = len(c["op"])
    means = [float(fr(x)) for x in c["means"]]
    if len(ev.values) != k or any(abs(complex(ev.values[i]) - means[i]) > tol for i in range(k)):
        out.append(("means", "%s: expectation values %s, sample statistics %s" % (desc, list(ev.values), means)))
    corr = np.array([[float(fr(x)) for x in row] for row in c["corr"]])
    cov = np.array([[float(fr(x)) for x in row] for row in c["cov"]])
    if np.max(np.abs(np.asarray(ev.correlations[0]) - corr)) > tol:
        out.append(("correlations", "%s: correlations %s, sample means of products %s" % (desc, np.asarray(ev.correlations[0]).real.tolist(), corr.tolist())))
    if np.max(np.abs(np.asarray(ev.estimator_covariances[0]) - cov)) > tol:
        out.append(("covariances", "%s: covariances %s, (corr - mean*mean)/N = %s" % (desc, np.asarray(ev.estimator_covariances[0]).real.tolist(), cov.tolist())))
    if all(fr(t["c"]).denominator == 1 for t in c["op"]):
        evi = m.get_expectation_values(real_op(c["op"], ints=True))
        if (
            any(abs(complex(evi.values[i]) - means[i]) > tol for i in range(k))
            or np.max(np.abs(np.asarray(evi.correlations[0]) - corr)) > tol
            or np.max(np.abs(np.asarray(evi.estimator_covariances[0]) - cov)) > tol
        ):
            out.append(("int-coefficients", "%s with the coefficients given as Python ints: values %s correlations %s covariances %s, specification %s / %s / %s" % (desc, list(evi.values), np.asarray(evi.correlations[0]).real.tolist(), np.asarray(evi.estimator_covariances[0]).real.tolist(), means, corr.tolist(), cov.tolist())))
    if N >= 2:
        covb = np.array([[float(fr(x)) for x in row] for row in c["covb"]])
        evb = m.get_expectation_values(op, use_bessel_correction=True)
        if np.max(np.abs(np.asarray(evb.estimator_covariances[0]) - covb)) > tol:
            out.append(("covariances:bessel", "%s: Bessel covariances %s, (corr - mean*mean)/(N-1) = %s" % (desc, np.asarray(evb.estimator_covariances[0]).real.tolist(), covb.tolist())))
        if np.max(np.abs(np.asarray(evb.values) - np.array(means))) > tol:
            out.append(("means:bessel", "%s: Bessel flag changed the expectation values" % desc))
    # the operator handed over as a bare PauliTerm (the argument is a PauliRepresentation): one value, 1x1 frames
    from orquestra.quantum.operators import PauliTerm

    for i, t in enumerate(c["op"]):
        bare = PauliTerm({q: "Z" for q in t["sup"]}, float(fr(t["c"])))
        try:
            evt = m.get_expectation_values(bare)
            vals = [complex(v) for v in np.asarray(evt.values).reshape(-1)]
            c0 = np.asarray(evt.correlations[0]).astype(complex)
            v0 = np.asarray(evt.estimator_covariances[0]).astype(complex)
        except Exception as ex:
            out.append(("bare-term:raised", "%s: get_expectation_values(%s) (a bare PauliTerm) raised %r" % (desc, bare, ex)))
            continue
        if len(vals) != 1 or abs(vals[0] - means[i]) > tol or c0.shape != (1, 1) or abs(c0[0, 0] - corr[i, i]) > tol or v0.shape != (1, 1) or abs(v0[0, 0] - cov[i, i]) > tol:
            out.append(("bare-term", "%s: for the bare term %s: values %s correlations %s covariances %s, sample statistics %s / %s / %s" % (desc, bare, vals, c0.tolist(), v0.tolist(), means[i], corr[i, i], cov[i, i])))
        part = get_parities_from_measurements(list(shots), bare)
        if np.asarray(part.values).tolist() != [list(c["tallies"][i])]:
            out.append(("bare-term:parities", "%s: parity tallies of the bare term %s are %s, specification %s" % (desc, bare, np.asarray(part.values).tolist(), [list(c["tallies"][i])])))
    # counts / distribution
    counts = m.get_counts()
    want = {"".join(map(str, e["t"])): e["n"] for e in c["counts"]}
    if counts != want:
        out.append(("counts", "%s: counts %s, specification %s" % (desc, counts, want)))
    if sum(counts.values()) != N:
        out.append(("counts:sum", "%s: counts sum to %d" % (desc, sum(counts.values()))))
    back = Measurements.from_counts(counts)
    if back.get_counts() != counts or len(back.bitstrings) != N or sorted(back.bitstrings) != sorted(shots):
        out.append(("from_counts", "%s: from_counts(get_counts()) gives %s" % (desc, back.bitstrings)))
    m2 = Measurements(list(shots))
    m2.add_counts(counts)
    if m2.get_counts() != {k_: 2 * v for k_, v in counts.items()}:
        out.append(("add_counts", "%s: add_counts does not add the histogram" % desc))
    dist = {"".join(map(str, k_)): v for k_, v in m.get_distribution().distribution_dict.items()}
    if set(dist) != set(want) or any(abs(dist[k_] - want[k_] / N) > tol for k_ in want):
        out.append(("distribution", "%s: empirical distribution %s, counts/N %s" % (desc, dist, {k_: v / N for k_, v in want.items()})))
    # parities
    par = get_parities_from_measurements(list(shots), op)
    tallies = [list(t) for t in c["tallies"]]
    if np.asarray(par.values).tolist() != tallies:
        out.append(("parities", "%s: parity tallies %s, specification %s" % (desc, np.asarray(par.values).tolist(), tallies)))
    pt = np.array(c["pairtallies"], dtype=float)
    gotpt = np.asarray(par.correlations[0], dtype=float) if par.correlations else None
    if gotpt is None or gotpt.shape != pt.shape or np.max(np.abs(gotpt - pt)) > 0:
        out.append(("parities:pairs", "%s: tallies of pairs of terms %s, shots with equal / different parity %s" % (desc, None if gotpt is None else gotpt.tolist(), pt.tolist())))
    # expectation values recomputed from the tallies (few samples, and the same tallies scaled to many samples), concatenation
    from orquestra.quantum.measurements import Parities, concatenate_expectation_values, get_expectation_values_from_parities

    for scale, key in ((1, "p1"), (60, "p60")):
        ev2 = get_expectation_values_from_parities(Parities(np.array(tallies) * scale))
        wantv = [float(fr(x["v"])) for x in c["fromtally"]]
        wantp = [float(fr(x[key])) for x in c["fromtally"]]
        gotp = [float(np.asarray(m_).reshape(-1)[0]) for m_ in ev2.estimator_covariances]
        if len(ev2.values) != len(wantv) or any(abs(a - b) > tol for a, b in zip(ev2.values, wantv)):
            out.append(("from-parities:values", "%s: values from tallies x%d %s, specification %s" % (desc, scale, list(ev2.values), wantv)))
        if len(gotp) != len(wantp) or any(abs(a - b) > 1e-12 for a, b in zip(gotp, wantp)):
            out.append(("from-parities:precision", "%s: squared precisions from tallies x%d %s, specification %s" % (desc, scale, gotp, wantp)))
    ev_a = m.get_expectation_values(op)
    ev_b = get_expectation_values_from_parities(Parities(np.array(tallies)))
    cat = concatenate_expectation_values([ev_a, ev_b, ev_a])
    if list(cat.values) != list(ev_a.values) + list(ev_b.values) + list(ev_a.values):
        out.append(("concatenate:values", "%s: concatenated values %s" % (desc, list(cat.values))))
    nfr = lambda x: len(x or [])
    if nfr(cat.correlations) != 2 * nfr(ev_a.correlations) + nfr(ev_b.correlations) or nfr(cat.estimator_covariances) != 2 * nfr(ev_a.estimator_covariances) + nfr(ev_b.estimator_covariances):
        out.append(("concatenate:frames", "%s: concatenation has %d correlation / %d covariance frames" % (desc, nfr(cat.correlations), nfr(cat.estimator_covariances))))
    elif cat.estimator_covariances and not (np.array_equal(cat.estimator_covariances[0], ev_a.estimator_covariances[0]) and np.array_equal(cat.estimator_covariances[-1], ev_a.estimator_covariances[-1])):
        out.append(("concatenate:order", "%s: covariance frames are not concatenated in order" % desc))
    if len(ev_a.values) != len(c["op"]) or nfr(ev_a.correlations) != 1:
        out.append(("concatenate:mutated", "%s: concatenation modified its first argument" % desc))
    # histograms that share their outcome SET but not their insertion order, and ONE dictionary object that is refilled
    # in place with a histogram of the same size (the complemented outcomes: each eigenvalue gains the sign (-1)^|support|,
    # Stats!ComplementLaw) - the value must be the sample mean of the histogram that is passed, whatever was passed before
    items = list(counts.items())
    if len(items) >= 2:
        rev = dict(reversed(items))
        buf = dict(items)
        flip = {"".join("1" if ch == "0" else "0" for ch in k_): v for k_, v in items}
        for i, t in enumerate(c["op"]):
            wantf = (tallies[i][0] - tallies[i][1]) / N
            a = get_expectation_value_from_frequencies(t["sup"], dict(items))
            b = get_expectation_value_from_frequencies(t["sup"], rev)
            d0 = get_expectation_value_from_frequencies(t["sup"], buf)
            buf.clear()
            buf.update(flip)
            d1 = get_expectation_value_from_frequencies(t["sup"], buf)
            buf.clear()
            buf.update(items)
            sgn = -1 if len(t["sup"]) % 2 else 1
            if abs(a - wantf) > tol or abs(b - wantf) > tol or abs(d0 - wantf) > tol or abs(d1 - sgn * wantf) > tol:
                out.append(("from-frequencies:history", "%s: expectation from frequencies on %s: %s in listed order, %s with the same outcomes inserted in reverse order, %s / %s on one dictionary object before / after it was refilled with the complemented outcomes; sample means %s, %s, %s, %s" % (desc, t["sup"], a, b, d0, d1, wantf, wantf, wantf, sgn * wantf)))
        mrev = Measurements.from_counts(rev)
        evr = mrev.get_expectation_values(op)
        if any(abs(complex(evr.values[i]) - means[i]) > tol for i in range(k)) or np.max(np.abs(np.asarray(evr.correlations[0]) - corr)) > tol:
            out.append(("means:reordered", "%s: the same histogram listed in reverse order gives values %s / correlations %s, sample statistics %s / %s" % (desc, list(evr.values), np.asarray(evr.correlations[0]).real.tolist(), means, corr.tolist())))
    # the marked qubits are an Iterable: a generator / iterator / tuple / set say the same thing as a list
    for i, t in enumerate(c["op"]):
        wantf = (tallies[i][0] - tallies[i][1]) / N
        for how, mk in (("generator", lambda: (q for q in t["sup"])), ("iterator", lambda: iter(list(t["sup"]))), ("tuple", lambda: tuple(t["sup"])), ("set", lambda: set(t["sup"]))):
            try:
                fv = get_expectation_value_from_frequencies(mk(), counts)
            except Exception as ex:
                out.append(("from-frequencies:iterable", "%s: marked qubits %s given as a %s: %s: %s" % (desc, t["sup"], how, type(ex).__name__, str(ex)[:120])))
                continue
            if abs(fv - wantf) > tol:
                out.append(("from-frequencies:iterable", "%s: marked qubits %s given as a %s: %s, sample mean %s" % (desc, t["sup"], how, fv, wantf)))
    # a histogram that is refused (if the library refuses it at all: keys of another width, not listed first) leaves the set as it was
    m3 = Measurements(list(shots))
    bad = {"".join(map(str, shots[0])): 2, "0" * (len(shots[0]) + 1): 1}
    before3 = list(m3.bitstrings)
    try:
        m3.add_counts(bad)
    except Exception:
        if list(m3.bitstrings) != before3:
            out.append(("add_counts:half-done", "%s: add_counts(%s) raised, but %d shot(s) of the refused histogram stayed in the measurement set" % (desc, bad, len(m3.bitstrings) - len(before3))))
    for i, t in enumerate(c["op"]):
        f = get_expectation_value_from_frequencies(t["sup"], counts)
        if abs(f - (tallies[i][0] - tallies[i][1]) / N) > tol:
            out.append(("from-frequencies", "%s: expectation from frequencies on %s = %s, tallies %s" % (desc, t["sup"], f, tallies[i])))
        for s in shots[:2]:
            even = sum(s[q] for q in t["sup"]) % 2 == 0
            if bool(check_parity(s, t["sup"])) != even or bool(check_parity("".join(map(str, s)), t["sup"])) != even:
                out.append(("check_parity", "check_parity(%s, %s) wrong" % (s, t["sup"])))
            if t["sup"] and bool(check_parity_of_vector(np.array([s]), t["sup"])[0]) != even:
                out.append(("check_parity_of_vector", "check_parity_of_vector(%s, %s) wrong" % (s, t["sup"])))
    return out


def check_history(ctx, h):
    """ONE Measurements object lives through the whole behaviour shots[1..n] of the specification: statistics are read in
    every state (they may be cached), shots arrive through add_counts one at a time or through the bitstring list"""
    from orquestra.quantum.measurements import Measurements

    out = []
    states = h["states"]  # the specification's state after 1, 2, ... shots (statistics included)
    op = real_op(h["op"])
    for mode in ("add_counts", "append", "bulk-then-add"):
        m = Measurements()
        hist = []
        for n, c in enumerate(states, start=1):
            shot = tuple(c["stats"][-1])
            text = "".join(map(str, shot))
            if mode == "add_counts" or (mode == "bulk-then-add" and n > 1):
                m.add_counts({text: 1})
                hist.append("add_counts({%r: 1})" % text)
            else:
                m.bitstrings.append(shot) if mode == "append" else m.add_counts({text: 1})
                hist.append("bitstrings.append(%s)" % (shot,))
            want = {"".join(map(str, e["t"])): e["n"] for e in c["counts"]}
            desc = "one Measurements object after [%s]" % ", ".join(hist)
            counts = m.get_counts()
            if counts != want or sum(counts.values()) != n or len(m.bitstrings) != n:
                out.append(("history:counts", "%s: counts %s, specification %s" % (desc, counts, want)))
                break
            dist = {"".join(map(str, k_)): v for k_, v in m.get_distribution().distribution_dict.items()}
            if set(dist) != set(want) or any(abs(dist[k_] - want[k_] / n) > 1e-12 for k_ in want):
                out.append(("history:distribution", "%s: empirical distribution %s, counts/N %s" % (desc, dist, {k_: v / n for k_, v in want.items()})))
                break
            ev = m.get_expectation_values(op)
            means = [float(fr(x)) for x in c["means"]]
            corr = np.array([[float(fr(x)) for x in row] for row in c["corr"]])
            if any(abs(complex(ev.values[i]) - means[i]) > 1e-12 for i in range(len(means))) or np.max(np.abs(np.asarray(ev.correlations[0]) - corr)) > 1e-12:
                out.append(("history:expectation", "%s: expectation values %s / correlations %s, specification %s / %s" % (desc, list(ev.values), np.asarray(ev.correlations[0]).real.tolist(), means, corr.tolist())))
                break
            if m.get_counts() != want:
                out.append(("history:counts-after-read", "%s: reading statistics changed the counts" % desc))
                break
        else:
            # the caller edits the LAST shot in place (same length): every statistic is the statistic of the shots the object holds
            # now - the specification's state for the edited sequence
            alt = h.get("alt")
            if alt is not None and mode != "add_counts":
                m.bitstrings[-1] = tuple(alt["stats"][-1])
                desc = "one Measurements object after [%s, bitstrings[-1] = %s]" % (", ".join(hist), tuple(alt["stats"][-1]))
                want = {"".join(map(str, e["t"])): e["n"] for e in alt["counts"]}
                n = len(alt["stats"])
                counts = m.get_counts()
                means = [float(fr(x)) for x in alt["means"]]
                corr = np.array([[float(fr(x)) for x in row] for row in alt["corr"]])
                ev = m.get_expectation_values(op)
                dist = {"".join(map(str, k_)): v for k_, v in m.get_distribution().distribution_dict.items()}
                if counts != want:
                    out.append(("history:edited:counts", "%s: counts %s, specification %s" % (desc, counts, want)))
                elif set(dist) != set(want) or any(abs(dist[k_] - want[k_] / n) > 1e-12 for k_ in want):
                    out.append(("history:edited:distribution", "%s: empirical distribution %s, counts/N %s" % (desc, dist, {k_: v / n for k_, v in want.items()})))
                elif any(abs(complex(ev.values[i]) - means[i]) > 1e-12 for i in range(len(means))) or np.max(np.abs(np.asarray(ev.correlations[0]) - corr)) > 1e-12:
                    out.append(("history:edited:expectation", "%s: expectation values %s / correlations %s, specification %s / %s" % (desc, list(ev.values), np.asarray(ev.correlations[0]).real.tolist(), means, corr.tolist())))
    return out


def record_traces(ctx, path, n):
    """tuples actually returned by the simulator + the statistics the library computed from them"""
    from orquestra.quantum.circuits import CNOT, RY, Circuit, H, X
    from orquestra.quantum.measurements import get_parities_from_measurements
    from orquestra.quantum.operators import PauliSum, PauliTerm
    from orquestra.quantum.runners.symbolic_simulator import SymbolicSimulator

    rng = random.Random(ctx.seed + 3)
    events = []

    def rat(x):
        f = Fraction(float(np.real(x))).limit_denominator(10**6)
        return [f.numerator, f.denominator]

    for i in range(n):
        w = rng.choice([2, 3])
        ops = []
        for _ in range(rng.randint(1, 4)):
            g = rng.choice(["H", "X", "RY", "CNOT"])
            q = rng.randrange(w)
            if g == "CNOT":
                r = rng.choice([x for x in range(w) if x != q])
                ops.append(CNOT(q, r))
            elif g == "RY":
                ops.append(RY(rng.choice([0.7, 1.9, 2.4]))(q))
            else:
                ops.append({"H": H, "X": X}[g](q))
        circ = Circuit(ops, n_qubits=w)
        sim = SymbolicSimulator(seed=ctx.seed + i)
        ns = rng.randint(1, 6)
        ms = sim.run_and_measure(circ, ns)
        terms = []
        for _ in range(rng.randint(1, 3)):
            sup = sorted(rng.sample(range(w), rng.randint(0, w)))
            c = rng.choice([Fraction(1), Fraction(-1), Fraction(2), Fraction(1, 2), Fraction(3)])
            terms.append({"sup": sup, "c": [c.numerator, c.denominator]})
        op = real_op(terms)
        ev = ms.get_expectation_values(op)
        par = get_parities_from_measurements(ms.bitstrings, op)
        cnt = ms.get_counts()
        events.append({
            "shots": [[int(b) for b in t] for t in ms.bitstrings],
            "op": terms,
            "means": [rat(v) for v in ev.values],
            "corr": [[rat(v) for v in row] for row in np.asarray(ev.correlations[0])],
            "cov": [[rat(v) for v in row] for row in np.asarray(ev.estimator_covariances[0])],
            "tallies": [[int(a), int(b)] for a, b in np.asarray(par.values).tolist()],
            "counts": [{"t": [int(ch) for ch in k], "n": int(v)} for k, v in cnt.items()],
            "w": w,
        })
    by_w = {}
    for e in events:
        by_w.setdefault(e["w"], []).append(e)
    return by_w


def run(ctx):
    quick = ctx.tier == "quick"
    ctx.bounds = {"W=2": "all sequences of <= 3 shots, all ordered pairs of supports x 3 coefficient pairs", "W=3": "all sequences of <= %d shots, 25 operators" % (3 if quick else 4)}
    cases = []
    for w, ms, ops in ((2, 3, "<-OperatorsPairs"), (3, 3 if quick else 4, "<-OperatorsSmall")):
        res = ctx.tlc("Stats", constants=dict(W=w, MaxShots=ms, Operators=ops, Emitting=True), invariants=INV, coverage=False, timeout=3000)
        st = [e for e in res.emitted if "stats" in e]
        if len(st) < 100:
            raise TLCError("Stats exported only %d states" % len(st))
        cases += st
    for c, fails in zip(cases, ctx.pmap(check_case, cases, chunksize=64)):
        ctx.count({"k": "stats", "shots": c["stats"], "op": c["op"]}, kind="W=%d" % len(c["stats"][0]))
        for key, msg in fails:
            ctx.violation(key, msg, c)
    # behaviours on ONE persistent object: every maximal shot sequence of the specification, with the states along it
    index = {json.dumps([c["stats"], c["op"]], sort_keys=True): c for c in cases}
    hists = []
    for c in cases:
        if len(c["stats"]) >= 3:
            states = [index.get(json.dumps([c["stats"][:n], c["op"]], sort_keys=True)) for n in range(1, len(c["stats"]) + 1)]
            if all(x is not None for x in states) and len(set(map(tuple, c["stats"]))) < len(c["stats"]):   # some outcome repeats
                flipped = [1 - b for b in c["stats"][-1]]
                alt = index.get(json.dumps([c["stats"][:-1] + [flipped], c["op"]], sort_keys=True))
                hists.append({"k": "history", "op": c["op"], "states": states, "alt": alt})
    rng = random.Random(ctx.seed + 11)
    hists.sort(key=lambda h: json.dumps([h["op"], h["states"][-1]["stats"]], sort_keys=True))     # TLC's emission order varies
    if len(hists) > (1500 if quick else 15000):
        hists = rng.sample(hists, 1500 if quick else 15000)
    if len(hists) < 200:
        raise TLCError("only %d behaviours with a repeated outcome assembled" % len(hists))
    for h, fails in zip(hists, ctx.pmap(check_history, hists, chunksize=32)):
        ctx.count({"k": "history", "shots": h["states"][-1]["stats"], "op": h["op"]}, kind="behaviour on one persistent object")
        for key, msg in fails:
            ctx.violation(key, msg, h)
    by_w = record_traces(ctx, ctx.tmp, 150 if quick else 1500)
    for w, events in sorted(by_w.items()):
        path = os.path.join(ctx.tmp, "stats-%d.ndjson" % w)
        # the binding must bite: a CANARY record (a recorded sample set whose first reported mean is off by one shot) has to be rejected
        import copy

        can = copy.deepcopy(next(e for e in events if e["shots"]))
        can["canary"] = True
        nsh = len(can["shots"])
        can["means"][0] = [can["means"][0][0] * nsh + 2 * can["means"][0][1], can["means"][0][1] * nsh]
        events = list(events) + [can]
        with open(path, "w") as f:
            for e in events:
                f.write(json.dumps({k_: v_ for k_, v_ in e.items() if k_ != "canary"}) + "\n")
        tr = ctx.tlc("StatsTrace", init="TInit", next_="TNext", constants=dict(W=w, MaxShots=99, Operators="<-OperatorsSmall", Emitting=False), workers=1, env={"TRACE_FILE": path}, coverage=False, timeout=1200)
        if tr.distinct < len(events):
            raise TLCError("StatsTrace consumed %d of %d lines" % (tr.distinct, len(events)))
        rej = [e for e in tr.emitted if "reject" in e]
        if not any(events[rj["reject"] - 1].get("canary") for rj in rej):
            raise TLCError("binding self-test failed: StatsTrace accepted the canary record (a mean that is off by 2/N)")
        ctx.by_kind["canary records rejected by the trace specification"] = ctx.by_kind.get("canary records rejected by the trace specification", 0) + 1
        rej = [rj for rj in rej if not events[rj["reject"] - 1].get("canary")]
        events = events[:-1]
        for rj in rej:
            e = events[rj["reject"] - 1]
            ctx.violation("trace:" + ",".join(sorted(rj["failed"])), "StatsTrace rejects a recorded sample set: %s do not equal the sample statistics\n %s" % (sorted(rj["failed"]), json.dumps(e)[:800]), {"k": "trace", "event": e})
        ctx.traces_validated += len(events) - len(rej)
    ctx.assumptions.append("Bessel's correction with a single shot is excluded (the docstring says it diverges)")


def replay(ctx, case):
    if case.get("k") == "trace":
        by_w = record_traces(ctx, ctx.tmp, 150)
        ctx.count({"k": "traces"})
        return
    if case.get("k") == "history":
        ctx.count({"k": "history"})
        for key, msg in check_history(ctx, case):
            ctx.violation(key, msg, case)
        return
    ctx.count({"k": "stats", "shots": case["stats"]})
    for key, msg in check_case(ctx, case):
        ctx.violation(key, msg, case)
