"""C09 - operator-to-matrix conversions agree with the operator's definition.

spec: Pauli.tla (C09 part): Denote (tensor-product definition) vs SparseMech (Kronecker chain with identity
gaps), ConjV, IsHermV, FromMatrix (trace-product mechanism) on every matrix unit, ReverseV, QuadForm.
spec->code: each exported transition replayed through get_sparse_operator / hermitian_conjugated /
is_hermitian / get_pauliop_from_matrix / reverse_qubit_order / get_expectation_value / expectation."""
import random

import numpy as np

from .. import pauli_common as pc
from ..bridge import close, mat, ring, vec
from ..common import Snap
from ..tlc import TLCError

# violation keys of behaviour modelled beyond the statement of the property (reported, never an alarm)
BEYOND = ("circuit:", "fromlabels:", "evaluate:")
INV = ["SparseIsDefinition", "HermConjIsAdjoint", "IsHermitianIffMatrixIs", "MatrixPauliRoundTrip", "ReverseIsBitReversal", "ExpectationIsQuadraticForm", "TermCircuitIsString", "MatrixOfOperatorRoundTrip", "FromLabelsDenotes", "EvaluateIsExpectation"]


def state_k(k, nq):
    d = 2**nq
    v = np.zeros(d, dtype=complex)
    s = np.sqrt(0.5)
    if k == 1:
        v[0] = 1
    elif k == 2:
        v[d - 1] = 1j
    elif k == 3:
        v[0] = s
        v[d - 1] = 1j * s
    elif k == 4:
        v[1] = s
        v[2] = -s
    else:
        v[:4] = [0.5, 0.5j, -0.5, 0.5]
    return v


def check_case(ctx, c, nq):
    from orquestra.quantum.operators import get_expectation_value, get_sparse_operator, hermitian_conjugated, is_hermitian, reverse_qubit_order
    from orquestra.quantum.operators._utils import get_pauliop_from_matrix
    from orquestra.quantum.operators._openfermion_utils.sparse_tools import expectation
    from orquestra.quantum.wavefunction import Wavefunction

    out = []
    op = c["op"]
    style = (len(c["x"]["ts"]) + c["k"]) % 3
    x = pc.operand_real(c["x"], style)
    desc = "%s(%s%s)" % (op, pc.show(c["x"]), ", %d" % c["k"] if op in ("sparse", "reverse", "expect", "frommatrix", "evaluate") else "")
    snap = Snap([x])
    try:
        if op == "circuit":
            from .. import circ_common as cc_
            from orquestra.quantum.operators import PauliSum

            term = x.terms[0] if isinstance(x, PauliSum) else x
            circ = term.circuit
            want = mat(c["m"])
            if circ.n_qubits != c["k"]:
                out.append(("circuit:width", "%s: the term's circuit has %d qubits, the term %d" % (desc, circ.n_qubits, c["k"])))
            else:
                got = cc_.to_np(circ.to_unitary())
                if not close(got, want):
                    out.append(("circuit:matrix", "%s: the term's circuit does not act as its Pauli string" % desc))
            if term.circuit is not circ or [str(o) for o in term.circuit.operations] != [str(o) for o in circ.operations]:
                out.append(("circuit:unstable", "%s: asking for the circuit twice gives different circuits" % desc))
        elif op == "fromlabels":
            from orquestra.quantum.operators._utils import get_pauliop_from_coeffs_and_labels

            code = {"I": 0, "X": 1, "Y": 2, "Z": 3}
            coeffs = [pc.pycoef(t["c"], style + i) for i, t in enumerate(c["x"]["ts"])]
            labels = [[code[o] for o in t["ops"]] for t in c["x"]["ts"]]
            r = get_pauliop_from_coeffs_and_labels(coeffs, labels)
            if not pc.canon_close(pc.canon_real(r), pc.canon_abstract(c["res"])):
                out.append(("fromlabels:value", "get_pauliop_from_coeffs_and_labels(%s, %s) = %r, specification %s" % (coeffs, labels, r, pc.show(c["res"]))))
            elif len(set(frozenset(t._ops.items()) for t in r.terms)) != len(r.terms):
                out.append(("fromlabels:simplified", "get_pauliop_from_coeffs_and_labels(%s, %s) = %r keeps like terms apart" % (coeffs, labels, r)))
        elif op == "evaluate":
            from orquestra.quantum.measurements import ExpectationValues
            from orquestra.quantum.operators import PauliTerm
            from orquestra.quantum.operators._utils import evaluate_operator, evaluate_operator_list

            st = state_k(c["k"], nq)
            vals = [complex(get_expectation_value(PauliTerm(dict(t._ops), 1.0), Wavefunction(st))) for t in x.terms]
            want_vals = [ring(v) for v in c["m"][0]]
            if any(abs(a - b) > 1e-9 for a, b in zip(vals, want_vals)):
                out.append(("evaluate:term-values", "%s: exact expectation values of the terms %s, specification %s" % (desc, vals, want_vals)))
            else:
                want = ring(c["res"]["ts"][0]["c"]).real
                ev_ = ExpectationValues(np.array([v.real for v in vals]))
                got = evaluate_operator(x, ev_)
                half = max(1, len(x.terms) // 2)
                from orquestra.quantum.operators import PauliSum

                parts = [PauliSum(list(x.terms[:half])), PauliSum(list(x.terms[half:]))] if pc.kind_of(x) == "sum" else [x]
                got_list = evaluate_operator_list(parts, ev_)
                if abs(float(got) - want) > 1e-9 or abs(float(got_list) - want) > 1e-9:
                    out.append(("evaluate:value", "%s: evaluate_operator = %s, evaluate_operator_list (two parts) = %s, Re <psi|op|psi> = %s" % (desc, float(got), float(got_list), want)))
        elif op == "sparse":
            n = c["k"]
            got = get_sparse_operator(x, n).toarray()
            want = mat(c["m"])
            if got.shape != want.shape or not close(got, want):
                out.append(("sparse", "%s on %d qubits is not the tensor-product definition\n got %s\nwant %s" % (desc, n, np.round(got, 6).tolist(), np.round(want, 6).tolist())))
            if n == getattr(x, "n_qubits", None):
                got2 = get_sparse_operator(x).toarray()
                if not close(got2, want):
                    out.append(("sparse:default-width", "%s with default width differs from the definition" % desc))
            # the SAME operator object converted again on other register widths, then on the first one again: every
            # conversion is the tensor-product definition on the width that was asked for (numpy.kron as the second oracle)
            for n2 in (n + 1, n, n + 2, n):
                g2 = get_sparse_operator(x, n2).toarray()
                w2 = pc.dense_real(x, n2)
                if g2.shape != w2.shape or not close(g2, w2):
                    out.append(("sparse:history", "%s: the same operator object converted on %d qubits after it had been converted on %d is not the tensor-product definition" % (desc, n2, n)))
                    break
            if pc.kind_of(x) == "sum" and len(x.terms) >= 1:
                # a term object of the sum used on its own on a wider register, then the sum again
                t0 = x.terms[-1]
                g3 = get_sparse_operator(t0, n + 1).toarray()
                if not close(g3, pc.dense_real(t0, n + 1)) or not close(get_sparse_operator(x, n).toarray(), want):
                    out.append(("sparse:history:term", "%s: converting the sum's last term object on %d qubits (or the sum again afterwards) is not the tensor-product definition" % (desc, n + 1)))
        elif op == "conj":
            r = hermitian_conjugated(x)
            if not pc.canon_close(pc.canon_real(r), pc.canon_abstract(c["res"])):
                out.append(("conj", "%s = %r, specification %s" % (desc, r, pc.show(c["res"]))))
            if not close(pc.dense_real(r, nq), pc.dense_real(x, nq).conj().T):
                out.append(("conj:matrix", "%s does not denote the conjugate transpose" % desc))
        elif op == "isherm":
            r = is_hermitian(x)
            d = pc.dense_real(x, nq)
            if bool(r) != bool(c["b"]):
                out.append(("isherm:spec", "%s = %s, specification %s" % (desc, r, c["b"])))
            simp = pc.kind_of(x) != "sum" or (len(set(frozenset(t._ops.items()) for t in x.terms)) == len(x.terms) and all(abs(t.coefficient) > 1e-8 for t in x.terms))
            if simp and bool(r) != close(d, d.conj().T):
                out.append(("isherm:matrix", "%s = %s but the matrix %s Hermitian" % (desc, r, "is" if close(d, d.conj().T) else "is not")))
        elif op == "reverse":
            n = c["k"]
            r = reverse_qubit_order(x, n)
            if not pc.canon_close(pc.canon_real(r), pc.canon_abstract(c["res"])):
                out.append(("reverse", "%s = %r, specification %s" % (desc, r, pc.show(c["res"]))))
            rr = reverse_qubit_order(r, n)
            if not pc.canon_close(pc.canon_real(rr), pc.canon_real(x if pc.kind_of(x) != "sum" else x.simplify())):
                out.append(("reverse:twice", "%s reversed twice gives %r" % (desc, rr)))
            if n == x.n_qubits:
                r0 = reverse_qubit_order(x)
                if not pc.canon_close(pc.canon_real(r0), pc.canon_abstract(c["res"])):
                    out.append(("reverse:default-width", "%s with default width = %r" % (desc, r0)))
        elif op == "expect":
            st = state_k(c["k"], nq)
            want = ring(c["m"][0][0])
            got = get_expectation_value(x, Wavefunction(st))
            got2 = expectation(get_sparse_operator(x, nq), st)
            got3 = expectation(get_sparse_operator(x, nq), st.reshape(-1, 1))
            for g, nm in ((got, "get_expectation_value"), (got2, "expectation"), (got3, "expectation(column)")):
                if abs(complex(g) - want) > 1e-9:
                    out.append(("expect", "%s: %s = %s, quadratic form %s" % (desc, nm, g, want)))
        elif op == "matrixof":
            m = mat(c["m"])
            r = get_pauliop_from_matrix(m.tolist())
            if not close(pc.dense_real(r, nq), m):
                out.append(("matrixof:roundtrip", "%s: the matrix of the operator (%s), expanded in the Pauli basis and converted back, is not reproduced: %r" % (desc, "Hermitian" if close(m, m.conj().T) else "not Hermitian", r)))
            elif not pc.canon_close(pc.canon_real(r), pc.canon_abstract(c["res"])):
                out.append(("matrixof", "%s = %r, specification %s" % (desc, r, pc.show(c["res"]))))
        elif op == "frommatrix":
            d = 2**nq
            k = c["k"] - 1
            m = [[0.0] * d for _ in range(d)]
            m[k // d][k % d] = 1.0
            r = get_pauliop_from_matrix(m)
            if not pc.canon_close(pc.canon_real(r), pc.canon_abstract(c["res"])):
                out.append(("frommatrix", "%s = %r, specification %s" % (desc, r, pc.show(c["res"]))))
            if not close(pc.dense_real(r, nq), np.array(m, dtype=complex)):
                out.append(("frommatrix:roundtrip", "%s converted back does not reproduce the matrix unit" % desc))
            return out
    except Exception as ex:
        return out + [((op + ":raised") if op in ("circuit", "fromlabels", "evaluate") else ("raised:" + op), "%s raised %s: %s" % (desc, type(ex).__name__, str(ex)[:200]))]
    if snap.changed():
        out.append(("mutated:" + op, "%s modified its argument" % desc))
    return out


def run(ctx):
    quick = ctx.tier == "quick"
    allops = '{"conj","isherm","sparse","reverse","expect","circuit","matrixof","fromlabels","evaluate"}'
    runs = [
        ("ops2", dict(NQ=2, Pool="<-PoolC09_2", Ops=allops, Depth=2, ExpandMod=1, Emitting=True)),
        ("frommatrix2", dict(NQ=2, Pool="{S(<<>>)}", Ops='{"frommatrix"}', Depth=2, ExpandMod=1, Emitting=True)),
        ("ops3", dict(NQ=3, Pool="<-PoolC09_3", Ops='{"conj","isherm","reverse","expect","circuit","matrixof","fromlabels"}' if quick else allops, Depth=2, ExpandMod=1, Emitting=True)),
    ]
    if not quick:
        runs.append(("frommatrix3", dict(NQ=3, Pool="{S(<<>>)}", Ops='{"frommatrix"}', Depth=2, ExpandMod=1, Emitting=True)))
    ctx.bounds = {"NQ": "2 and 3", "strings": "all 64 three-qubit strings + sums", "widths": "own width .. +2", "matrix units": "all 16 (n=2)" + ("" if quick else " and all 64 (n=3)")}
    for name, consts in runs:
        pool = consts.pop("Pool")
        cfgc = dict(consts)
        if pool.startswith("<-"):
            cfgc["Pool"] = pool
        else:
            cfgc["Pool"] = "<-PoolEmptySum"
        res = ctx.tlc("Pauli", constants=cfgc, invariants=INV, constraints=["DepthBound"], action_constraints=["Emit"], coverage=False, timeout=3000)
        if len(res.emitted) < 10:
            raise TLCError("Pauli/%s exported only %d transitions" % (name, len(res.emitted)))
        for c in res.emitted:
            c["cfg"] = name
            c["nq"] = consts["NQ"]
            ctx.count(c, kind=name + ":" + c["op"])
            for key, msg in check_case(ctx, c, consts["NQ"]):
                ctx.violation(key, msg, c)
    # by linearity the matrix units decide all matrices; a few dense Gaussian-integer matrices as an end-to-end sample
    from orquestra.quantum.operators._utils import get_pauliop_from_matrix

    rng = random.Random(ctx.seed)
    for n in (1, 2, 3):
        for _ in range(3):
            m = [[complex(rng.randint(-2, 2), rng.randint(-2, 2)) for _ in range(2**n)] for _ in range(2**n)]
            c = {"k": "dense-matrix", "n": n, "m": [[str(z) for z in row] for row in m]}
            ctx.count(c)
            r = get_pauliop_from_matrix(m)
            if not close(pc.dense_real(r, n), np.array(m)):
                ctx.violation("frommatrix:dense", "get_pauliop_from_matrix of a %d-qubit Gaussian-integer matrix does not convert back to it" % n, c)
    wc = wide_cases(ctx.seed, quick)
    for c, fails in zip(wc, ctx.pmap(check_wide, wc, chunksize=4)):
        ctx.count(c, kind="wide registers (Z-strings on basis states)")
        for key, msg in fails:
            ctx.violation(key, msg, c)
    ctx.bounds["wide"] = "Z-strings on 9..%d qubits on basis states and two-state superpositions (eigenvalue definition)" % (10 if quick else 12)


def check_wide(ctx, c):
    """registers wider than the specification's bound, where the definition is still cheap to state: a Z-string on a basis
    state has the eigenvalue (-1)^(number of marked qubits that are 1), qubit 0 being the most significant bit of the index;
    superpositions of two basis states give the average (Z-strings are diagonal)"""
    from orquestra.quantum.operators import PauliSum, PauliTerm, get_expectation_value, get_sparse_operator
    from orquestra.quantum.wavefunction import Wavefunction

    n, marked, ones = c["n"], c["marked"], c["ones"]
    out = []
    idx = sum(1 << (n - 1 - q) for q in ones)
    other = (idx ^ (1 << (n - 1 - marked[0]))) if c["super"] else idx
    v = np.zeros(2**n, dtype=complex)
    if other != idx:
        v[idx] = np.sqrt(0.5)
        v[other] = 1j * np.sqrt(0.5)
    else:
        v[idx] = 1.0
    eig = lambda i: -1 if sum((i >> (n - 1 - q)) & 1 for q in marked) % 2 else 1
    want = c["coef"] * (eig(idx) + eig(other)) / 2 + c["const"]
    op = PauliSum([PauliTerm({q: "Z" for q in marked}, c["coef"]), PauliTerm({}, c["const"])]) if c["const"] else PauliTerm({q: "Z" for q in marked}, c["coef"])
    desc = "%s on %d qubits, state = basis state(s) %s" % (op, n, sorted({idx, other}))
    try:
        got = complex(get_expectation_value(op, Wavefunction(v)))
        diag = get_sparse_operator(op, n).diagonal()
    except Exception as ex:
        return [("wide:raised", "%s raised %s: %s" % (desc, type(ex).__name__, str(ex)[:200]))]
    if abs(got - want) > 1e-9:
        out.append(("wide:expect", "%s: get_expectation_value = %s, the eigenvalue average is %s" % (desc, got, want)))
    if abs(diag[idx] - (c["coef"] * eig(idx) + c["const"])) > 1e-9 or abs(diag[other] - (c["coef"] * eig(other) + c["const"])) > 1e-9:
        out.append(("wide:sparse", "%s: diagonal entries of the sparse operator at these basis states are %s / %s" % (desc, diag[idx], diag[other])))
    return out


def wide_cases(seed, quick):
    rng = random.Random(seed + 909)
    cases = []
    for n in (9, 10) if quick else (9, 10, 11, 12):
        for q in range(n):
            for extra in ([], [rng.randrange(n)]):
                marked = sorted({q, *extra})
                ones = sorted({q, rng.randrange(n)})
                cases.append({"k": "wide", "n": n, "marked": marked, "ones": ones, "super": bool((q + len(extra)) % 2), "coef": rng.choice([1.0, -2.0, 0.5]), "const": rng.choice([0, 0, 0.25])})
    return cases


def replay(ctx, case):
    ctx.count(case)
    if case.get("k") == "wide":
        for key, msg in check_wide(ctx, case):
            ctx.violation(key, msg, case)
        return
    if case.get("k") == "dense-matrix":
        return
    for key, msg in check_case(ctx, case, case["nq"]):
        ctx.violation(key, msg, case)
