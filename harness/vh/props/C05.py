"""C05 - circuits survive JSON serialisation unchanged in structure and meaning.

spec: Serde.tla - gate trees with token-sequence names, ToDict / CollectDefs / the name-driven FromDict with its
dispatch order, an abstract model of the textual parameter layer (what a symbol table can resolve).  TLC checks
RoundTripIsIdentity, DefsSuffice and NamePatternsDisjoint for every circuit over every wrapper nesting to depth 3,
and refutes the two constructions as found (definitions collected only from top-level gates - F9; the custom
instance's one-shot, formals-only symbol table - F10).
spec->code: every exported circuit is built from real objects (direct constructors AND the modifier API), sent
through to_dict -> JSON text -> from_dict, save/load by path and by open file, and as a member of a circuit set;
width, operations, wrapper nesting, control counts, exponents, qubit indices, definitions, parameters, free symbols,
library equality and matrices at a seeded assignment are compared."""
import io
import json
import math
import os
import random
import signal

import numpy as np

from .. import circ_common as cc
from ..bridge import close
from ..common import Snap
from ..tlc import TLCError

INV = ["RoundTripIsIdentity", "DefsSuffice", "NamePatternsDisjoint"]


class Timeout(BaseException):     # not an Exception: code under test (sympy) that catches Exception must not swallow the alarm
    pass


def _alarm(signum, frame):
    raise Timeout()


def real_param(pid):
    import sympy

    th, beta, gamma, y, x3 = sympy.Symbol("theta"), sympy.Symbol("beta"), sympy.Symbol("gamma"), sympy.Symbol("y"), sympy.Symbol("x[3]")
    S = sympy.Symbol
    return {"int": 1, "float": 0.30000000000000004, "theta": th, "gamma": gamma, "x[3]": x3, "0.25*theta + beta": 0.25 * th + beta, "x[3] + 2*y": x3 + 2 * y,
            "eta[1]": S("eta[1]"), "theta[1]": S("theta[1]"), "a[0]*alpha[0]": S("a[0]") * S("alpha[0]"), "pi": sympy.pi, "Symbol(pi)": S("pi"),
            "w[2]": S("w[2]"), "w_2": S("w_2"), "-theta": -th, "1/3": sympy.Rational(1, 3), "theta**2 - phi/3": th**2 - S("phi") / 3}[pid]


_DEFS = {}


def gdef(name, alt=False):
    """alt: ANOTHER definition carrying the same name, formal parameters and size (definitions belong to a circuit, not to the process)"""
    import sympy
    from orquestra.quantum.circuits import CustomGateDefinition

    key = (name, alt)
    if key not in _DEFS:
        if name == "G0":
            # float entries whose decimal text is not exact (0.7071067811865476 prints with 15 digits), and the constant I
            r = 1 / math.sqrt(2)
            _DEFS[key] = CustomGateDefinition("G0", sympy.Matrix([[r, sympy.I * r], [r, -sympy.I * r]]) if alt else sympy.Matrix([[r, r], [sympy.I * r, -sympy.I * r]]), ())
        else:
            a, b = sympy.Symbol("a"), sympy.Symbol("b")
            rz = sympy.Matrix([[sympy.exp(-sympy.I * a / 2), 0], [0, sympy.exp(sympy.I * a / 2)]])
            rx = sympy.Matrix([[sympy.cos(b / 2), -sympy.I * sympy.sin(b / 2)], [-sympy.I * sympy.sin(b / 2), sympy.cos(b / 2)]])
            _DEFS[key] = CustomGateDefinition("G2", rx * rz if alt else rz * rx, (a, b))
    return _DEFS[key]


def expo(e):
    return {"2": 2, "-1": -1, "0.5": 0.5}[e]


def build(t, api=False, alt=False):
    """tree -> real gate; api=False: the wrapper classes' constructors, api=True: the modifier API from the base gate upwards"""
    from orquestra.quantum.circuits import builtin_gate_by_name
    from orquestra.quantum.circuits._gates import ControlledGate, Dagger, Exponential, Power

    if t["k"] == "builtin":
        g = builtin_gate_by_name(t["name"])
        return g(*[real_param(p) for p in t["ps"]]) if t["ps"] else g
    if t["k"] == "custom":
        return gdef(t["name"], alt)(*[real_param(p) for p in t["ps"]])
    s = build(t["a"], api, alt)
    if t["k"] == "ctrl":
        return s.controlled(t["n"]) if api else ControlledGate(s, t["n"])
    if t["k"] == "dag":
        return s.dagger if api else Dagger(s)
    if t["k"] == "exp":
        return s.exp if api else Exponential(s)
    return s.power(expo(t["e"])) if api else Power(s, expo(t["e"]))


def proj(g):
    from orquestra.quantum.circuits._gates import ControlledGate, Dagger, Exponential, Power

    if isinstance(g, ControlledGate):
        return ["ctrl", g.num_control_qubits, proj(g.wrapped_gate)]
    if isinstance(g, Dagger):
        return ["dag", proj(g.wrapped_gate)]
    if isinstance(g, Power):
        return ["pow", float(g.exponent), proj(g.wrapped_gate)]
    if isinstance(g, Exponential):
        return ["exp", proj(g.wrapped_gate)]
    return ["base", g.name, type(getattr(g, "matrix_factory", None)).__name__ == "CustomGateMatrixFactory", len(g.params)]


def tree_str(t):
    if t["k"] in ("builtin", "custom"):
        return t["name"] + ("(%s)" % ", ".join(t["ps"]) if t["ps"] else "")
    s = tree_str(t["a"])
    return {"ctrl": "Controlled(%s, %d)" % (s, t.get("n", 0)), "dag": "Dagger(%s)" % s, "exp": "Exponential(%s)" % s, "pow": "Power(%s, %s)" % (s, t.get("e"))}[t["k"]]


def params_same(p, q):
    import sympy

    if not isinstance(p, sympy.Basic) and not isinstance(q, sympy.Basic):
        return p == q
    if not getattr(p, "free_symbols", None) and not getattr(q, "free_symbols", None) and not isinstance(p, sympy.Basic):
        # a Python number came back as a sympy number: "equal as numbers, exactly" - the same double (a sympy Float of another
        # precision does not compare == to the float it was printed from, although it converts back to exactly that float)
        try:
            return complex(q) == complex(p)
        except TypeError:
            return False
    if isinstance(p, sympy.Symbol) or isinstance(q, sympy.Symbol):
        return p == q
    d = sympy.expand(sympy.sympify(p) - sympy.sympify(q))
    if d == 0:
        return True
    scale = max([1.0] + [abs(complex(v)) for v in sympy.expand(sympy.sympify(p)).as_coefficients_dict().values()])
    return all(abs(complex(v)) <= 1e-12 * scale for v in d.as_coefficients_dict().values())


def heavy(g):
    """nested non-integer powers / exponentials: sympy takes seconds to minutes for their matrices (C07 covers them)"""
    from orquestra.quantum.circuits._gates import Exponential, Power

    cnt = 0
    while hasattr(g, "wrapped_gate"):
        if isinstance(g, Exponential) or (isinstance(g, Power) and float(g.exponent) != int(g.exponent)):
            cnt += 1
        g = g.wrapped_gate
    return cnt >= 2


def base_params(g):
    return tuple(g.params)


def k5_collision(gate):
    """names that the gate's parameters use BOTH for a sympy constant (pi, E, I, ...) and for a symbol: the serialised text
    cannot tell them apart (known finding K5); returns the substitution constant -> symbol that the format then performs"""
    import sympy
    from sympy.core.numbers import ImaginaryUnit, NumberSymbol

    consts, syms = {}, {}
    for prm in base_params(gate):
        if isinstance(prm, sympy.Basic):
            for a_ in prm.atoms(NumberSymbol, ImaginaryUnit):
                consts[str(a_)] = a_
            for s_ in prm.free_symbols:
                syms[str(s_)] = s_
    return {consts[k_]: syms[k_] for k_ in consts if k_ in syms}


def rebuild(g, newparams):
    """the same gate tree (wrapper by wrapper, through the constructors) over the base gate with other parameters"""
    from orquestra.quantum.circuits._gates import ControlledGate, Dagger, Exponential, Power

    if isinstance(g, ControlledGate):
        return ControlledGate(rebuild(g.wrapped_gate, newparams), g.num_control_qubits)
    if isinstance(g, Dagger):
        return Dagger(rebuild(g.wrapped_gate, newparams))
    if isinstance(g, Power):
        return Power(rebuild(g.wrapped_gate, newparams), g.exponent)
    if isinstance(g, Exponential):
        return Exponential(rebuild(g.wrapped_gate, newparams))
    return g.replace_params(newparams)


def compare(desc, how, orig, back, out, matrices=True):
    import sympy

    k5_ops = {}
    if back.n_qubits != orig.n_qubits:
        out.append(("width", "%s via %s: width %d became %d" % (desc, how, orig.n_qubits, back.n_qubits)))
    if len(back.operations) != len(orig.operations):
        out.append(("operations", "%s via %s: %d operations became %d" % (desc, how, len(orig.operations), len(back.operations))))
        return
    for i, (a, b) in enumerate(zip(orig.operations, back.operations)):
        if tuple(a.qubit_indices) != tuple(b.qubit_indices):
            out.append(("qubits", "%s via %s: operation %d on %s became %s" % (desc, how, i, a.qubit_indices, b.qubit_indices)))
        if proj(a.gate) != proj(b.gate):
            out.append(("structure", "%s via %s: gate %s came back as %s" % (desc, how, proj(a.gate), proj(b.gate))))
            continue
        pa, pb = base_params(a.gate), base_params(b.gate)
        if len(pa) != len(pb) or not all(params_same(x, y) for x, y in zip(pa, pb)):
            col = k5_collision(a.gate)
            if col and len(pa) == len(pb) and all(params_same(sympy.sympify(x).subs(col) if isinstance(x, sympy.Basic) else x, y) for x, y in zip(pa, pb)):
                # exactly the known finding: the constant came back as the symbol of the same name, nothing else differs
                k5_ops[i] = col
                out.append(("KNOWN:K5", "%s via %s: parameters %s came back as %s (the constant(s) %s read back as the symbol(s) of the same name)" % (desc, how, pa, pb, sorted(map(str, col)))))
                continue
            out.append(("params", "%s via %s: parameters %s came back as %s" % (desc, how, pa, pb)))
            continue
        if [str(s) for s in a.gate.free_symbols] != [str(s) for s in b.gate.free_symbols]:
            out.append(("free-symbols", "%s via %s: free symbols %s came back as %s" % (desc, how, list(a.gate.free_symbols), list(b.gate.free_symbols))))
        if matrices and not heavy(a.gate):
            vals = {s: 0.3 + 0.17 * j for j, s in enumerate(sorted(a.gate.free_symbols, key=str))}
            try:
                ga = a.gate.bind(vals) if vals else a.gate
                ma = cc.to_np(ga.matrix)
            except Timeout:
                raise
            except Exception:
                ma = None  # the ORIGINAL gate's matrix cannot be computed (sympy limits, see C07): nothing to compare
            if ma is not None:
                try:
                    gb = b.gate.bind(vals) if vals else b.gate
                    mb = cc.to_np(gb.matrix)
                    if ma.shape != mb.shape or not close(ma, mb, 1e-9):
                        out.append(("matrix", "%s via %s: operation %d has a different matrix after the round trip (symbols %s)" % (desc, how, i, vals)))
                except Timeout:
                    raise
                except Exception as ex:
                    out.append(("matrix:raises", "%s via %s: the matrix of the deserialised operation %d cannot be computed (%s), the original's can" % (desc, how, i, type(ex).__name__)))
    da = list(orig.collect_custom_gate_definitions())
    db = list(back.collect_custom_gate_definitions())
    if [d.gate_name for d in da] != [d.gate_name for d in db] or any(x != y for x, y in zip(da, db)):
        out.append(("definitions", "%s via %s: custom gate definitions %s came back as %s" % (desc, how, [d.gate_name for d in da], [d.gate_name for d in db])))
    if list(map(str, orig.free_symbols)) != list(map(str, back.free_symbols)):
        out.append(("free-symbols:circuit", "%s via %s: circuit free symbols %s came back as %s" % (desc, how, orig.free_symbols, back.free_symbols)))
    if not (back == orig):
        if k5_ops:
            # equality can only fail because of those operations: with the known substitution applied to the original they are equal
            from orquestra.quantum.circuits import Circuit

            ops2 = [(rebuild(o.gate, tuple(sympy.sympify(x).subs(k5_ops[j]) if isinstance(x, sympy.Basic) else x for x in base_params(o.gate)))(*o.qubit_indices) if j in k5_ops else o) for j, o in enumerate(orig.operations)]
            if back == Circuit(ops2, n_qubits=orig.n_qubits):
                return
        out.append(("equality", "%s via %s: the deserialised circuit does not compare equal to the original" % (desc, how)))


def check_case(ctx, c):
    from orquestra.quantum.circuits import Circuit, circuit_from_dict, circuitset_from_dict, load_circuit, load_circuitset, save_circuit, save_circuitset, to_dict

    out = []
    desc = "Circuit([%s], n_qubits=%d)" % (", ".join("%s%s" % (tree_str(o["g"]), tuple(o["qs"])) for o in c["ops"]), c["n"])
    old = signal.signal(signal.SIGALRM, _alarm)
    signal.alarm(3 if ctx.tier == "quick" else 30)
    try:
        for api in (False, True):
            try:
                orig = Circuit([build(o["g"], api)(*o["qs"]) for o in c["ops"]], n_qubits=c["n"])
            except ValueError as ex:
                if "free symbols" in str(ex):
                    continue  # the modifier API refuses this nesting (power of a gate with symbols)
                raise
            how0 = "modifier API" if api else "constructors"
            snap = Snap([orig])
            try:
                d = to_dict(orig)
                text = json.dumps(d)
            except Exception as ex:
                out.append(("to_dict-raises", "%s (%s): to_dict / json.dumps raised %s: %s" % (desc, how0, type(ex).__name__, str(ex)[:200])))
                continue
            if snap.changed():
                out.append(("mutated", "%s: to_dict modified the circuit" % desc))
            # the dictionary says what it needs: definitions for every custom gate it mentions
            want_defs = set(c["defs"])
            got_defs = {x["gate_name"] for x in d.get("custom_gate_definitions", [])}
            if not want_defs <= got_defs:
                out.append(("definitions:missing", "%s (%s): serialised dictionary carries definitions %s, the circuit uses %s" % (desc, how0, sorted(got_defs), sorted(want_defs))))
            try:
                back = circuit_from_dict(json.loads(text))
                compare(desc, how0 + " / JSON text", orig, back, out)
            except Timeout:
                raise
            except Exception as ex:
                out.append(("from_dict-raises", "%s (%s): circuit_from_dict raised %s: %s" % (desc, how0, type(ex).__name__, str(ex)[:200])))
                continue
            if api:
                continue
            # load -> extend -> save: the circuit that came back is extended with gates built in code (for custom gates: from
            # the in-code definition, equal to the loaded one up to the decimal text of its floats) and serialised again
            try:
                ext = back + orig
                back2 = circuit_from_dict(json.loads(json.dumps(to_dict(ext))))
                compare(desc + " [loaded, then extended by the same operations built in code, serialised again]", "JSON text", orig + orig, back2, out, matrices=False)
            except Timeout:
                raise
            except Exception as ex:
                out.append(("load-extend-save-raises", "%s: loaded from JSON, extended by the same operations built in code, serialised again: %s: %s" % (desc, type(ex).__name__, str(ex)[:200])))
            # files: by path, by open handle; circuit sets
            p = os.path.join(ctx.tmp, "c05-%d.json" % random.getrandbits(48))
            try:
                save_circuit(orig, p)
                compare(desc, "save/load by path", orig, load_circuit(p), out, matrices=False)
                with open(p) as f:
                    compare(desc, "load from an open file", orig, load_circuit(f), out, matrices=False)
                buf = io.StringIO()
                save_circuit(orig, buf)
                compare(desc, "save to an open file", orig, circuit_from_dict(json.loads(buf.getvalue())), out, matrices=False)
                other = Circuit(n_qubits=2)
                if c["defs"]:
                    # a set whose members define a gate of the SAME name differently: each member comes back with its own definition
                    try:
                        alt_m = Circuit([build(o["g"], False, alt=True)(*o["qs"]) for o in c["ops"]], n_qubits=c["n"])
                        back_alt = circuitset_from_dict(json.loads(json.dumps(to_dict([orig, alt_m, orig]))))
                        if len(back_alt) == 3:
                            compare(desc + " [first member of a set whose second member defines the same gate name differently]", "circuit set", orig, back_alt[0], out)
                            compare(desc + " [second member of a set: another definition under the same gate name]", "circuit set", alt_m, back_alt[1], out)
                        else:
                            out.append(("circuitset:length", "%s: a set of 3 circuits came back with %d" % (desc, len(back_alt))))
                    except Timeout:
                        raise
                    except Exception as ex:
                        out.append(("circuitset:alt-raises", "%s: a set with two definitions of one gate name raised %s: %s" % (desc, type(ex).__name__, str(ex)[:150])))
                cs = [orig, other, orig]
                back_set = circuitset_from_dict(json.loads(json.dumps(to_dict(cs))))
                save_circuitset(cs, p)
                back_set2 = load_circuitset(p)
                for bs in (back_set, back_set2):
                    if len(bs) != 3:
                        out.append(("circuitset:length", "%s: a set of 3 circuits came back with %d" % (desc, len(bs))))
                    else:
                        compare(desc, "circuit set", orig, bs[0], out, matrices=False)
                        compare(desc, "circuit set", orig, bs[2], out, matrices=False)
                        if bs[1] != other:
                            out.append(("circuitset:empty", "%s: the empty member of the set came back as %s" % (desc, bs[1])))
            except Timeout:
                raise
            except Exception as ex:
                out.append(("file-raises", "%s: save/load raised %s: %s" % (desc, type(ex).__name__, str(ex)[:200])))
            finally:
                if os.path.exists(p):
                    os.unlink(p)
            # a later circuit may define a gate of the SAME name differently: it must come back with its own definition
            if c["defs"]:
                try:
                    alt = Circuit([build(o["g"], False, alt=True)(*o["qs"]) for o in c["ops"]], n_qubits=c["n"])
                    compare(desc + " [another definition under the same gate name, deserialised afterwards]", "JSON text", alt, circuit_from_dict(json.loads(json.dumps(to_dict(alt)))), out)
                except Timeout:
                    raise
                except Exception as ex:
                    out.append(("second-definition-raises", "%s: round trip of the same circuit with another definition of the same name raised %s: %s" % (desc, type(ex).__name__, str(ex)[:200])))
    except Timeout:
        return [("TIMEOUT", desc)]
    finally:
        signal.alarm(0)
        signal.signal(signal.SIGALRM, old)
    # report each kind once per case
    seen, uniq = set(), []
    for k, m in out:
        if k not in seen:
            seen.add(k)
            uniq.append((k, m))
    return uniq


POISON = ["x", "theta[1]", "y[0]", "gamma[2]", "beta[0]", "a[1]", "b[0]", "I", "J", "j", "inf", "nan", "E", "oo", "N", "S", "Q"]


def check_process_history(ctx, h):
    """deserialisations share one process: circuits whose symbol names collide with the names used by the cases (plain x
    against x[3], theta[1] against theta, a symbol called I against the constant) are round-tripped FIRST, then the cases"""
    import sympy
    from orquestra.quantum.circuits import RX, Circuit, circuit_from_dict, to_dict

    out = []
    for name in POISON:
        c0 = Circuit([RX(sympy.Symbol(name))(0)])
        try:
            b0 = circuit_from_dict(json.loads(json.dumps(to_dict(c0))))
            if b0 != c0 or [str(s_) for s_ in b0.free_symbols] != [name]:
                out.append(("history:poison", "Circuit([RX(%s)(0)]) came back as %s" % (name, b0)))
        except Exception as ex:
            out.append(("history:poison-raises", "round trip of Circuit([RX(%s)(0)]) raised %s: %s" % (name, type(ex).__name__, str(ex)[:150])))
    for c in h["cases"]:
        for k, m in check_case(ctx, c):
            if k.startswith("KNOWN:"):
                out.append((k, m))
            elif k != "TIMEOUT":
                out.append(("history:" + k, "after circuits with the symbols %s had been deserialised in the same process: %s" % (POISON, m)))
    seen, uniq = set(), []
    for k, m in out:
        if k not in seen:
            seen.add(k)
            uniq.append((k, m))
    return uniq


def run(ctx):
    quick = ctx.tier == "quick"
    allb = "{1, 2, 3, 4, 5, 6, 7, 8, 9, 10, 11, 12, 13, 14, 15, 16, 17, 18, 19}"
    if quick:
        runs = [dict(MaxOps=1, MaxWrap=2, Bases="{1, 2, 3, 4, 5, 6, 7, 8, 9, 10, 11, 12}"), dict(MaxOps=1, MaxWrap=1, Bases="{13, 14, 15, 16, 17, 18, 19}"), dict(MaxOps=1, MaxWrap=3, Bases="{1, 3, 7}"), dict(MaxOps=2, MaxWrap=1, Bases="{2, 4, 7, 9, 11}"),
                dict(MaxOps=2, MaxWrap=1, Bases="{14, 15, 18}", CtrlOnly=True), dict(MaxOps=2, MaxWrap=2, Bases="{3}", CtrlOnly=True), dict(MaxOps=2, MaxWrap=0, Bases="{2, 13, 14, 15, 16, 19}")]
    else:
        runs = [dict(MaxOps=1, MaxWrap=3, Bases="{1, 2, 3, 4, 5, 6, 7, 8, 9, 10, 11, 12}"), dict(MaxOps=1, MaxWrap=2, Bases="{13, 14, 15, 16, 17, 18, 19}"),
                dict(MaxOps=2, MaxWrap=1, Bases="{1, 2, 3, 4, 5, 6, 7, 8, 9, 10, 11, 12}"), dict(MaxOps=2, MaxWrap=0, Bases=allb), dict(MaxOps=3, MaxWrap=1, Bases="{2, 7, 9}"),
                dict(MaxOps=3, MaxWrap=2, Bases="{3}", CtrlOnly=True), dict(MaxOps=3, MaxWrap=1, Bases="{14, 15, 18}", CtrlOnly=True)]
    ctx.bounds = {"run%d" % i: r for i, r in enumerate(runs)}
    cases, seen = [], set()
    for r in runs:
        res = ctx.tlc("Serde", constants=dict(dict(CtrlOnly=False), **r, Deep=True, FullTable=True, Emitting=True), invariants=INV, action_constraints=["Emit"], coverage=False, timeout=5000)
        for e in res.emitted:
            k = json.dumps([e["n"], e["ops"]], sort_keys=True)
            if k not in seen:
                seen.add(k)
                cases.append(e)
    # the two constructions as found must be refuted by TLC (design-level findings F9, F10)
    for consts, what in ((dict(Deep=False, FullTable=True), "definitions collected from top-level gates only"), (dict(Deep=True, FullTable=False), "one-shot formals-only symbol table of custom gate instances")):
        r_ = ctx.tlc("Serde", constants=dict(MaxOps=1, MaxWrap=1, Bases="{7, 9}", Emitting=False, CtrlOnly=False, **consts), invariants=["RoundTripIsIdentity"], coverage=False, timeout=600, allow_violation=True)
        if "RoundTripIsIdentity" not in r_.violated:
            raise TLCError("vacuity: the construction as found (%s) is not refuted" % what)
    if len(cases) < 300:
        raise TLCError("Serde exported only %d circuits" % len(cases))
    # empty circuits and idle qubits are initial states of the specification
    cases += [{"n": 0, "ops": [], "defs": []}, {"n": 3, "ops": [], "defs": []}]
    for c, fails in zip(cases, ctx.pmap(check_case, cases, chunksize=4)):
        ctx.count({"k": "circuit", "ops": [tree_str(o["g"]) for o in c["ops"]], "n": c["n"]}, kind="%d operation(s)" % len(c["ops"]))
        for key, msg in fails:
            if key == "TIMEOUT":
                ctx.not_evaluated += 1
            elif key.startswith("KNOWN:"):
                ctx.known(key[6:], msg)
            else:
                ctx.violation(key, msg, c)
    # process histories: name-colliding circuits first, then a sample of the cases that mention symbols or custom gates
    rng = random.Random(ctx.seed + 5)
    interesting = [c for c in cases if c["defs"] or any("theta" in json.dumps(o) or "x[3]" in json.dumps(o) or "pi" in json.dumps(o) or "w_2" in json.dumps(o) for o in c["ops"])]
    interesting.sort(key=lambda c: json.dumps([c["n"], c["ops"]], sort_keys=True))     # TLC's emission order varies
    rng.shuffle(interesting)
    per = 6
    hists = [{"k": "process-history", "cases": interesting[i : i + per]} for i in range(0, min(len(interesting), 96 if quick else 960), per)]
    for h, fails in zip(hists, ctx.pmap(check_process_history, hists, chunksize=1)):
        ctx.count({"k": "process-history", "first": POISON, "then": [[tree_str(o["g"]) for o in c["ops"]] for c in h["cases"]]}, kind="process history")
        for key, msg in fails:
            if key.startswith("KNOWN:"):
                ctx.known(key[6:], msg)
            else:
                ctx.violation(key, msg, h)
    ctx.assumptions.append("symbol names: identifiers (also ones sympy knows as functions: gamma, beta) and name[index]; a plain symbol x together with x[3] is outside the domain (the textual format cannot tell them apart); custom gate names avoid built-in names and the wrapper markers")
    ctx.assumptions.append("matrix comparisons run under a per-case time limit; cases over the limit are counted as not evaluated")


def replay(ctx, case):
    if case.get("k") == "process-history":
        ctx.count({"k": "process-history"})
        for key, msg in check_process_history(ctx, case):
            ctx.known(key[6:], msg) if key.startswith("KNOWN:") else ctx.violation(key, msg, case)
        return
    if case.get("k") == "tlc":
        raise TLCError("a TLC counterexample is replayed by re-running the check")
    ctx.count({"k": "circuit"})
    for key, msg in check_case(ctx, case):
        if key.startswith("KNOWN:"):
            ctx.known(key[6:], msg)
        elif key != "TIMEOUT":
            ctx.violation(key, msg, case)
