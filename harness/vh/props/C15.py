"""C15 - estimation returns one correctly weighted result per task, in task order.

spec: Estimation.tla.  TLC: OneResultPerTaskInPlace for ALL task lists of length <= MaxTasks over eight task
templates (measurable term / sum / sum containing a constant, constant term, sum of two constants, empty sum,
zero-shot constant, zero-shot non-constant), every ordering; PartitionIsExact, ConstantYieldsConstant,
ZeroShotYieldsZero.  spec->code: every exported list is run through estimate_expectation_values_by_averaging
with a real SymbolicSimulator, split_estimation_tasks_to_measure, calculate_exact_expectation_values and
evaluate_estimation_circuits."""
import numpy as np

from ..common import Snap
from ..tlc import TLCError

INV = ["OneResultPerTaskInPlace", "PartitionIsExact", "ConstantYieldsConstant", "ZeroShotYieldsZero"]


def real_task(t, symbolic=False):
    import sympy
    from orquestra.quantum.api.estimation import EstimationTask
    from orquestra.quantum.circuits import RX, Circuit, X
    from orquestra.quantum.operators import PauliSum, PauliTerm

    terms = [PauliTerm({q: "Z" for q in tm["sup"]}, float(tm["c"])) for tm in t["op"]]
    op = terms[0] if t["t"] == "term" else PauliSum(terms)
    if symbolic:
        # RX(theta) with theta bound to pi prepares the same basis state up to a phase
        ops = [RX(sympy.Symbol("theta_%d" % q))(q) for q in t["ones"]]
    else:
        ops = [X(q) for q in t["ones"]]
    return EstimationTask(op, Circuit(ops, n_qubits=t["w"]), t["shots"])


def check_case(ctx, c):
    import sympy
    from orquestra.quantum.estimation import calculate_exact_expectation_values, estimate_expectation_values_by_averaging, evaluate_estimation_circuits, split_estimation_tasks_to_measure
    from orquestra.quantum.runners.symbolic_simulator import SymbolicSimulator

    out = []
    tasks = [real_task(t) for t in c["tasks"]]
    names = [t["name"] for t in c["tasks"]]
    desc = "tasks %s" % names
    snap = Snap(tasks)
    sim = SymbolicSimulator(seed=ctx.seed)
    try:
        res = estimate_expectation_values_by_averaging(sim, tasks)
    except Exception as ex:
        key = "raised:" + ("empty-constant" if "const-empty" in names and isinstance(ex, IndexError) else type(ex).__name__)
        return [(key, "%s: estimate_expectation_values_by_averaging raised %s: %s" % (desc, type(ex).__name__, str(ex)[:150]))]
    if len(res) != len(tasks):
        return [("count", "%s: %d results for %d tasks" % (desc, len(res), len(tasks)))]
    for p, (r, want) in enumerate(zip(res, c["res"])):
        got = None if r is None else [complex(v) for v in np.asarray(r.values).reshape(-1)]
        if got is None or len(got) != len(want) or any(abs(g - w) > 1e-9 for g, w in zip(got, want)):
            out.append(("value:" + names[p], "%s: result at position %d (%s) is %s, required %s" % (desc, p, names[p], got, want)))
    # what came back is the caller's: every result is edited in place, then the same request is made again (fresh tasks, the same
    # simulator) - the answers are the specification's answers again
    for r in res:
        try:
            np.asarray(r.values)[...] = 1.5
            if r.estimator_covariances is not None:
                for m_ in r.estimator_covariances:
                    np.asarray(m_)[...] = 0.25
        except (ValueError, TypeError):
            pass
    try:
        res2 = estimate_expectation_values_by_averaging(sim, [real_task(t) for t in c["tasks"]])
        for p, (r, want) in enumerate(zip(res2, c["res"])):
            got = None if r is None else [complex(v) for v in np.asarray(r.values).reshape(-1)]
            if got is None or len(got) != len(want) or any(abs(g - w) > 1e-9 for g, w in zip(got, want)):
                out.append(("value:after-edit:" + names[p], "%s: after the caller edited the results of a first call in place, the same request gives %s at position %d (%s), required %s" % (desc, got, p, names[p], want)))
    except Exception as ex:
        out.append(("raised:second-call", "%s: the same request a second time raised %s: %s" % (desc, type(ex).__name__, str(ex)[:150])))
    # coefficients of round-off size are coefficients: on a basis state the value is exactly coefficient times eigenvalue
    from orquestra.quantum.api.estimation import EstimationTask as _ET
    from orquestra.quantum.circuits import Circuit as _C, X as _X
    from orquestra.quantum.operators import PauliSum as _PS, PauliTerm as _PT

    small = [_ET(_PT({0: "Z"}, 6e-9), _C([_X(0)]), 5), _ET(_PS([_PT({}, 2.5), _PT({1: "Z"}, 3e-9), _PT({0: "Z", 1: "Z"}, -8e-9)]), _C([_X(0)], n_qubits=2), 5)]
    want_small = [[-6e-9], [2.5, 3e-9, 8e-9]]
    try:
        rs = estimate_expectation_values_by_averaging(sim, small)
        for r, w_ in zip(rs, want_small):
            got = [complex(v) for v in np.asarray(r.values).reshape(-1)]
            if len(got) != len(w_) or any(abs(g - x_) > 1e-15 for g, x_ in zip(got, w_)):
                out.append(("value:small-coefficients", "%s; additionally an operator with coefficients of size 1e-9 on a basis state: values %s, coefficient times eigenvalue %s" % (desc, got, w_)))
    except Exception as ex:
        out.append(("raised:small-coefficients", "estimation of operators with coefficients of size 1e-9 raised %s: %s" % (type(ex).__name__, str(ex)[:150])))
    tm, tn, im, inn = split_estimation_tasks_to_measure(tasks)
    if [i + 1 for i in im] != c["measured"] or [i + 1 for i in inn] != c["notmeasured"]:
        out.append(("split", "%s: split indices %s / %s, specification %s / %s" % (desc, im, inn, c["measured"], c["notmeasured"])))
    if [tasks[i] for i in im] != list(tm) or [tasks[i] for i in inn] != list(tn):
        out.append(("split:tasks", "%s: split task lists do not match their index lists" % desc))
    # exact expectation values from the simulator = quadratic form (basis states: sum of coefficient*eigenvalue)
    nonempty = [(t, a) for t, a in zip(tasks, c["tasks"]) if a["op"]]
    if nonempty:
        # the simulator has a history: the very circuit objects of the tasks were just simulated from OTHER initial states
        for t, _ in nonempty[:2]:
            d_ = 2**t.circuit.n_qubits
            if d_ > 1:
                psi = np.zeros(d_, dtype=complex)
                psi[d_ - 1] = 1.0
                sim.get_wavefunction(t.circuit, initial_state=psi)
        ex = calculate_exact_expectation_values(sim, [t for t, _ in nonempty])
        for (t, a), e in zip(nonempty, ex):
            want = sum(tm_["c"] * (-1) ** len(set(tm_["sup"]) & set(a["ones"])) for tm_ in a["op"])
            if abs(complex(np.asarray(e.values).reshape(-1)[0]) - want) > 1e-9:
                out.append(("exact", "%s: exact expectation of %s is %s, quadratic form %s" % (desc, a["name"], e.values, want)))
    # binding symbol maps: each task's circuit with its own map, nothing else changes
    sym_tasks = [real_task(t, symbolic=True) for t in c["tasks"]]
    maps = [{sympy.Symbol("theta_%d" % q): np.pi * (1 if (p + q) % 2 == 0 else 3) for q in range(3)} for p in range(len(sym_tasks))]
    snap2 = Snap(sym_tasks + maps)
    bound = evaluate_estimation_circuits(sym_tasks, maps)
    if snap2.changed():
        out.append(("bind:mutated", "%s: evaluate_estimation_circuits modified its arguments" % desc))
    for p, (b, s, m) in enumerate(zip(bound, sym_tasks, maps)):
        if b.operator is not s.operator and b.operator != s.operator:
            out.append(("bind:operator", "%s: binding changed the operator of task %d" % (desc, p)))
        if b.number_of_shots != s.number_of_shots:
            out.append(("bind:shots", "%s: binding changed the shots of task %d" % (desc, p)))
        if b.circuit != s.circuit.bind(m) or b.circuit.free_symbols:
            out.append(("bind:circuit", "%s: task %d's circuit is not bound with its own map" % (desc, p)))
    # the same with ONE circuit object shared by all tasks and a different assignment per task
    from orquestra.quantum.api.estimation import EstimationTask
    from orquestra.quantum.circuits import RX, Circuit

    shared = Circuit([RX(sympy.Symbol("theta_%d" % q))(q) for q in range(3)])
    sh_tasks = [EstimationTask(t.operator, shared, t.number_of_shots) for t in tasks]
    sh_maps = [{sympy.Symbol("theta_%d" % q): np.pi * ((p + q) % 2) + 0.25 * p for q in range(3)} for p in range(len(sh_tasks))]
    bound = evaluate_estimation_circuits(sh_tasks, sh_maps)
    for p, (b, m) in enumerate(zip(bound, sh_maps)):
        if b.circuit != shared.bind(m) or b.circuit.free_symbols:
            out.append(("bind:shared-circuit", "%s: %d tasks share one circuit object; task %d's circuit is not bound with its own map %s: %s" % (desc, len(sh_tasks), p, m, b.circuit)))
    if shared.free_symbols != [sympy.Symbol("theta_%d" % q) for q in range(3)]:
        out.append(("bind:shared-mutated", "%s: the shared circuit was modified" % desc))
    if snap.changed():
        out.append(("mutated", "%s: estimation modified its tasks" % desc))
    return out


def run(ctx):
    quick = ctx.tier == "quick"
    mt = 4 if quick else 5
    ctx.bounds = {"MaxTasks": mt, "templates": 11}
    res = ctx.tlc("Estimation", constants=dict(MaxTasks=mt, Emitting=True), invariants=INV, action_constraints=["Emit"], coverage=False, timeout=3000)
    if len(res.emitted) < 50:
        raise TLCError("Estimation exported only %d lists" % len(res.emitted))
    cases = res.emitted
    for c, fails in zip(cases, ctx.pmap(check_case, cases)):
        ctx.count({"k": "tasks", "names": [t["name"] for t in c["tasks"]]})
        for key, msg in fails:
            ctx.violation(key, msg, c)


def replay(ctx, case):
    ctx.count({"k": "tasks", "names": [t["name"] for t in case["tasks"]]})
    for key, msg in check_case(ctx, case):
        ctx.violation(key, msg, case)
