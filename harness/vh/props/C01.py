"""C01 - a circuit acts as the ordered product of its gates on the named qubits.

spec: CircuitSem.tla.  TLC: LiftMechanismIsDefinition for every gate of the alphabet (arity 1..4), every
ordered tuple of distinct indices and every width; UnitaryIsOrderedProduct / ConcatComposes /
StepwiseEqualsWhole / SplitIsPartition / NativeSplitIrrelevant on every program inside the bounds.
spec->code: every exported transition is replayed: Circuit.to_unitary (numeric and symbolic path),
GateOperation.apply step by step from every basis state, SymbolicSimulator, harness-defined subclasses of
BaseWavefunctionSimulator with every native set of the spec (native executor multiplies by
subcircuit.to_unitary()), Circuit.__add__, lifted_matrix (numpy and sympy path)."""
import itertools
import math

import numpy as np

from .. import circ_common as cc
from ..bridge import close, mat
from ..common import Snap
from ..tlc import TLCError

INV = ["LiftMechanismIsDefinition", "UnitaryIsOrderedProduct", "UIsUnitary", "StepwiseEqualsWhole", "WidthIsMax", "SplitIsPartition", "NativeSplitIrrelevant", "NoOverflow"]


def psi0(n):
    v = np.zeros(2**n, dtype=complex)
    v[0] = math.sqrt(0.5)
    v[2 ** (n - 1)] += 1j * math.sqrt(0.5)
    return v


def make_sim(native):
    from orquestra.quantum.api.wavefunction_simulator import BaseWavefunctionSimulator
    from orquestra.quantum.circuits import GateOperation

    nat = set(native)

    class Sim(BaseWavefunctionSimulator):
        def is_natively_supported(self, op):
            cls = "a%d" % min(len(op.qubit_indices), 3) if isinstance(op, GateOperation) else "ph"
            return cls in nat

        def _get_wavefunction_from_native_circuit(self, circuit, initial_state):
            self.native_calls = getattr(self, "native_calls", 0) + 1
            state = np.asarray(initial_state, dtype=complex)
            # a different code path from GateOperation.apply: gate runs through the circuit's unitary
            run = []
            for op in circuit.operations:
                if isinstance(op, GateOperation):
                    run.append(op)
                else:
                    if run:
                        state = type(circuit)(run, n_qubits=circuit.n_qubits).to_unitary() @ state
                        run = []
                    state = op.apply(state)
            if run:
                state = type(circuit)(run, n_qubits=circuit.n_qubits).to_unitary() @ state
            return state

    return Sim()


def check_lift(ctx, c):
    import sympy

    out = []
    step = c["prog"][0]
    n = c["n"]
    U = mat(c["U"])
    desc = cc.describe(c["prog"], n)
    op = cc.op_real(step)
    try:
        got = cc.to_np(op.lifted_matrix(n))
        if not close(got, U):
            out.append(("lift:numeric", "%s: lifted_matrix(%d) differs from the bit-index definition" % (desc, n)))
    except Exception as ex:
        out.append(("lift:raises", "%s: lifted_matrix raised %r" % (desc, ex)))
    if cc.is_parametric(step):
        th = sympy.Symbol("theta")
        ops = cc.op_real(step, symbol=th)
        try:
            m = ops.lifted_matrix(n)
            got = cc.to_np(sympy.Matrix(m).subs(th, cc.angles(step["name"], step["k"])[0]))
            if not close(got, U):
                out.append(("lift:symbolic", "%s: symbolic lifted_matrix(%d), after substitution, differs from the definition" % (desc, n)))
        except Exception as ex:
            out.append(("lift:symbolic-raises", "%s: symbolic lifted_matrix raised %s: %s" % (desc, type(ex).__name__, str(ex)[:150])))
    return out


def check_program(ctx, c):
    import sympy
    from orquestra.quantum.circuits import Circuit, GateOperation
    from orquestra.quantum.runners.symbolic_simulator import SymbolicSimulator

    out = []
    prog, n = c["prog"], c["n"]
    U = mat(c["U"])
    desc = cc.describe(prog, n)
    circ = cc.circuit_real(prog, n)
    snap = Snap([circ])
    has_phase = any(s["kind"] == "phase" for s in prog)
    if circ.n_qubits != n:
        out.append(("width", "%s has n_qubits %s" % (desc, circ.n_qubits)))
    # 1. the matrix reported for the whole circuit
    if not has_phase:
        try:
            got = cc.to_np(circ.to_unitary())
            if got.shape != U.shape or not close(got, U):
                out.append(("to_unitary", "%s: to_unitary() is not the ordered product of the lifted gate matrices" % desc))
        except Exception as ex:
            key = "to_unitary:empty" if not prog else "to_unitary:raises"
            out.append((key, "%s: to_unitary() raised %s: %s" % (desc, type(ex).__name__, str(ex)[:150])))
        # symbolic path: one grid angle replaced by a symbol, substituted afterwards
        for i, s in enumerate(prog):
            if cc.is_parametric(s):
                th = sympy.Symbol("theta")
                csym = cc.circuit_real(prog, n, symbol_at=i, symbol=th)
                try:
                    m = csym.to_unitary()
                    got = cc.to_np(sympy.Matrix(m).subs(th, cc.angles(s["name"], s["k"])[0]))
                    if not close(got, U):
                        out.append(("to_unitary:symbolic", "%s with parameter %d symbolic: to_unitary() substituted afterwards differs from the numeric product" % (desc, i)))
                except Exception as ex:
                    mixed = len(prog) > 1
                    out.append(("to_unitary:mixed-raises" if mixed else "to_unitary:symbolic-raises", "%s with one symbolic parameter: to_unitary() raised %s: %s" % (desc, type(ex).__name__, str(ex)[:150])))
                break
    # 2. applying the operations one at a time to any state vector
    vecs = [np.eye(2**n, dtype=complex)[:, j] for j in range(2**n)] + [psi0(n)]
    for v in vecs:
        st = v.copy()
        try:
            for op in circ.operations:
                st = np.asarray(op.apply(st), dtype=complex).reshape(-1)
        except Exception as ex:
            out.append(("apply:raises", "%s: apply raised %s: %s" % (desc, type(ex).__name__, str(ex)[:150])))
            break
        if not close(st, U @ v):
            out.append(("apply", "%s: applying the operations one at a time to %s differs from U v" % (desc, np.round(v, 3).tolist())))
            break
    # 3. the bundled simulator and simulators built on the base class with any native set
    sims = [("SymbolicSimulator", SymbolicSimulator(), None)]
    for sg in c.get("segs", []):
        sims.append(("BaseWavefunctionSimulator[native=%s]" % sg["nat"], make_sim(sg["nat"]), sg))
    for name, sim, sg in sims:
        for v in (None, psi0(n), np.eye(2**n, dtype=complex)[:, (2**n) - 1]):
            try:
                wf = sim.get_wavefunction(circ, None if v is None else v.copy())
                got = np.asarray(wf.amplitudes, dtype=complex).reshape(-1)
            except Exception as ex:
                out.append(("simulator:raises", "%s on %s raised %s: %s" % (name, desc, type(ex).__name__, str(ex)[:150])))
                break
            want = U @ (np.eye(2**n, dtype=complex)[:, 0] if v is None else v)
            if not close(got, want):
                out.append(("simulator", "%s on %s from %s: final state differs from U applied to the initial state" % (name, desc, "|0..0>" if v is None else np.round(v, 3).tolist())))
                break
        if sg is not None:
            # the split itself: number of runs and of native runs (ties C01 to the counters of C14)
            sim2 = make_sim(sg["nat"])
            sim2.get_wavefunction(circ)
            want_jobs = len(sg["runs"])
            want_circs = sum(1 for r in sg["runs"] if r["nat"])
            if (sim2.n_jobs_executed, sim2.n_circuits_executed) != (want_jobs, want_circs):
                out.append(("split", "%s with native=%s: %d runs / %d native runs counted, specification %d / %d" % (desc, sg["nat"], sim2.n_jobs_executed, sim2.n_circuits_executed, want_jobs, want_circs)))
    # 4. concatenation / appending
    pre = c.get("pre")
    if pre is not None and c["op"] in ("append", "concat") and not any(s["kind"] == "phase" for s in pre):
        c1 = cc.circuit_real(pre, c["pren"])
        if c["op"] == "append":
            c12 = c1 + cc.op_real(prog[-1])
        else:
            k = c["arg"][1]
            c2 = cc.circuit_real(prog[len(pre):], c["arg"][0])
            s2 = Snap([c1, c2])
            c12 = c1 + c2
            if s2.changed():
                out.append(("concat:mutated", "%s: concatenation modified an operand" % desc))
        if c12.n_qubits != n or list(c12.operations) != list(circ.operations):
            out.append(("concat:structure", "%s: composing gave width %s and %d operations, expected width %d and %d operations" % (desc, c12.n_qubits, len(c12.operations), n, len(prog))))
        elif prog:
            try:
                if not close(cc.to_np(c12.to_unitary()), U):
                    out.append(("concat:unitary", "%s: composed circuit's unitary is not the product of the parts" % desc))
            except Exception as ex:
                pass
    if snap.changed():
        out.append(("mutated", "%s: evaluating the circuit modified it" % desc))
    return out


def check_any(ctx, c):
    return check_lift(ctx, c) if c["op"] == "lift" else check_program(ctx, c)


def classify(ctx, key, msg, case):
    """route the two known environment/edge defects to stable keys"""
    ctx.violation(key, msg, case)


def run(ctx):
    quick = ctx.tier == "quick"
    ctx.bounds = {"lift": "all 25 alphabet gates (arity 1..3 on widths <= 3%s), every ordered tuple" % (", arity 4 on width 4" if quick else "; thorough: all on width 4"), "programs": "MaxQ=3, MaxLen=%d (+1 by concatenation)" % (1 if quick else 2), "native sets": 6}
    runs = [("lift3", dict(MaxQ=3, MaxLen=1, Alphabet="<-AlphabetAll", Mode='"lift"', Emitting=True)),
            ("lift4", dict(MaxQ=4, MaxLen=1, Alphabet="{11, 24}" if quick else "<-AlphabetAll", Mode='"lift"', Emitting=True)),
            ("programs", dict(MaxQ=3, MaxLen=1 if quick else 2, Alphabet="<-AlphabetQuick", Mode='"programs"', Emitting=True)),
            # longer programs over a tiny alphabet (H, CNOT, two phase operations) on two qubits: the native / non-native split with
            # phase operations before, between and after gates of either class (phase, gate, phase in ONE non-native run, ...)
            ("split", dict(MaxQ=2, MaxLen=3 if quick else 4, Alphabet="{1, 5}", Mode='"programs"', Emitting=True))]
    for name, consts in runs:
        res = ctx.tlc("CircuitSem", constants=consts, invariants=INV, action_constraints=["Emit"], view="ViewNoGm", coverage=False, timeout=3000)
        if len(res.emitted) < 20:
            raise TLCError("CircuitSem/%s exported only %d transitions" % (name, len(res.emitted)))
        cases = list(res.emitted)
        if name == "programs":
            # the empty program is the initial state of the specification (U = identity), never the target of a transition
            for n0 in (1, 2, 3):
                ident = [[[1 if r == c_ else 0, 0, 0, 0, 0] for c_ in range(2**n0)] for r in range(2**n0)]
                cases.append({"op": "new", "arg": [], "pre": None, "pren": n0, "prog": [], "n": n0, "U": ident, "segs": [{"nat": ["a1"], "runs": []}]})
        for c in cases:
            c["cfg"] = name
        for c, fails in zip(cases, ctx.pmap(check_any, cases)):
            small = {"k": c["op"], "cfg": name, "circuit": cc.describe(c["prog"], c["n"])}
            ctx.count(small, kind=name + ":" + c["op"])
            for key, msg in fails:
                ctx.violation(key, msg, c)
    tc = tiny_cases()
    for c, fails in zip(tc, ctx.pmap(check_tiny, tc, chunksize=2)):
        ctx.count({"k": "tiny", "gate": c["gate"], "angle": c["angle"], "n": c["n"], "q": c["q"]}, kind="tiny angles (off the ring's grid)")
        for key, msg in fails:
            ctx.violation(key, msg, c)
    ctx.bounds["tiny angles"] = "RZ, PHASE, RX, CPHASE, ZZ at 1.8e-5, 3e-6, 2e-7 rad on 2-3 qubits, single application and 200 in a row"


def check_tiny(ctx, c):
    """angles far below the grid of the exact ring (1.8e-5, 3e-6, 2e-7 rad): applying the operation, and a circuit of many such
    operations, is the gate's matrix applied - a gate that is NEARLY the identity is not the identity.  The matrices are the closed
    forms of the specification's polynomials (Gates.tla) evaluated in numpy, embedded by numpy.kron on adjacent ascending qubits."""
    import cmath

    from orquestra.quantum.circuits import CPHASE, PHASE, RX, RZ, ZZ, Circuit
    from orquestra.quantum.runners.symbolic_simulator import SymbolicSimulator

    name, th, q, n, reps = c["gate"], c["angle"], c["q"], c["n"], c["reps"]
    e = cmath.exp
    mats = {"RZ": np.diag([e(-0.5j * th), e(0.5j * th)]), "PHASE": np.diag([1, e(1j * th)]),
            "RX": np.array([[np.cos(th / 2), -1j * np.sin(th / 2)], [-1j * np.sin(th / 2), np.cos(th / 2)]]),
            "CPHASE": np.diag([1, 1, 1, e(1j * th)]), "ZZ": np.diag([e(-0.5j * th), e(0.5j * th), e(0.5j * th), e(-0.5j * th)])}
    G = mats[name]
    k = 1 if G.shape[0] == 2 else 2
    full = np.kron(np.kron(np.eye(2**q), G), np.eye(2 ** (n - q - k)))
    gate = {"RZ": RZ, "PHASE": PHASE, "RX": RX, "CPHASE": CPHASE, "ZZ": ZZ}[name](th)
    op = gate(*range(q, q + k))
    rng = np.random.RandomState(7 + n)
    v = rng.normal(size=2**n) + 1j * rng.normal(size=2**n)
    v = v / np.linalg.norm(v)
    out = []
    desc = "%s(%g)%s on %d qubits" % (name, th, tuple(range(q, q + k)), n)
    got = np.asarray(op.apply(v), dtype=complex).reshape(-1)
    if np.max(np.abs(got - full @ v)) > 1e-12:
        out.append(("tiny:apply", "%s: apply differs from the gate's matrix applied by %.3g" % (desc, np.max(np.abs(got - full @ v)))))
    if np.max(np.abs(cc.to_np(op.lifted_matrix(n)) - full)) > 1e-12:
        out.append(("tiny:lift", "%s: lifted_matrix differs from the definition" % desc))
    circ = Circuit([op] * reps, n_qubits=n)
    want = np.linalg.matrix_power(full, reps) @ v
    for nm, fn in (("bundled simulator", lambda: SymbolicSimulator().get_wavefunction(circ, initial_state=v).amplitudes), ("to_unitary", lambda: cc.to_np(circ.to_unitary()) @ v)):
        r = np.asarray(fn(), dtype=complex).reshape(-1)
        if np.max(np.abs(r - want)) > 1e-10:
            out.append(("tiny:circuit", "%s, %d times in a row, %s: final state off by %.3g" % (desc, reps, nm, np.max(np.abs(r - want)))))
    return out


def tiny_cases():
    return [{"op": "tiny", "gate": g, "angle": a, "q": q, "n": n, "reps": 200, "prog": [], "U": []} for g in ("RZ", "PHASE", "RX", "CPHASE", "ZZ") for a in (1.8e-5, 3e-6, 2e-7) for n in (2, 3) for q in (0, n - 2)]


def replay(ctx, case):
    if case.get("op") == "tiny":
        ctx.count({"k": "tiny", "gate": case["gate"], "angle": case["angle"]})
        for key, msg in check_tiny(ctx, case):
            ctx.violation(key, msg, case)
        return
    ctx.count({"k": case["op"], "circuit": cc.describe(case["prog"], case["n"])})
    fails = check_lift(ctx, case) if case["op"] == "lift" else check_program(ctx, case)
    for key, msg in fails:
        ctx.violation(key, msg, case)
