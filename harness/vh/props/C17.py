"""C17 - outcome distributions stay normalised; marginals and distances obey their laws.

spec: Distribution.tla (rationals).  TLC: NormalisedSumsToOne (invariant), SameProportions, RejectsIllFormed,
MarginalIsSumOverFibres (accumulating mechanism = fibre sums, keys in the listed order), SourceUnchanged,
SaveLoadSame as action properties over all histories to the depth bound.
spec->code: every exported transition is replayed on real MeasurementOutcomeDistribution objects (pool built
from the pre-state; string and tuple keys), all live objects compared after the call.  The distance laws
(MMD symmetric / non-negative / zero on the diagonal, clipped NLL >= entropy, symmetrised divergence symmetric)
are evaluated on the library's floats for the pairs TLC enumerates."""
import math
import os
import random
import warnings
from fractions import Fraction

import numpy as np

from ..common import Snap
from ..tlc import TLCError

# violation keys of behaviour modelled beyond the statement of the property (reported, never an alarm)
BEYOND = ("beyond:",)
INV = ["NormalisedSumsToOne", "EveryObjectWellFormed"]
PROPS = ["SameProportions", "RejectsIllFormed", "MarginalIsSumOverFibres", "SourceUnchanged", "SaveLoadSame"]


def as_dict(dj, strings=False):
    d = {}
    for e in dj:
        k = tuple(e["k"])
        if strings:
            k = "".join(map(str, k))
        d[k] = float(Fraction(e["p"][0], e["p"][1]))
    return d


def real_obj(o):
    from orquestra.quantum.distributions import MeasurementOutcomeDistribution

    with warnings.catch_warnings():
        warnings.simplefilter("ignore")
        return MeasurementOutcomeDistribution(as_dict(o["d"]), normalize=False)


def same(real, o, tol=1e-12):
    want = as_dict(o["d"])
    got = real.distribution_dict
    return set(got.keys()) == set(want.keys()) and all(abs(got[k] - want[k]) <= tol for k in want)


def check_case(ctx, c, pool=None):
    """one transition; `pool` = the live real objects produced by the earlier steps of a history (None: rebuilt from the
    abstract pre-state)"""
    from orquestra.quantum.distributions import MeasurementOutcomeDistribution, compute_clipped_negative_log_likelihood, compute_jensen_shannon_divergence, compute_mmd, load_measurement_outcome_distribution, load_measurement_outcome_distributions, save_measurement_outcome_distribution, save_measurement_outcome_distributions

    out = []
    op = c["op"]
    if pool is None:
        pool = [real_obj(o) for o in c["pre"]]
    desc = "%s(%s)" % (op, {"new": (as_dict(c["inp"]), c["nrm"]), "marginal": (c["o"], c["qs"]), "saveload": c["o"], "distance": (c["o"], c["o2"])}[op])
    res = None
    raised = None
    with warnings.catch_warnings():
        warnings.simplefilter("ignore")
        if op == "new":
            for strings in (False, True):
                inp = as_dict(c["inp"], strings)
                if strings and len({len(k) for k in inp}) > 1:
                    pass
                before = dict(inp)
                try:
                    r = MeasurementOutcomeDistribution(inp, normalize=c["nrm"])
                    raised = None
                except Exception as ex:
                    r = None
                    raised = ex
                if inp != before:
                    out.append(("new:input-mutated", "%s: the constructor modified its input dictionary" % desc))
                if (raised is not None) != (c["out"] == "rejected"):
                    out.append(("new:outcome", "%s (%s keys): %s, specification %s" % (desc, "string" if strings else "tuple", "raised %r" % raised if raised else "accepted", c["out"])))
                    break
                if r is not None:
                    if not same(r, c["post"][c["res"] - 1]):
                        out.append(("new:value", "%s: object holds %s, specification %s" % (desc, r.distribution_dict, as_dict(c["post"][c["res"] - 1]["d"]))))
                    if c["nrm"] and abs(sum(r.distribution_dict.values()) - 1) > 1e-9:
                        out.append(("new:unnormalised", "%s: probabilities sum to %s" % (desc, sum(r.distribution_dict.values()))))
                    res = r
            if res is not None:
                pool.append(res)
            if c["nrm"] and c["out"] == "rejected" and any(e_["p"][0] < 0 for e_ in c["inp"]):
                # the same ill-formed input with a NEARLY zero negative weight (round-off size, far below what the rationals of the
                # specification can express) next to weights that sum to 1: whatever is done with it, no object may hold a
                # negative probability
                keys = [tuple(e_["k"]) for e_ in c["inp"]]
                tiny = {k_: (-4e-14 if i_ == 0 else 1.0 / (len(keys) - 1)) for i_, k_ in enumerate(keys)} if len(keys) > 1 else None
                if tiny:
                    try:
                        r_ = MeasurementOutcomeDistribution(dict(tiny), normalize=c["nrm"])
                        vals = list(r_.distribution_dict.values())
                        if min(vals) < 0:
                            out.append(("new:negative-held", "new(%s, normalize=%s): the object holds a negative probability: %s" % (tiny, c["nrm"], r_.distribution_dict)))
                    except Exception:
                        pass
        elif op == "marginal":
            src = pool[c["o"] - 1]
            try:
                res = src.subdistribution(list(c["qs"]))
            except Exception as ex:
                return [("marginal:raises", "%s raised %r" % (desc, ex))]
            pool.append(res)
            want = c["post"][c["res"] - 1]
            # what came back is the caller's: editing it (post-selection in place) leaves the source as it was
            if res.distribution_dict is src.distribution_dict:
                out.append(("marginal:aliased", "%s: the marginal shares its dictionary with the source distribution" % desc))
            else:
                keep = dict(res.distribution_dict)
                src_before = dict(src.distribution_dict)
                k0 = next(iter(res.distribution_dict))
                res.distribution_dict[k0] = 0.123
                if dict(src.distribution_dict) != src_before:
                    out.append(("marginal:aliased", "%s: editing the returned marginal changed the source distribution to %s" % (desc, src.distribution_dict)))
                res.distribution_dict.clear()
                res.distribution_dict.update(keep)
            if not same(res, want):
                out.append(("marginal:value", "%s of %s = %s, fibre sums %s" % (desc, as_dict(c["pre"][c["o"] - 1]["d"]), res.distribution_dict, as_dict(want["d"]))))
        elif op == "saveload":
            p = os.path.join(ctx.tmp, "dist-%d.json" % random.getrandbits(48))
            src = pool[c["o"] - 1]
            save_measurement_outcome_distribution(src, p)
            res = load_measurement_outcome_distribution(p)
            p2 = p + "s"
            save_measurement_outcome_distributions([src, src], p2)
            two = load_measurement_outcome_distributions(p2)
            os.unlink(p)
            os.unlink(p2)
            pool.append(res)
            if not same(res, c["post"][c["res"] - 1]) or len(two) != 2 or not all(same(x, c["post"][c["res"] - 1]) for x in two):
                out.append(("saveload", "%s: loaded %s, saved %s" % (desc, res.distribution_dict, src.distribution_dict)))
        elif op == "distance":
            p, q = pool[c["o"] - 1], pool[c["o2"] - 1]
            snap = Snap([p, q])
            shared = {"sigma": np.array([0.5, 2.0, 1.25])}      # ONE parameter dictionary (widths as a float array) for both calls
            for sigma in (1.0, 0.4, [0.5, 2.0], shared):
                par = sigma if isinstance(sigma, dict) else {"sigma": sigma}
                a = compute_mmd(p, q, par if isinstance(sigma, dict) else dict(par))
                b = compute_mmd(q, p, par if isinstance(sigma, dict) else dict(par))
                if isinstance(sigma, dict):
                    if not np.array_equal(shared["sigma"], np.array([0.5, 2.0, 1.25])):
                        out.append(("mmd:parameters-mutated", "%s: compute_mmd modified the caller's kernel widths: now %s" % (desc, shared["sigma"].tolist())))
                    sigma = "array [0.5, 2.0, 1.25] shared by both calls"
                if abs(a - b) > 1e-12:
                    out.append(("mmd:symmetry", "%s: mmd(p,q)=%r, mmd(q,p)=%r (sigma %s)" % (desc, a, b, sigma)))
                if a < -1e-12:
                    out.append(("mmd:negative", "%s: mmd = %r (sigma %s)" % (desc, a, sigma)))
                if c["o"] == c["o2"] or same(p, c["pre"][c["o2"] - 1]):
                    if abs(a) > 1e-12:
                        out.append(("mmd:diagonal", "%s: mmd(p,p) = %r" % (desc, a)))
            for eps in (1e-9, 1e-3):
                nll = compute_clipped_negative_log_likelihood(p, q, {"epsilon": eps})
                ent = -sum(v * math.log(v) for v in p.distribution_dict.values() if v > 0)
                if nll < ent - 1e-9 - eps * 4:
                    out.append(("nll:entropy", "%s: clipped NLL %r is below the target's entropy %r" % (desc, nll, ent)))
                js1 = compute_jensen_shannon_divergence(p, q, {"epsilon": eps})
                js2 = compute_jensen_shannon_divergence(q, p, {"epsilon": eps})
                if abs(js1 - js2) > 1e-12:
                    out.append(("js:symmetry", "%s: symmetrised divergence %r vs %r" % (desc, js1, js2)))
            if snap.changed():
                out.append(("distance:mutated", "%s modified a distribution" % desc))
    # every live object must equal the specification's post-state (source left intact by the marginal!)
    if len(pool) != len(c["post"]):
        out.append(("pool", "%s: %d live objects, specification %d" % (desc, len(pool), len(c["post"]))))
    else:
        for j, (r, o) in enumerate(zip(pool, c["post"])):
            if not same(r, o):
                kind = "source-modified" if j < len(c["pre"]) else "result"
                out.append(("%s:%s" % (op, kind), "%s: object %d now holds %s, specification %s" % (desc, j + 1, r.distribution_dict, as_dict(o["d"]))))
    return out


def check_walk(ctx, walk):
    """a history: the same real objects live through all steps (a marginal taken twice from one object, in two orders, ...)"""
    pool = []
    out = []
    for i, c in enumerate(walk):
        fails = check_case(ctx, c, pool)
        if fails:
            hist = " -> ".join("%s%s" % (e["op"], (e["o"], e["qs"]) if e["op"] == "marginal" else "") for e in walk[: i + 1])
            return [(k + ":history", "after the history [%s]: %s" % (hist, m)) for k, m in fails]
        if len(pool) != len(c["post"]):
            break
    return out


DIST_INV = ["OrderIrrelevant", "Symmetric", "ZeroOnDiagonal", "NonNegativeGaussian", "Normalised"]
SIGMA_HALF = 1.0 / (2.0 * math.log(2.0))  # exp(-d^2 / (2 sigma)) = 2^-(d^2): the specification's exact Gaussian kernel


def check_distance_pair(ctx, c):
    """Distances.tla -> real distributions built with the SAME insertion orders; the laws on the library's floats"""
    from orquestra.quantum.distributions import MeasurementOutcomeDistribution, compute_clipped_negative_log_likelihood, compute_jensen_shannon_divergence, compute_mmd

    out = []
    with warnings.catch_warnings():
        warnings.simplefilter("ignore")
        P = MeasurementOutcomeDistribution({tuple(e["k"]): float(e["raw"]) for e in c["p"]})
        Q = MeasurementOutcomeDistribution({tuple(e["k"]): float(e["raw"]) for e in c["q"]})
    desc = "p = %s, q = %s (insertion order as listed)" % (["".join(map(str, e["k"])) for e in c["p"]], ["".join(map(str, e["k"])) for e in c["q"]])
    snap = Snap([P, Q])
    code = lambda k: int("".join(map(str, k)), 2)
    keys = sorted(set(P.distribution_dict) | set(Q.distribution_dict))
    diff = [P.distribution_dict.get(k, 0.0) - Q.distribution_dict.get(k, 0.0) for k in keys]
    for sigma in (1.0, 0.4, [0.5, 2.0], SIGMA_HALF):
        sig = sigma if isinstance(sigma, list) else [sigma]
        a = compute_mmd(P, Q, {"sigma": sigma})
        b = compute_mmd(Q, P, {"sigma": sigma})
        d = compute_mmd(P, P, {"sigma": sigma})
        a2 = compute_mmd(P, Q, {"sigma": sigma})
        if abs(a - b) > 1e-12:
            out.append(("mmd:symmetry", "%s: mmd(p,q)=%r, mmd(q,p)=%r (sigma %s)" % (desc, a, b, sigma)))
        if a < -1e-12 or b < -1e-12:
            out.append(("mmd:negative", "%s: mmd = %r / %r (sigma %s)" % (desc, a, b, sigma)))
        if abs(d) > 1e-12:
            out.append(("mmd:diagonal", "%s: mmd(p,p) = %r (sigma %s)" % (desc, d, sigma)))
        if a2 != a:
            out.append(("mmd:unstable", "%s: the same call gave %r and then %r (sigma %s)" % (desc, a, a2, sigma)))
        ref = sum(diff[i] * diff[j] * sum(math.exp(-((code(x) - code(y)) ** 2) / (2 * s_)) for s_ in sig) / len(sig) for i, x in enumerate(keys) for j, y in enumerate(keys))
        if abs(a - ref) > 1e-10:
            out.append(("beyond:mmd:definition", "%s: mmd = %r, quadratic form of the definition %r (sigma %s)" % (desc, a, ref, sigma)))
    if c["gauss"][0] >= 0:
        want = c["gauss"][0] / c["gauss"][1]
        got = compute_mmd(P, Q, {"sigma": SIGMA_HALF})
        if abs(got - want) > 1e-10:
            out.append(("beyond:mmd:exact", "%s: mmd with exp(-1/(2 sigma)) = 1/2 is %r, exact value %s/%s" % (desc, got, c["gauss"][0], c["gauss"][1])))
    for eps in (1e-9, 1e-3):
        nll = compute_clipped_negative_log_likelihood(P, Q, {"epsilon": eps})
        ent = -sum(v * math.log(v) for v in P.distribution_dict.values() if v > 0)
        if nll < ent - 1e-9 - eps * 4:
            out.append(("nll:entropy", "%s: clipped NLL %r is below the target's entropy %r" % (desc, nll, ent)))
        if compute_clipped_negative_log_likelihood(P, Q, {"epsilon": eps}) != nll:
            out.append(("nll:unstable", "%s: the same call gave two different values" % desc))
        js1 = compute_jensen_shannon_divergence(P, Q, {"epsilon": eps})
        js2 = compute_jensen_shannon_divergence(Q, P, {"epsilon": eps})
        if abs(js1 - js2) > 1e-12:
            out.append(("js:symmetry", "%s: symmetrised divergence %r vs %r" % (desc, js1, js2)))
    if snap.changed():
        out.append(("distance:mutated", "%s: a distance computation modified a distribution" % desc))
    return out


def check_distances(ctx):
    quick = ctx.tier == "quick"
    pairs = []
    res = ctx.tlc("Distances", constants=dict(W=2, MaxKeys=3 if quick else 4, Emitting=True), invariants=DIST_INV, action_constraints=["Emit"], deadlock=False, coverage=False, timeout=1800)
    pairs += res.emitted
    for w, mk, num in ((3, 6, 150 if quick else 1500), (4, 9, 150 if quick else 1500)):
        r = ctx.tlc("Distances", constants=dict(W=w, MaxKeys=mk, Emitting=True), invariants=DIST_INV, action_constraints=["Emit"], deadlock=False, coverage=False, timeout=1800, simulate="num=%d" % num, depth=2 * mk + 4, workers=1)
        pairs += r.emitted
    if len(pairs) < 1000:
        raise TLCError("Distances exported only %d pairs" % len(pairs))
    ctx.bounds["distance pairs"] = "all pairs of insertion sequences of <= %d of 4 outcomes (exhaustive); TLC-simulated pairs on 3 and 4 bits with <= 6 / 9 outcomes each" % (3 if quick else 4)
    for c, fails in zip(pairs, ctx.pmap(check_distance_pair, pairs, chunksize=32)):
        ctx.count({"k": "distance-pair", "p": [e["k"] for e in c["p"]], "q": [e["k"] for e in c["q"]]}, kind="distance pair (insertion orders)")
        for key, msg in fails:
            ctx.violation(key, msg, {"k": "distance-pair", "c": c})


def check_target(ctx, c):
    """Targets.tla -> the generators of target distributions (beyond the statement of C17: reported, never an alarm)"""
    from orquestra.quantum.distributions.BAS_dataset import bars_and_stripes_zigzag, get_bars_and_stripes_target_distribution, get_num_bars_and_stripes_patterns
    from orquestra.quantum.distributions.target_thermal_states import get_cardinality_distribution, get_thermal_sampled_distribution, get_thermal_target_measurement_outcome_distribution

    out = []
    if c["kind"] == "bas":
        r, cc_ = c["r"], c["c"]
        want = {tuple(p) for p in c["patterns"]}
        got = {tuple(int(x) for x in row) for row in bars_and_stripes_zigzag(r, cc_)}
        if got != want:
            out.append(("beyond:targets:bas-patterns", "bars and stripes %dx%d: %d patterns, specification %d (pictures with all rows equal or all columns equal); differing: %s" % (r, cc_, len(got), len(want), sorted(got ^ want)[:3])))
        if get_num_bars_and_stripes_patterns(r, cc_) != c["count"]:
            out.append(("beyond:targets:bas-count", "number of %dx%d patterns reported as %d, specification %d" % (r, cc_, get_num_bars_and_stripes_patterns(r, cc_), c["count"])))
        random.seed(ctx.seed)
        d = get_bars_and_stripes_target_distribution(r, cc_, 1.0).distribution_dict
        if {tuple(k) for k in d} != want or any(abs(v - 1.0 / len(want)) > 1e-12 for v in d.values()):
            out.append(("beyond:targets:bas-distribution", "target distribution %dx%d is not uniform on the %d patterns: %s" % (r, cc_, len(want), d)))
        half = get_bars_and_stripes_target_distribution(r, cc_, 0.5).distribution_dict
        nwant = max(int(len(want) * 0.5), 1)
        if len(half) != nwant or not {tuple(k) for k in half} <= want or abs(sum(half.values()) - 1) > 1e-12:
            out.append(("beyond:targets:bas-fraction", "half of the %dx%d patterns: %d outcomes (expected %d), all patterns: %s" % (r, cc_, len(half), nwant, {tuple(k) for k in half} <= want)))
        return out
    n = len(c["h"])
    hh = np.array([float(x) for x in c["h"]])
    jj = np.zeros((n, n))
    for q, v in enumerate(c["J"]):
        jj[q, q + 1] = jj[q + 1, q] = float(v)
    temp = 1.0 / math.log(2.0)
    d = get_thermal_target_measurement_outcome_distribution(n, temp, (hh, jj)).distribution_dict
    want = [Fraction(p[0], p[1]) for p in c["probs"]]
    keys = [tuple((i >> (n - 1 - q)) & 1 for q in range(n)) for i in range(2**n)]
    if list(d.keys()) != keys or any(abs(d[k] - float(w)) > 1e-12 for k, w in zip(keys, want)):
        out.append(("beyond:targets:thermal", "thermal target for h=%s J=%s at e^(1/T)=2: %s, specification %s" % (c["h"], c["J"], {k: round(v, 6) for k, v in d.items()}, [str(w) for w in want])))
    np.random.seed(ctx.seed)
    ns = 12
    sd = get_thermal_sampled_distribution(ns, n, temp, (hh, jj)).distribution_dict
    if list(sd.keys()) != keys or abs(sum(sd.values()) - 1) > 1e-9 or any(v > 0 and float(want[i]) == 0 for i, v in enumerate(sd.values())) or any(abs(v * ns - round(v * ns)) > 1e-9 for v in sd.values()):
        out.append(("beyond:targets:thermal-sampled", "sampled thermal distribution for h=%s J=%s: %s" % (c["h"], c["J"], sd)))
    else:
        card = get_cardinality_distribution(ns, n, get_thermal_sampled_distribution(ns, n, temp, (hh, jj)))
        if any(x < 0 or x > n for x in card):
            out.append(("beyond:targets:cardinality", "cardinalities %s outside 0..%d" % (card, n)))
    return out


def check_targets(ctx):
    quick = ctx.tier == "quick"
    res = ctx.tlc("Targets", constants=dict(MaxDim=3 if quick else 4, MaxSpins=3 if quick else 4, Emitting=True), invariants=["BASOk", "ThermalOk"], action_constraints=["Emit"], deadlock=False, workers=4, coverage=False, timeout=1800)
    if len(res.emitted) < 100:
        raise TLCError("Targets exported only %d instances" % len(res.emitted))
    for c, fails in zip(res.emitted, ctx.pmap(check_target, res.emitted, chunksize=16)):
        ctx.count({"k": "target:" + c["kind"], "r": c.get("r"), "c": c.get("c"), "h": c.get("h"), "J": c.get("J")}, kind="target distributions (beyond the property)")
        for key, msg in fails:
            ctx.violation(key, msg, {"k": "target", "c": c})


def check_guard(ctx):
    """DistanceGuard.tla -> evaluate_distribution_distance and create_bitstring_distribution_from_probability_distribution"""
    from orquestra.quantum.distributions import MeasurementOutcomeDistribution, evaluate_distribution_distance
    from orquestra.quantum.distributions._measurement_outcome_distribution import create_bitstring_distribution_from_probability_distribution

    res = ctx.tlc("DistanceGuard", constants=dict(MaxN=4, Emitting=True), invariants=["ReachedIffConsistent", "ClassSymmetric", "LengthBeforeNormalisation", "EmitKeys"], action_constraints=["Emit"], workers=2, coverage=False, timeout=600)
    pairs = [e for e in res.emitted if "out" in e]
    keys = [e for e in res.emitted if "keys" in e]
    if len(pairs) != 25 or len(keys) != 1:
        raise TLCError("DistanceGuard exported %d pairs / %d key tables" % (len(pairs), len(keys)))

    def real(x):
        if x["k"] != "dist":
            return {(0,): 0.5, (1,): 0.5}      # a plain dictionary, not a distribution object
        ks = [tuple((i >> (x["w"] - 1 - q)) & 1 for q in range(x["w"])) for i in range(2 ** x["w"])]
        with warnings.catch_warnings():
            warnings.simplefilter("ignore")
            return MeasurementOutcomeDistribution({k_: (j + 1.0) / (1 if not x["nrm"] else sum(range(1, len(ks) + 1))) for j, k_ in enumerate(ks)}, normalize=False)

    for e in pairs:
        c = {"k": "guard", "a": e["a"], "b": e["b"]}
        ctx.count(c, kind="evaluate_distribution_distance (beyond the property)")
        A, B = real(e["a"]), real(e["b"])
        calls = []

        def f(t_, m_, **kw):
            calls.append((t_, m_, kw))
            return 0.375

        try:
            v = evaluate_distribution_distance(A, B, f, sigma=0.5, tag="x")
            out = "value"
        except TypeError:
            out, v = "TypeError", None
        except RuntimeError as ex:
            out, v = ("RuntimeError:length" if "length" in str(ex) else "RuntimeError:normalisation"), None
        except Exception as ex:
            out, v = "other:" + type(ex).__name__, None
        desc = "evaluate_distribution_distance(%s, %s)" % (e["a"], e["b"])
        if out.split(":")[0] != e["out"].split(":")[0]:
            ctx.violation("beyond:guard:outcome", "%s: %s, specification %s" % (desc, out, e["out"]), c)
        elif out != e["out"]:
            ctx.spec_drift("evaluate_distribution_distance: error message / guard order differs: %s vs %s" % (out, e["out"]))
        if len(calls) != e["ncalls"]:
            ctx.violation("beyond:guard:calls", "%s: the distance function was called %d time(s), specification %d" % (desc, len(calls), e["ncalls"]), c)
        elif calls and (calls[0][0] is not A or calls[0][1] is not B or calls[0][2] != {"sigma": 0.5, "tag": "x"} or v != 0.375):
            ctx.violation("beyond:guard:pass-through", "%s: the function did not receive (target, measured, keyword arguments) as given, or its value was not returned" % desc, c)
    for n, want in enumerate(keys[0]["keys"], start=1):
        c = {"k": "fromprobs", "n": n}
        ctx.count(c, kind="distribution from a probability vector (beyond the property)")
        probs = np.arange(1, 2**n + 1, dtype=float)
        probs = probs / probs.sum()
        d = create_bitstring_distribution_from_probability_distribution(probs).distribution_dict
        got = [list(k_) for k_ in d.keys()]
        if got != want or any(abs(d[tuple(k_)] - probs[i]) > 1e-12 for i, k_ in enumerate(want)):
            ctx.violation("beyond:fromprobs", "distribution from a vector of %d probabilities: entry i is not the probability of the %d-bit expansion of i (most significant first): %s" % (2**n, n, {k_: round(v_, 4) for k_, v_ in d.items()}), c)


def known_k4(ctx):
    """single-subsystem outcomes >= 10 are not representable by the file format (key '10' reads back as (1, 0))"""
    from orquestra.quantum.distributions import MeasurementOutcomeDistribution, load_measurement_outcome_distribution, save_measurement_outcome_distribution

    p = os.path.join(ctx.tmp, "k4.json")
    d = MeasurementOutcomeDistribution({(10,): 0.25, (3,): 0.75})
    save_measurement_outcome_distribution(d, p)
    try:
        back = load_measurement_outcome_distribution(p).distribution_dict
    except Exception as ex:
        back = {"raised": repr(ex)}
    ctx.count({"k": "single-subsystem outcome >= 10", "saved": {"(10,)": 0.25, "(3,)": 0.75}})
    if back != d.distribution_dict:
        if (1, 0) in back or "raised" in back:
            ctx.known("K4", "save/load of {(10,): .25, (3,): .75} returned %s" % (back,))
        else:
            ctx.violation("saveload:single-subsystem", "save/load of a single-subsystem distribution returned %s" % (back,), {"k": "k4"})


def run(ctx):
    quick = ctx.tier == "quick"
    depth = 4
    ctx.bounds = {"MaxObjs": 3, "Depth(levels)": depth, "inputs": 12, "outcome values": "0..2", "widths": "1..2"}
    res = ctx.tlc("Distribution", constants=dict(MaxObjs=3, Depth=depth, Emitting=True), invariants=INV, properties=PROPS, constraints=["DepthBound"], action_constraints=["Emit"], view="ViewObjs", coverage=False, timeout=3000)
    cases = res.emitted
    if len(cases) < 200:
        raise TLCError("Distribution exported only %d transitions" % len(cases))
    for c, fails in zip(cases, ctx.pmap(check_case, cases, chunksize=16)):
        ctx.count({"k": c["op"], "o": c["o"], "qs": c["qs"], "inp": c["inp"], "nrm": c["nrm"], "pre": len(c["pre"])}, kind=c["op"])
        for key, msg in fails:
            ctx.violation(key, msg, c)
    # histories: every exported transition is also the LAST step of a walk from the empty pool on which the real objects persist
    from ..graph import Graph

    edges = [dict(c) for c in cases]
    g = Graph(edges, [])
    rng = random.Random(ctx.seed)
    walks = [w for w in g.walks(rng, select=lambda e: len(e["pre"]) >= 2 or e["op"] in ("marginal", "distance")) if len(w) >= 2]
    if len(walks) < 100:
        raise TLCError("only %d histories assembled from the transition graph" % len(walks))
    for w, fails in zip(walks, ctx.pmap(check_walk, walks, chunksize=16)):
        ctx.count({"k": "history", "ops": [e["op"] for e in w], "last": {"o": w[-1]["o"], "qs": w[-1]["qs"]}}, kind="history of %d steps" % len(w))
        for key, msg in fails:
            ctx.violation(key, msg, {"k": "walk", "walk": [{k: v for k, v in e.items() if not k.startswith("_")} for e in w]})
    check_distances(ctx)
    check_targets(ctx)
    check_guard(ctx)
    known_k4(ctx)
    ctx.judged_numerically += ["MMD symmetry / non-negativity / zero on the diagonal, clipped NLL >= entropy, symmetry of the symmetrised divergence: evaluated on the library's floats for the pairs TLC enumerates"]
    ctx.assumptions.append("marginal keys are built by joining digits: outcome values >= 10 are outside the model")


def replay(ctx, case):
    if case.get("k") in ("k4", "finding"):
        known_k4(ctx)
        return
    if case.get("k") in ("guard", "fromprobs"):
        check_guard(ctx)
        return
    if case.get("k") == "target":
        for key, msg in check_target(ctx, case["c"]):
            ctx.violation(key, msg, case)
        return
    if case.get("k") == "distance-pair":
        ctx.count({"k": "distance-pair"})
        for key, msg in check_distance_pair(ctx, case["c"]):
            ctx.violation(key, msg, case)
        return
    if case.get("k") == "walk":
        ctx.count({"k": "history"})
        for key, msg in check_walk(ctx, case["walk"]):
            ctx.violation(key, msg, case)
        return
    ctx.count({"k": case["op"]})
    for key, msg in check_case(ctx, case):
        ctx.violation(key, msg, case)
