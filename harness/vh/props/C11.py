"""C11 - operators and result artefacts survive dict, file and text round trips.

spec: Persist.tla - transcriptions of every to-document / from-document pair (optional keys, the {real[, imag]} array
dictionaries with their truthiness tests, tuples stored as lists, like terms merged while an operator is rebuilt)
and of the operator's printed form and parser; TLC checks LoadAfterSaveEqual for every artefact kind and variant,
OpDictRoundTripDenotes / OpDictRoundTripExact (simplified operators) and ReprParseDenotes, and refutes the parser
that rejects the bare `I` (as found, F7) and the loader that requires the optional frame measurements (F8).
spec->code: every exported (artefact, route) is replayed with real files in a temporary directory, through a path
and through an open handle, real JSON text, operator sets and the printed text; abstract numbers are mapped to
several families of concrete literals (integers, inexact decimals, exponent format, large values, negative zero)."""
import io
import json
import os
import random

import numpy as np

from ..common import Snap
from ..tlc import TLCError

# violation keys of behaviour modelled beyond the statement of the property (reported, never an alarm)
BEYOND = ("layout:",)
INV = ["LoadAfterSaveEqual", "OpDictRoundTripDenotes", "OpDictRoundTripExact", "ReprParseDenotes"]
# families of concrete literals for the specification's small integers (coefficient classes Python prints differently)
FAMILIES = {
    "small integers": lambda k: float(k),
    "inexact decimals": lambda k: k * 0.1,
    "exponent format": lambda k: k * 1e-05,
    "large": lambda k: k * 12345678901234.0,
    # complex coefficients whose imaginary part is small only RELATIVE to the real part (1000 + 0.005j): "imaginary parts exactly"
    "relatively small imaginary part": lambda k: k * 1000.0,
}


def tmpfile(ctx, tag):
    return os.path.join(ctx.tmp, "c11-%s-%d.json" % (tag, random.getrandbits(48)))


def coef(c, fam):
    f = FAMILIES[fam]
    if c["cls"] == "int":
        return int(c["re"]) if fam == "small integers" else f(c["re"])
    if c["cls"] == "float":
        return f(c["re"])
    if fam == "relatively small imaginary part":
        return complex(c["re"] * 1000.0 if c["re"] else 2000.0, c["im"] * 0.005)
    return complex(f(c["re"]), f(c["im"]))


def real_terms(op, fam):
    from orquestra.quantum.operators import PauliTerm

    return [PauliTerm({q: l for q, l in t["ops"]}, coef(t, fam)) for t in op]


def canon(op):
    d = {}
    for t in op.terms:
        k = frozenset(t.operations)
        d[k] = d.get(k, 0) + complex(t.coefficient)
    return {k: v for k, v in d.items() if abs(v) > 0}


def same_matrix(a, b):
    ca, cb = canon(a), canon(b)
    scale = max([1e-300] + [abs(v) for v in ca.values()] + [abs(v) for v in cb.values()])
    for k in set(ca) | set(cb):
        if abs(ca.get(k, 0) - cb.get(k, 0)) > 1e-12 * scale:
            return False
    return True


def same_terms_exact(a, b):
    ta, tb = list(a.terms), list(b.terms)
    if len(ta) != len(tb):
        return False
    for x, y in zip(ta, tb):
        if dict(x._ops) != dict(y._ops):
            return False
        cx, cy = complex(x.coefficient), complex(y.coefficient)
        if cx.real != cy.real or cx.imag != cy.imag:
            return False
    return True


def check_operator(ctx, art, via, out):
    from orquestra.quantum.operators import PauliSum, PauliTerm, convert_dict_to_op, convert_op_to_dict, load_operator, load_operator_set, save_operator, save_operator_set

    for fam in FAMILIES:
        terms = real_terms(art["v"], fam)
        op = PauliSum(terms)
        desc = "%s [%s]" % (op, fam)
        objs = [op] + ([terms[0]] if len(terms) == 1 else [])  # a single term also as a bare PauliTerm
        for o in objs:
            # serialisation shares one process: an operator that is NEARLY this one (every coefficient shifted by a few 1e-7: a
            # finite-difference step; equal under the operators' tolerant == and hash) is serialised first, and once more afterwards
            near = None
            if via in ("dict", "json", "path"):
                try:
                    nt = [PauliTerm(dict(t._ops), complex(t.coefficient) * (1 + 3e-7) + 2e-7) for t in o.terms]
                    near = PauliSum(nt) if isinstance(o, PauliSum) else nt[0]
                    convert_op_to_dict(near)
                except Exception:
                    near = None
            snap = Snap([o])
            try:
                if via == "dict":
                    back = convert_dict_to_op(convert_op_to_dict(o))
                elif via == "json":
                    back = convert_dict_to_op(json.loads(json.dumps(convert_op_to_dict(o))))
                elif via in ("path", "handle"):
                    p = tmpfile(ctx, "op")
                    save_operator(o, p)
                    if via == "path":
                        back = load_operator(p)
                    else:
                        with open(p) as f:
                            back = load_operator(f)
                    os.unlink(p)
                elif via == "set":
                    p = tmpfile(ctx, "ops")
                    other = PauliSum([PauliTerm({3: "Z"}, 0.25)])
                    save_operator_set([o, other, o], p)
                    got = load_operator_set(p)
                    with open(p) as f:
                        got2 = load_operator_set(f)
                    os.unlink(p)
                    if len(got) != 3 or len(got2) != 3 or not same_matrix(got[1], other) or not same_matrix(got2[2], o):
                        out.append(("operator-set", "%s: a set of three operators came back as %s" % (desc, got)))
                        continue
                    back = got[0]
                elif via == "text":
                    text = str(o)
                    back = PauliSum(text) if isinstance(o, PauliSum) else PauliTerm(text)
                else:
                    raise KeyError(via)
            except Exception as ex:
                out.append((via + ":raises", "%s through %s raised %s: %s (printed form %r)" % (desc, via, type(ex).__name__, str(ex)[:150], str(o))))
                continue
            if snap.changed():
                out.append((via + ":mutated", "%s: the route %s modified the operator" % (desc, via)))
            if near is not None:
                try:
                    back_near = convert_dict_to_op(json.loads(json.dumps(convert_op_to_dict(near))))
                    if not same_matrix(back_near, near):
                        out.append((via + ":neighbour", "%s: after it had been serialised, the nearly equal operator %r came back as %r" % (desc, near, back_near)))
                except Exception as ex:
                    out.append((via + ":neighbour-raises", "%s: serialising a nearly equal operator afterwards raised %s: %s" % (desc, type(ex).__name__, str(ex)[:150])))
            if not same_matrix(back, o):
                out.append((via + ":matrix", "%s through %s came back as %s (another matrix)" % (desc, via, back)))
            elif via != "text" and art["simplified"] and not same_terms_exact(PauliSum(list(back.terms)), PauliSum(list(o.terms))):
                out.append((via + ":terms", "%s (simplified) through %s came back with other terms / coefficient parts: %s" % (desc, via, back)))


def np_arr(a, twod=False):
    items = a["items"]
    if a["cx"]:
        arr = np.array([complex(0.5 * r, 0.25 * i) for r, i in items], dtype=complex)
    else:
        arr = np.array([0.5 * r for r, i in items], dtype=float)
    return arr.reshape(1, -1) if twod else arr


def frames(f, variant):
    """None / [] / list of 2-D arrays"""
    if not f["present"]:
        return None
    return [np_arr(a, twod=True) for a in f["fs"]]


def frames_eq(a, b):
    a = a or []
    b = b or []
    return len(a) == len(b) and all(np.asarray(x).shape == np.asarray(y).shape and np.array_equal(np.asarray(x), np.asarray(y)) for x, y in zip(a, b))


def load_both(load, path, via):
    if via == "path":
        return load(path)
    with open(path) as f:
        return load(f)


def check_other(ctx, art, via, out):
    from orquestra.quantum.circuits.layouts import CircuitConnectivity, CircuitLayers, load_circuit_connectivity, load_circuit_layers, load_circuit_ordering, save_circuit_connectivity, save_circuit_layers, save_circuit_ordering
    from orquestra.quantum.measurements import ExpectationValues, Measurements, Parities, load_expectation_values, load_parities, save_expectation_values, save_parities
    from orquestra.quantum.utils import ValueEstimate, convert_array_to_dict, convert_dict_to_array, load_list, load_nmeas_estimate, load_value_estimate, save_list, save_nmeas_estimate, save_value_estimate

    kind, v = art["kind"], art["v"]
    p = tmpfile(ctx, kind)
    desc = "%s %s via %s" % (kind, json.dumps(v)[:200], via)
    try:
        if kind == "array":
            a = np_arr(v)
            back = convert_dict_to_array(json.loads(json.dumps(convert_array_to_dict(a))))
            if back.shape != a.shape or not np.array_equal(back, a):
                out.append(("array", "%s: %s came back as %s" % (desc, a, back)))
            a2 = np_arr(v, twod=True)
            back2 = convert_dict_to_array(json.loads(json.dumps(convert_array_to_dict(a2))))
            if back2.shape != a2.shape or not np.array_equal(back2, a2):
                out.append(("array:2d", "%s: %s came back as %s" % (desc, a2, back2)))
        elif kind == "expvals":
            ev = ExpectationValues(np_arr(v["values"]), frames(v["corr"], 0), frames(v["cov"], 0))
            save_expectation_values(ev, p)
            back = load_both(load_expectation_values, p, via)
            if not np.array_equal(back.values, ev.values) or not frames_eq(back.correlations, ev.correlations) or not frames_eq(back.estimator_covariances, ev.estimator_covariances):
                out.append(("expectation-values", "%s: loaded values %s correlations %s covariances %s" % (desc, back.values, back.correlations, back.estimator_covariances)))
        elif kind == "parities":
            vals = np.array([[3, 1], [0, 4]])
            par = Parities(vals, [np.arange(8).reshape(2, 2, 2) + int(a["items"][0][0]) for a in v["corr"]["fs"]] if v["corr"]["present"] else None)
            save_parities(par, p)
            back = load_both(load_parities, p, via)
            if not np.array_equal(back.values, par.values) or not frames_eq(back.correlations, par.correlations):
                out.append(("parities", "%s: loaded %s / %s" % (desc, back.values, back.correlations)))
        elif kind == "valest":
            for val, prec in ((0.5 * v["value"], 0.125 if v["hasPrec"] else None), (np.float64(1e-05 * v["value"]), np.float64(0.001) if v["hasPrec"] else None)):
                est = ValueEstimate(val, prec)
                save_value_estimate(est, p)
                back = load_both(load_value_estimate, p, via)
                if float(back) != float(est) or (back.precision is None) != (est.precision is None) or (est.precision is not None and float(back.precision) != float(est.precision)) or not (back == est):
                    out.append(("value-estimate", "%s: ValueEstimate(%r, %r) came back as (%r, %r)" % (desc, val, prec, float(back), back.precision)))
        elif kind == "meas":
            m = Measurements([tuple(b) for b in v])
            m.save(p)
            back = load_both(Measurements.load_from_file, p, via)
            if list(back.bitstrings) != list(m.bitstrings) or any(not isinstance(b, tuple) for b in back.bitstrings):
                out.append(("measurements", "%s: loaded %s" % (desc, back.bitstrings)))
        elif kind == "layers":
            lay = CircuitLayers([[tuple(x) for x in layer] for layer in v])
            save_circuit_layers(lay, p)
            back = load_both(load_circuit_layers, p, via)
            if back.layers != lay.layers:
                out.append(("layers", "%s: loaded %s" % (desc, back.layers)))
            order = [len(layer) for layer in v] + [5, 0, 3]
            save_circuit_ordering(order, p)
            if load_both(load_circuit_ordering, p, via) != order:
                out.append(("ordering", "%s: ordering %s not returned" % (desc, order)))
            lst = [0.5, -3, [1, 2.25], "a", None, [len(v)]]
            save_list(lst, p)
            if load_both(load_list, p, via) != lst:
                out.append(("list", "%s: list %s not returned" % (desc, lst)))
            save_list([], p)
            if load_both(load_list, p, via) != []:
                out.append(("list", "%s: the empty list is not returned" % desc))
        elif kind == "connectivity":
            con = CircuitConnectivity([tuple(x) for x in v])
            save_circuit_connectivity(con, p)
            back = load_both(load_circuit_connectivity, p, via)
            if back.connectivity != con.connectivity:
                out.append(("connectivity", "%s: loaded %s" % (desc, back.connectivity)))
        elif kind == "nmeas":
            fm = np_arr(v["frames"]) * 4 if v["hasFrames"] else None
            save_nmeas_estimate(0.5 * v["k"], v["nterms"], p, fm)
            k, nt, back = load_nmeas_estimate(p)
            if k != 0.5 * v["k"] or nt != v["nterms"] or (fm is None) != (back is None) or (fm is not None and not np.array_equal(back, fm)):
                out.append(("nmeas", "%s: loaded (%s, %s, %s)" % (desc, k, nt, back)))
        else:
            raise KeyError(kind)
    except Exception as ex:
        from ..common import library_raised

        if library_raised(ex) is None and not isinstance(ex, (KeyError, TypeError, ValueError)):
            raise
        out.append((kind + ":raises", "%s raised %s: %s" % (desc, type(ex).__name__, str(ex)[:200])))
    finally:
        if os.path.exists(p):
            os.unlink(p)


def check_case(ctx, c):
    out = []
    if c["art"]["kind"] == "operator":
        check_operator(ctx, c["art"], c["via"], out)
    else:
        check_other(ctx, c["art"], c["via"], out)
    seen, uniq = set(), []
    for k, m in out:
        if k not in seen:
            seen.add(k)
            uniq.append((k, m))
    return uniq


def check_literals(ctx):
    """printed forms Python produces for coefficients that the abstract families do not reach"""
    from orquestra.quantum.operators import PauliSum, PauliTerm

    coefs = [2, -3, 0.5, 1e-05, -0.0, 2j, -2j, (1 + 2j), (1e-05 - 3j), (-1 - 1e-07j), 123456789012345.0, -7.25e-12, complex(0.0, -0.5), complex(3.0, 0.0), 999999999999999.9]
    for cf in coefs:
        for ops in ({}, {0: "X"}, {12: "Y", 3: "Z", 100: "X"}):
            t = PauliTerm(dict(ops), cf)
            for o in (t, PauliSum([t, PauliTerm({1: "Z"}, 0.75)]), PauliSum([PauliTerm({1: "Z"}, 0.75), t])):
                ctx.count({"k": "literal", "text": str(o)}, kind="printed coefficient literals")
                try:
                    back = PauliSum(str(o)) if isinstance(o, PauliSum) else PauliTerm(str(o))
                except Exception as ex:
                    ctx.violation("text:raises", "the printed form %r is rejected by the parser: %s: %s" % (str(o), type(ex).__name__, str(ex)[:100]), {"k": "literal", "text": str(o)})
                    continue
                if not same_matrix(back, o):
                    ctx.violation("text:matrix", "the printed form %r parses back as %s" % (str(o), back), {"k": "literal", "text": str(o)})


def check_layouts(ctx):
    """beyond the listed clauses: the layer / connectivity builders (Layout.tla, LayoutTrace.tla)"""
    from orquestra.quantum.circuits.layouts import build_circuit_layers_and_connectivity

    res = ctx.tlc("Layout", constants=dict(MaxN=9), invariants=["ChainIsLayered"], action_constraints=["Emit"], workers=2, coverage=False, timeout=600)
    for e in res.emitted:
        ctx.count({"k": "layout-chain", "n": e["n"]}, kind="chain layouts (spec->code)")
        conn, lay = build_circuit_layers_and_connectivity(e["n"])
        if [list(x) for x in conn.connectivity] != [list(x) for x in e["conn"]] or [[list(x) for x in l_] for l_ in lay.layers] != [[list(x) for x in l_] for l_ in e["layers"]]:
            ctx.violation("layout:chain", "nearest-neighbour layout of %d qubits: connectivity %s layers %s, specification %s / %s" % (e["n"], conn.connectivity, lay.layers, e["conn"], e["layers"]), {"k": "layout", "n": e["n"]})
    lines, dims = [], []
    for x in range(1, 6):
        for y in range(2, 6):
            try:
                conn, lay = build_circuit_layers_and_connectivity(x, y, "sycamore")
            except Exception as ex:
                ctx.violation("layout:sycamore-raises", "sycamore layout %dx%d raised %s: %s" % (x, y, type(ex).__name__, str(ex)[:100]), {"k": "layout", "x": x, "y": y})
                continue
            lines.append({"kind": "sycamore", "qubits": x * y, "conn": [[int(a) for a in c_] for c_ in conn.connectivity], "layers": [[[int(a) for a in c_] for c_ in l_] for l_ in lay.layers]})
            dims.append((x, y))
    for nq in range(2, 10):
        conn, lay = build_circuit_layers_and_connectivity(nq)
        lines.append({"kind": "chain", "qubits": nq, "conn": [list(c_) for c_ in conn.connectivity], "layers": [[list(c_) for c_ in l_] for l_ in lay.layers]})
        dims.append((nq, None))
    # the binding must bite: a CANARY line (the last chain layout with one connection listed in two layers) has to be rejected
    import copy

    can = copy.deepcopy(lines[-1])
    can["layers"][1] = can["layers"][1] + [can["layers"][0][0]]
    lines.append(can)
    dims.append(("canary", None))
    path = os.path.join(ctx.tmp, "layouts.ndjson")
    with open(path, "w") as f:
        for ln in lines:
            f.write(json.dumps(ln) + "\n")
    tr = ctx.tlc("LayoutTrace", init="TInit", next_="TNext", constants=dict(MaxN=0), workers=1, env={"TRACE_FILE": path}, coverage=False, timeout=600)
    if tr.distinct < len(lines):
        raise TLCError("LayoutTrace consumed %d of %d lines" % (tr.distinct, len(lines)))
    rej = [e for e in tr.emitted if "reject" in e]
    if not any(rj["reject"] == len(lines) for rj in rej):
        raise TLCError("binding self-test failed: LayoutTrace accepted the canary line (a connection listed in two layers)")
    ctx.by_kind["canary lines rejected by the trace specification"] = 1
    rej = [rj for rj in rej if rj["reject"] != len(lines)]
    lines.pop()
    for rj in rej:
        d = dims[rj["reject"] - 1]
        ctx.violation("layout:" + ",".join(sorted(rj["failed"])), "the layout built for dimensions %s is not a layering of its connectivity: %s fail" % (d, sorted(rj["failed"])), {"k": "layout", "dims": d})
    ctx.traces_validated += len(lines) - len(rej)


def check_save_walk(ctx, walk):
    """PersistHist.tla: ONE Measurements object and two paths live through the whole behaviour"""
    from orquestra.quantum.measurements import Measurements

    out = []
    first = walk[0]["pre"]["obj"]
    m = Measurements([tuple(b) for b in first])
    paths = {1: tmpfile(ctx, "hist-a"), 2: tmpfile(ctx, "hist-b")}
    hist = ["Measurements(%s)" % first]
    try:
        for st in walk:
            op, a = st["op"], st["a"]
            if op == "replace":
                m.bitstrings = [tuple(b) for b in a]
                hist.append("bitstrings = %s" % a)
            elif op == "edit":
                m.bitstrings[a[0]] = tuple(a[1])
                hist.append("bitstrings[%d] = %s" % (a[0], tuple(a[1])))
            elif op == "add_counts":
                m.add_counts({"".join(map(str, a[0])): a[1]})
                hist.append("add_counts({%r: %d})" % ("".join(map(str, a[0])), a[1]))
            elif op == "save":
                m.save(paths[st["p"]])
                hist.append("save(path %d)" % st["p"])
            elif op == "load":
                hist.append("load(path %d)" % st["p"])
                with open(paths[st["p"]]) as f:
                    back = Measurements.load_from_file(f)
                want = [tuple(b) for b in st["res"]]
                if list(back.bitstrings) != want:
                    out.append(("history:load", "after [%s]: loaded %s, the object held %s at the last save to that path" % (" ; ".join(hist), list(back.bitstrings), want)))
                    break
            if [tuple(b) for b in m.bitstrings] != [tuple(b) for b in st["post"]["obj"]]:
                out.append(("history:object", "after [%s]: the object holds %s, specification %s" % (" ; ".join(hist), m.bitstrings, st["post"]["obj"])))
                break
    finally:
        for p_ in paths.values():
            if os.path.exists(p_):
                os.unlink(p_)
    return out


def check_save_histories(ctx):
    from ..graph import Graph

    quick = ctx.tier == "quick"
    depth = 5 if quick else 6
    res = ctx.tlc("PersistHist", constants=dict(Depth=depth, Stale=False, Emitting=True), invariants=["LoadReturnsLastSaved", "LoadedIsWhatWasSaved"], constraints=["DepthBound"], action_constraints=["Emit"], view="View", workers=1, coverage=False, timeout=1800)
    r2 = ctx.tlc("PersistHist", constants=dict(Depth=5, Stale=True, Emitting=False), invariants=["LoadReturnsLastSaved"], constraints=["DepthBound"], view="View", workers=2, coverage=False, timeout=600, allow_violation=True)
    if "LoadReturnsLastSaved" not in r2.violated:
        raise TLCError("vacuity: a writer reusing previously serialised rows is not refuted")
    edges = res.emitted
    if len(edges) < 1000:
        raise TLCError("PersistHist exported only %d transitions" % len(edges))
    rng = random.Random(ctx.seed + 21)
    walks = []
    for init in ([], [[0, 1], [1, 1]]):
        g = Graph([dict(e) for e in edges], {"obj": init, "file": [{"none": True, "rows": []}, {"none": True, "rows": []}]})
        walks += [w for w in g.walks(rng, limit=1500 if quick else 15000, select=lambda e: e["op"] == "load") if len(w) >= 3]
    if len(walks) < 300:
        raise TLCError("only %d save/load histories assembled" % len(walks))
    ctx.bounds["save histories"] = "one measurement set, two paths, <= %d steps: replace / edit in place / add_counts / save / load" % (depth - 1)
    for w, fails in zip(walks, ctx.pmap(check_save_walk, walks, chunksize=16)):
        ctx.count({"k": "save-history", "ops": [(e["op"], e["p"]) for e in w]}, kind="save history of %d steps" % len(w))
        for key, msg in fails:
            ctx.violation(key, msg, {"k": "save-walk", "walk": [{k: v for k, v in e.items() if not k.startswith("_")} for e in w]})


def run(ctx):
    res = ctx.tlc("Persist", constants=dict(AcceptBareI=True, OptionalFrameMeas=True, Emitting=True), invariants=INV, action_constraints=["Emit"], workers=4, coverage=False, timeout=1200)
    for consts, inv, what in ((dict(AcceptBareI=False, OptionalFrameMeas=True), "ReprParseDenotes", "a parser that rejects the bare I of a printed constant term"), (dict(AcceptBareI=True, OptionalFrameMeas=False), "LoadAfterSaveEqual", "a loader that requires the optional frame measurements")):
        r_ = ctx.tlc("Persist", constants=dict(Emitting=False, **consts), invariants=[inv], workers=2, coverage=False, timeout=600, allow_violation=True)
        if inv not in r_.violated:
            raise TLCError("vacuity: the construction as found (%s) is not refuted" % what)
    cases = res.emitted
    kinds = {c["art"]["kind"] for c in cases}
    if len(cases) < 150 or kinds != {"operator", "expvals", "parities", "valest", "meas", "layers", "connectivity", "nmeas", "array"}:
        raise TLCError("Persist exported %d cases of kinds %s" % (len(cases), sorted(kinds)))
    ctx.bounds = {"artefact variants": len({json.dumps(c["art"], sort_keys=True) for c in cases}), "routes": "dict, JSON text, path, open handle, operator set, printed text", "literal families": list(FAMILIES)}
    for c, fails in zip(cases, ctx.pmap(check_case, cases, chunksize=8)):
        ctx.count({"k": c["art"]["kind"], "via": c["via"], "v": c["art"]["v"]}, kind="%s via %s" % (c["art"]["kind"], c["via"]))
        for key, msg in fails:
            ctx.violation(key, msg, c)
    check_literals(ctx)
    check_save_histories(ctx)
    check_layouts(ctx)
    ctx.judged_numerically.append("the concrete decimal text Python prints for a float is outside TLA+: TLC works on coefficient classes, the harness maps them to four families of literals and adds a list of special literals (exponent format, negative zero, purely imaginary, bracketed complex)")
    ctx.assumptions.append("coefficients have magnitude below 1e15 (above, Python prints 'e+' and the sum splitter of the parser cuts the literal)")


def replay(ctx, case):
    if case.get("k") == "save-walk":
        ctx.count({"k": "save-history"})
        for key, msg in check_save_walk(ctx, case["walk"]):
            ctx.violation(key, msg, case)
        return
    if case.get("k") == "literal":
        check_literals(ctx)
        return
    if case.get("k") == "layout":
        check_layouts(ctx)
        return
    if case.get("k") == "tlc":
        raise TLCError("a TLC counterexample is replayed by re-running the check")
    ctx.count({"k": case["art"]["kind"]})
    for key, msg in check_case(ctx, case):
        ctx.violation(key, msg, case)
