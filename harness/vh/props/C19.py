"""C19 - translating symbolic expressions preserves their value.

spec: Expr.tla.  TLC (design): for every canonical-shaped sympy tree inside the bounds the transcribed translator
(single dispatch + the four special cases) preserves the value in a test interpretation over Q(i)
(ValuePreserved), unsupported heads are refused (UnsupportedRefused), natural keys alternate (always comparable);
a translator with the operands of `sub` swapped is refuted.
code->spec (ExprTrace.tla): every enumerated tree is BUILT in real sympy; the canonical tree sympy actually
produced (T), the neutral tree returned by expression_from_sympy (N) and the canonical tree of
translate_expression(N, SYMPY_DIALECT) (B) are recorded and TLC accepts the line iff the three values agree at
three assignments (or the run was refused and T is outside the grammar).  Only values are constrained.
The final judge of a disagreement is numeric (sympy evalf at two assignments); the numeric comparison is also run
on every record, and the neutral tree is evaluated by an independent evaluator with the true elementary functions."""
import cmath
import json
import os
from fractions import Fraction

from ..tlc import TLCError

INV = ["ValuePreserved", "UnsupportedRefused", "EmitInit", "EmitNames"]
BIG = 10**6


class Unrepresentable(Exception):
    pass


def build(t):
    """a specification tree -> real sympy expression (sympy canonicalises while building)"""
    import sympy

    h = t["h"]
    if h == "wide":
        # sums / products of MANY operands (beyond the arities the specification enumerates; judged numerically)
        x, y = sympy.Symbol("x"), sympy.Symbol("y")
        parts = [(k + 1) * x ** (k % 4 + 1) + y * (k % 3) + sympy.Rational(k, 7) if t["kind"] == "add" else (x + k + 1 + (k % 2) * y) for k in range(t["n"])]
        if t["kind"] == "add":
            parts = [sympy.sin(p_) if i_ % 2 else p_ ** 2 for i_, p_ in enumerate(parts)]     # n distinct, non-mergeable summands
            return sympy.Add(*parts)
        return sympy.Mul(*parts)
    if h == "sym":
        return sympy.Symbol(t["s"])
    if h == "int":
        return sympy.Integer(t["p"][0])
    if h == "rat":
        return sympy.Rational(t["p"][0], t["p"][1])
    if h == "flt":
        return sympy.Float(t["p"][0] / t["p"][1])
    if h == "I":
        return sympy.I
    args = [build(a) for a in t["a"]]
    if h == "add":
        return sympy.Add(*args)
    if h == "mul":
        return sympy.Mul(*args)
    if h == "pow":
        return sympy.Pow(*args)
    if h == "fn":
        return getattr(sympy, t["s"])(*args)
    raise ValueError(h)


def node(h, s="", p=(0, 1), a=()):
    return {"h": h, "s": s, "p": [int(p[0]), int(p[1])], "a": list(a)}


def frac_of(x):
    f = Fraction(x)
    if abs(f.numerator) > BIG or f.denominator > BIG:
        raise Unrepresentable("number %r" % (x,))
    return (f.numerator, f.denominator)


def to_tree(e):
    """real sympy expression -> the specification's node shape (args in sympy's own order)"""
    import sympy

    if isinstance(e, sympy.Symbol):
        return node("sym", e.name)
    if isinstance(e, sympy.Integer):
        return node("int", p=frac_of(int(e)))
    if isinstance(e, sympy.Rational):
        return node("rat", p=frac_of(Fraction(int(e.p), int(e.q))))
    if isinstance(e, sympy.Float):
        return node("flt", p=frac_of(float(e)))
    if e is sympy.I:
        return node("I")
    if isinstance(e, sympy.Add):
        return node("add", a=[to_tree(a) for a in e.args])
    if isinstance(e, sympy.Mul):
        return node("mul", a=[to_tree(a) for a in e.args])
    if isinstance(e, sympy.Pow):
        return node("pow", a=[to_tree(a) for a in e.args])
    if isinstance(e, sympy.Function) and len(e.args) == 1:
        return node("fn", str(e.func), a=[to_tree(e.args[0])])
    return node("other", type(e).__name__)


def to_ntree(n):
    from orquestra.quantum.circuits.symbolic.expressions import FunctionCall, Symbol

    if isinstance(n, Symbol):
        return node("nsym", n.name)
    if isinstance(n, FunctionCall):
        return node("call", n.name, a=[to_ntree(a) for a in n.args])
    if isinstance(n, bool):
        raise Unrepresentable("bool")
    if isinstance(n, (int, float)):
        return node("num", p=frac_of(n))
    if isinstance(n, complex):
        if n == 1j:
            return node("cnum")
        raise Unrepresentable("complex %r" % n)
    raise Unrepresentable(type(n).__name__)


# assignments near the positive real axis: no branch cut of a non-integer power is crossed, so sympy's evaluation order cannot matter
SIGMAS = [{"x": 0.37 + 0.11j, "y": 1.3 - 0.2j}, {"x": 1.7 + 0.05j, "y": 0.45 + 0.13j}]


def num_eval(e, sg):
    import sympy

    v = e.subs({sympy.Symbol(k): sympy.sympify(complex(val)) for k, val in sg.items()})
    return complex(sympy.N(v, 30))


def eval_neutral(n, sg):
    """independent evaluation of a neutral tree with the true functions"""
    from orquestra.quantum.circuits.symbolic.expressions import FunctionCall, Symbol

    if isinstance(n, Symbol):
        return sg[n.name]
    if isinstance(n, FunctionCall):
        vs = [eval_neutral(a, sg) for a in n.args]
        f = n.name
        if f == "add":
            return sum(vs)
        if f == "mul":
            r = 1
            for v in vs:
                r *= v
            return r
        if f == "sub":
            return vs[0] - vs[1]
        if f == "div":
            return vs[0] / vs[1]
        if f == "pow":
            return cmath.exp(vs[1] * cmath.log(vs[0])) if not (isinstance(vs[1], (int,)) or (isinstance(vs[1], float) and vs[1].is_integer() and abs(vs[1]) < 64)) else complex(vs[0]) ** int(vs[1])
        if f == "sqrt":
            return cmath.sqrt(vs[0])
        if f in ("sin", "cos", "tan", "exp"):
            return getattr(cmath, f)(vs[0])
        raise KeyError(f)
    return complex(n)


def close(a, b):
    return abs(a - b) <= 1e-9 * max(1.0, abs(a), abs(b))


def process(ctx, c):
    """run the real translator on one enumerated tree; returns a record"""
    from orquestra.quantum.circuits.symbolic.sympy_expressions import SYMPY_DIALECT, expression_from_sympy
    from orquestra.quantum.circuits.symbolic.translations import translate_expression

    rec = {"src": c["tree"], "fails": [], "line": None, "numeric_only": None}
    try:
        e = build(c["tree"])
    except Exception as ex:  # sympy itself refuses to build it (zoo etc.)
        rec["skip"] = "sympy cannot build the source: %s" % type(ex).__name__
        return rec
    rec["expr"] = str(e)
    try:
        T = to_tree(e)
    except Unrepresentable as ex:
        T = None
        rec["numeric_only"] = str(ex)
    out, N, B, b_expr = "ok", None, None, None
    # an unrelated conversion earlier in the same process: symbols of the same NAMES that carry assumptions
    import sympy as _sp

    try:
        translate_expression(expression_from_sympy(_sp.Symbol("x", positive=True) * 2 + _sp.Symbol("y", negative=True)), SYMPY_DIALECT)
    except Exception as ex:
        rec["fails"].append(("prior:raises", "round trip of 2*x + y with x positive, y negative raised %s: %s" % (type(ex).__name__, str(ex)[:200])))
        return rec
    try:
        n = expression_from_sympy(e)
    except NotImplementedError:
        out, n = "refused-from", None
    except Exception as ex:
        rec["fails"].append(("from:raises", "expression_from_sympy(%s) raised %s: %s" % (e, type(ex).__name__, str(ex)[:200])))
        return rec
    if n is not None:
        # ... and once more BETWEEN the conversion and the translation back (the neutral tree is kept while other expressions
        # over like-named symbols with assumptions are converted): the tree means what it meant when it was made
        try:
            expression_from_sympy(_sp.sqrt(_sp.Symbol("x", positive=True) ** 2) + _sp.Symbol("y", negative=True))
        except Exception:
            pass
        try:
            b_expr = translate_expression(n, SYMPY_DIALECT)
        except ValueError:
            out = "refused-translate"
        except Exception as ex:
            rec["fails"].append(("translate:raises", "translate_expression(%s) raised %s: %s" % (n, type(ex).__name__, str(ex)[:200])))
            return rec
    rec["out"] = out
    has_other = "other" in json.dumps(T) if T else False
    if out == "ok":
        # numeric judge, on every record
        import sympy

        b_expr = sympy.sympify(b_expr)
        syms_ok = all(str(s) in ("x", "y") for s in e.free_symbols)
        try:
            for sg in SIGMAS:
                if not syms_ok:
                    break
                v0 = num_eval(e, sg)
                v1 = num_eval(b_expr, sg)
                if not (cmath.isfinite(v0) and cmath.isfinite(v1)):
                    break  # 0**y, 1/0: no value to preserve at this assignment
                if not close(v0, v1):
                    rec["fails"].append(("value:back", "%s translates back to %s: values %s / %s at %s" % (e, b_expr, v0, v1, sg)))
                    break
                try:
                    vn = eval_neutral(n, sg)
                    if not close(v0, vn) and "name='pow'" not in repr(n):   # the harness's own evaluator and sympy may pick different branches of a power with a negative base: no verdict there
                        rec["fails"].append(("value:neutral", "%s -> neutral tree %s evaluates to %s, the expression to %s at %s" % (e, n, vn, v0, sg)))
                        break
                except (KeyError, ZeroDivisionError, OverflowError, ValueError):
                    pass
        except (ZeroDivisionError, TypeError, ValueError, OverflowError):
            pass
        # a second dialect (numbers at one assignment), and the sympy dialect once more afterwards: a translation is a function of the
        # tree and the dialect - not of which dialects were used before, nor of a translation that was refused earlier on
        if syms_ok and not rec["fails"]:
            import functools
            import operator as _op

            from orquestra.quantum.circuits.symbolic.expressions import ExpressionDialect, FunctionCall, Symbol

            sg = SIGMAS[0]
            NUM = ExpressionDialect(symbol_factory=lambda s_: sg[s_.name], number_factory=lambda v_: complex(v_),
                                    known_functions={"add": lambda *a_: functools.reduce(_op.add, a_), "mul": lambda *a_: functools.reduce(_op.mul, a_), "div": _op.truediv, "sub": _op.sub,
                                                     "pow": lambda a_, b_: cmath.exp(b_ * cmath.log(a_)) if a_ != 0 else (0j if b_ != 0 else 1 + 0j), "cos": cmath.cos, "sin": cmath.sin, "exp": cmath.exp, "sqrt": cmath.sqrt, "tan": cmath.tan})
            try:
                try:
                    translate_expression(FunctionCall("mul", (FunctionCall("cos", (FunctionCall("add", (Symbol("x"), Symbol("y"))),)), FunctionCall("log", (Symbol("x"),)))), SYMPY_DIALECT)
                except ValueError:
                    pass
                vnum = complex(translate_expression(n, NUM))
                again = sympy.sympify(translate_expression(n, SYMPY_DIALECT))
                v0 = num_eval(e, sg)
                if cmath.isfinite(v0) and cmath.isfinite(vnum) and not close(v0, vnum):
                    rec["fails"].append(("value:numeric-dialect", "%s -> tree %s translated with a numeric dialect at %s gives %s, the expression evaluates to %s" % (e, n, sg, vnum, v0)))
                elif getattr(again, "free_symbols", set()) != getattr(b_expr, "free_symbols", set()) or (cmath.isfinite(v0) and not close(num_eval(again, sg), v0)):
                    rec["fails"].append(("value:dialect-history", "%s: translated to sympy again after a refused translation and a translation with another dialect: %s (first time: %s)" % (e, again, b_expr)))
            except (ZeroDivisionError, OverflowError, ValueError, TypeError):
                pass
        foreign = [s_ for s_ in b_expr.free_symbols if s_ not in e.free_symbols and str(s_) in set(map(str, e.free_symbols))]
        if foreign and not rec["fails"]:
            rec["fails"].append(("symbols:identity", "%s translates back to %s whose symbol %s is not the source's symbol of that name (assumptions %s): assigning the source's symbols leaves it unevaluated, and sympy rewrites the expression under assumptions the source never made" % (e, b_expr, foreign[0], {k_: v_ for k_, v_ in foreign[0].assumptions0.items() if k_ in ("positive", "negative", "real", "integer")})))
        if set(map(str, b_expr.free_symbols)) != set(map(str, e.free_symbols)) and not rec["fails"]:
            # sympy may cancel a symbol (x - x); only a symbol that APPEARS from nowhere is wrong
            if not set(map(str, b_expr.free_symbols)) <= set(map(str, e.free_symbols)):
                rec["fails"].append(("symbols", "%s translates back to %s with other symbols" % (e, b_expr)))
    if c["tree"].get("h") == "wide":
        rec["numeric_only"] = "arity beyond the specification's bounds (32-bit arithmetic of the test interpretation): judged numerically"
    if T is not None and rec["numeric_only"] is None:
        try:
            line = {"T": T, "out": out, "N": to_ntree(n) if out == "ok" else node("num"), "B": to_tree(b_expr) if out == "ok" else node("int")}
            if out == "ok" and "other" in json.dumps(line["B"]):
                rec["numeric_only"] = "translated-back tree has a head outside the grammar"
            else:
                rec["line"] = line
        except Unrepresentable as ex:
            rec["numeric_only"] = str(ex)
    return rec


def check_names(ctx, rec):
    import sympy
    from orquestra.quantum.circuits.symbolic._sorting import natural_key, natural_key_revlex
    from orquestra.quantum.circuits.symbolic.expressions import Symbol

    names = ["".join(str(tok["n"]) if tok["dg"] else tok["s"] for tok in nm) for nm in rec["names"]]
    for mk in (Symbol, sympy.Symbol):
        keys = [natural_key(mk(n)) for n in names]
        for i, a in enumerate(names):
            for j, b in enumerate(names):
                ctx.count({"k": "natural-order", "a": a, "b": b, "symbol": mk.__module__.split(".")[0]}, kind="natural order pairs")
                try:
                    lt, eq = keys[i] < keys[j], keys[i] == keys[j]
                except TypeError as ex:
                    ctx.violation("natural:incomparable", "natural_key(%s) and natural_key(%s) cannot be compared: %s" % (a, b, ex), {"k": "names", "a": a, "b": b})
                    continue
                want = rec["order"][i][j]
                got = "lt" if lt else "eq" if eq else "gt"
                if want != "na" and got != want:
                    ctx.violation("natural:order", "natural order of %s and %s is %s, numerically it is %s" % (a, b, got, want), {"k": "names", "a": a, "b": b})
                if list(reversed(keys[i])) != natural_key_revlex(mk(a)):
                    ctx.violation("natural:revlex", "natural_key_revlex(%s) is not the reversed natural key" % a, {"k": "names", "a": a})
    # sorting a list: beta_2 before beta_10
    srt = sorted([Symbol(n) for n in ("beta_10", "theta_2", "beta_2", "theta_1")], key=natural_key)
    if [s.name for s in srt] != ["beta_2", "beta_10", "theta_1", "theta_2"]:
        ctx.violation("natural:sort", "sorted by natural_key: %s" % [s.name for s in srt], {"k": "names"})


def run(ctx):
    quick = ctx.tier == "quick"
    if quick:
        runs = [dict(MaxGrow=1, PoolSel="<-PoolAllSel", Emitting=True), dict(MaxGrow=2, PoolSel="{1, 4, 8, 9, 18}", Emitting=True)]
    else:
        # (trees grown three times overflow the 32-bit integers of the test interpretation: the thorough tier stays at two)
        runs = [dict(MaxGrow=2, PoolSel="{1, 2, 3, 4, 5, 6, 7, 8, 9, 10, 11, 16, 18, 20}", Emitting=True)]
    ctx.bounds = {"run%d" % i: {k: v for k, v in consts.items() if k != "Emitting"} for i, consts in enumerate(runs)}

    class _R:
        emitted = []

    res = _R()
    for consts in runs:
        r_ = ctx.tlc("Expr", constants=consts, invariants=INV, action_constraints=["Emit"], coverage=False, timeout=3000)
        res.emitted = res.emitted + r_.emitted
    r2 = ctx.tlc("Expr", constants=dict(MaxGrow=1, PoolSel="{1, 2, 8}", Emitting=False), invariants=["SubSwapped"], coverage=False, timeout=600, allow_violation=True)
    if "SubSwapped" not in r2.violated:
        raise TLCError("vacuity: a translator with the operands of sub swapped is not refuted")
    names = [e for e in res.emitted if "names" in e]
    trees = [e for e in res.emitted if "tree" in e]
    names = names[:1]
    if len(trees) < 2000 or len(names) != 1:
        raise TLCError("Expr exported %d trees, %d name records" % (len(trees), len(names)))
    # distinct source trees only
    seen, cases = set(), []
    for c in trees:
        k = json.dumps(c["tree"], sort_keys=True)
        if k not in seen:
            seen.add(k)
            cases.append(c)
    cases += [{"tree": {"h": "wide", "kind": kd, "n": n_}} for kd in ("add", "mul") for n_ in (9, 10, 11, 16, 17, 33)]
    recs = ctx.pmap(process, cases, chunksize=64)
    lines, owners = [], []
    n_numeric_only = n_skip = 0
    outs = {}
    for c, r in zip(cases, recs):
        if r.get("skip"):
            n_skip += 1
            continue
        ctx.count({"k": "expr", "expr": r.get("expr"), "out": r.get("out")}, kind=r.get("out", "failed"))
        outs[r.get("out")] = outs.get(r.get("out"), 0) + 1
        for key, msg in r["fails"]:
            ctx.violation(key, msg, {"k": "expr", "tree": c["tree"]})
        if r["line"] is not None:
            lines.append(r["line"])
            owners.append(r)
        elif r["numeric_only"]:
            n_numeric_only += 1
    if not outs.get("ok") or not (outs.get("refused-from", 0) + outs.get("refused-translate", 0)):
        raise TLCError("vacuity: outcomes %s" % outs)
    # the binding must bite: a CANARY line (a recorded successful translation relabelled as a refusal) has to be rejected
    can = dict(next(ln for ln in lines if ln["out"] == "ok"))
    can["out"] = "refused-from"
    lines.append(can)
    owners.append({"canary": True, "fails": [], "src": None})
    # the trace specification is sequential per file: validate several files side by side
    from concurrent.futures import ThreadPoolExecutor

    nchunk = 12
    size = (len(lines) + nchunk - 1) // nchunk
    parts = [(k * size, lines[k * size : (k + 1) * size]) for k in range(nchunk) if lines[k * size : (k + 1) * size]]

    def validate(part):
        off, lns = part
        path = os.path.join(ctx.tmp, "expr-%d.ndjson" % off)
        with open(path, "w") as f:
            for ln in lns:
                f.write(json.dumps(ln) + "\n")
        tr_ = ctx.tlc("ExprTrace", init="TInit", next_="TNext", constants=dict(MaxGrow=0, PoolSel="{1}", Emitting=False), workers=1, env={"TRACE_FILE": path}, coverage=False, timeout=3000, heap="2g")
        if tr_.distinct < len(lns):
            raise TLCError("ExprTrace consumed %d of %d lines" % (tr_.distinct, len(lns)))
        out_ = []
        for e in tr_.emitted:
            e = dict(e)
            for k in ("reject", "drift"):
                if k in e:
                    e[k] += off
            out_.append(e)
        return out_

    class _T:
        emitted = []

    tr = _T()
    with ThreadPoolExecutor(max_workers=nchunk) as ex:
        for part_out in ex.map(validate, parts):
            tr.emitted = tr.emitted + part_out
    stricter = 0
    if not any(owners[e["reject"] - 1].get("canary") for e in tr.emitted if "reject" in e):
        raise TLCError("binding self-test failed: ExprTrace accepted the canary line (a successful translation relabelled as a refusal)")
    ctx.by_kind["canary lines rejected by the trace specification"] = 1
    tr.emitted = [e for e in tr.emitted if not ("reject" in e and owners[e["reject"] - 1].get("canary"))]
    lines.pop()
    for rj in [e for e in tr.emitted if "reject" in e]:
        r = owners[rj["reject"] - 1]
        failed = sorted(rj["failed"])
        if "RefusalIffUnsupported" in failed:
            ctx.violation("trace:refusal", "%s: outcome %s, but the expression is %s the supported grammar" % (r.get("expr"), r.get("out"), "inside" if r.get("out") != "ok" else "outside"), {"k": "expr", "tree": r["src"]})
        elif r["fails"]:
            pass  # already reported by the numeric judge
        else:
            stricter += 1  # equal over the complex numbers at the sampled assignments, different in the test interpretation
    drift = sum(1 for e in tr.emitted if "drift" in e)
    if drift:
        ctx.spec_drift("%d recorded neutral trees differ in shape from the transcription FromSympy (values agree)" % drift)
    ctx.traces_validated += len(lines) - len([e for e in tr.emitted if "reject" in e])
    ctx.note("records: %d validated by TLC, %d judged numerically only (non-dyadic floats / large numbers), %d sources sympy refused to build, %d lines where the test interpretation is stricter than the complex numbers" % (len(lines), n_numeric_only, n_skip, stricter))
    check_names(ctx, names[0])
    ctx.judged_numerically += ["final value equality over the complex numbers: sympy evalf (30 digits) of the source and of the round-tripped expression at two complex assignments, and an independent evaluation of the neutral tree with cmath"]
    ctx.assumptions.append("TLC decides value equality in a test interpretation over Q(i) (polynomial stand-ins for sin/cos/exp/tan/non-integer powers): sufficient for ring-identity-preserving translations, not necessary; a TLC rejection is a violation only if the numeric judge agrees")


def replay(ctx, case):
    if case.get("k") == "names":
        res = ctx.tlc("Expr", constants=dict(MaxGrow=0, PoolSel="{1}", Emitting=True), invariants=INV, coverage=False, timeout=600)
        check_names(ctx, [e for e in res.emitted if "names" in e][0])
        return
    if case.get("k") == "tlc":
        raise TLCError("a TLC counterexample is replayed by re-running the check")
    ctx.count({"k": "expr"})
    r = process(ctx, {"tree": case["tree"]})
    for key, msg in r["fails"]:
        ctx.violation(key, msg, case)
    if r["line"] is not None:
        path = os.path.join(ctx.tmp, "expr1.ndjson")
        with open(path, "w") as f:
            f.write(json.dumps(r["line"]) + "\n")
        tr = ctx.tlc("ExprTrace", init="TInit", next_="TNext", constants=dict(MaxGrow=0, PoolSel="{1}", Emitting=False), workers=1, env={"TRACE_FILE": path}, coverage=False, timeout=600)
        for rj in [e for e in tr.emitted if "reject" in e]:
            if "RefusalIffUnsupported" in rj["failed"]:
                ctx.violation("trace:refusal", "%s: outcome %s contradicts the grammar" % (r.get("expr"), r.get("out")), case)
