"""C14 - runners validate requests, deliver enough shots and count their work correctly.

spec: Runner.tla (call histories of one runner object; pure transition function Step), RunnerTrace.tla.
TLC: exhaustive BFS with counters capped (action properties evaluated on every transition); every call
from the initial state exported and replayed on real runner objects (spec->code, per transition);
TLC-drawn random histories (path mode) replayed step by step on one real object (spec->code, per path);
traces recorded from the real code while the repository's own contract functions and a seeded random
driver run are validated by TLC against RunnerTrace (code->spec)."""
import json
import os
import random
import tempfile

import numpy as np

from .. import trace_runner
from ..tlc import TLCError

PROPS = [
    "CountersMonotone",
    "RejectedLeavesCountersUnchanged",
    "CountersGrowByWorkDone",
    "OneResultPerCircuitInOrder",
    "InvalidIsRejected",
    "InvalidNeverOk",
    "TrackerRecordMatches",
    "TrackerPassThrough",
]


def _consts(tier, **kw):
    d = dict(RunnerKinds="<-KindsAll", Circuits="<-CircuitsSmall" if tier == "quick" else "<-CircuitsAll", Cap=3, MaxBatch=2, NPaths=1, Emitting=False)
    d.update(kw)
    return d


# ---- concrete objects -----------------------------------------------------------------------------
def make_circuit(c):
    import sympy
    from orquestra.quantum.circuits import CNOT, RX, RZ, Circuit, MultiPhaseOperation, X

    ops = c["ops"]
    w = c["w"]
    out = []
    gi = 0
    for o in ops:
        if o == "g":
            gi += 1
            if c.get("sym") and gi == 1:
                out.append(RX(sympy.Symbol("theta"))(0))
            elif w >= 2 and gi % 2 == 0:
                out.append(CNOT(0, w - 1))
            else:
                out.append([X, RX(0.3), RZ(1.1)][gi % 3]((gi - 1) % w))     # the first gate sits on qubit 0 whatever the width: equal operation lists on different registers
        else:
            out.append(MultiPhaseOperation(tuple(0.1 * (i + 1) for i in range(2**w))))
    return Circuit(out, n_qubits=w)


def ops_of_nat(nat, native):
    """abstract circuit of the export ([nat, w, sym]) -> op kinds consistent with the runner's native set"""
    res = []
    for b in nat:
        if b:
            res.append("g" if native.get("g") else "p")
        else:
            res.append("p" if native.get("g") and not native.get("p") else ("g" if not native.get("g") else "p"))
    return res


def make_runner(rk, tmpdir, seed):
    from orquestra.quantum.api.circuit_runner import BaseCircuitRunner
    from orquestra.quantum.api.wavefunction_simulator import BaseWavefunctionSimulator
    from orquestra.quantum.circuits import GateOperation
    from orquestra.quantum.measurements import Measurements
    from orquestra.quantum.runners.symbolic_simulator import SymbolicSimulator
    from orquestra.quantum.runners.trackers import MeasurementTrackingBackend

    kind, inner, native = rk

    class Plain(BaseCircuitRunner):
        def __init__(self):
            super().__init__()
            self.invocations = 0

        def _run_and_measure(self, circuit, n_samples):
            self.invocations += 1
            return Measurements([(0,) * circuit.n_qubits] * n_samples)

    class PlainX(Plain):
        """a device that executes in blocks of 4 shots: delivers at least what was asked"""

        def _run_and_measure(self, circuit, n_samples):
            self.invocations += 1
            return Measurements([(0,) * circuit.n_qubits] * (4 * ((n_samples + 3) // 4)))

    class Wf(BaseWavefunctionSimulator):
        def __init__(self, nat, seed):
            super().__init__(seed=seed)
            self.nat = nat
            self.invocations = 0

        def is_natively_supported(self, op):
            return self.nat["g"] if isinstance(op, GateOperation) else self.nat["p"]

        def _get_wavefunction_from_native_circuit(self, circuit, initial_state):
            self.invocations += 1
            state = initial_state
            for op in circuit.operations:
                state = op.apply(state)
            return state

    def base(k, nat):
        if k == "plain":
            return Plain()
        if k == "plainx":
            return PlainX()
        if nat.get("g") and nat.get("p"):
            return SymbolicSimulator(seed=seed)
        return Wf(nat, seed)

    if kind == "trk":
        inn = base(inner, native)
        path = os.path.join(tmpdir, "trk-%d.json" % random.getrandbits(40))
        return MeasurementTrackingBackend(inn, path)
    return base(kind, native)


def _counters(r):
    return trace_runner._counters(r)


def do_call(runner, rk, call, circuits):
    """perform one abstract call on a real runner; returns (out, exc, res_shapes, result_object)"""
    from orquestra.quantum.operators import PauliTerm

    op = call["op"]
    ns = call["ns"]
    n = None if ns["mode"] == "none" else (ns["v"][0] if ns["mode"] == "int" else list(ns["v"]))
    try:
        if op == "run":
            r = runner.run_and_measure(circuits[0], n)
        elif op == "batch":
            r = runner.run_batch_and_measure(circuits, n)
        elif op == "dist":
            r = runner.get_measurement_outcome_distribution(circuits[0], n)
        elif op == "wf":
            r = runner.get_wavefunction(circuits[0])
        elif op == "expval":
            r = runner.get_exact_expectation_values(circuits[0], PauliTerm("Z0"))
            return "ok", "", [{"n": 0, "w": circuits[0].n_qubits}], r
    except Exception as ex:
        return "raised", type(ex).__name__, [], None
    return "ok", "", trace_runner._shape(op, r, [{"w": c.n_qubits} for c in circuits]), r


def replay_step(ctx, runner, rec, where):
    """one exported transition on a real runner whose counters already equal rec['pre']"""
    from orquestra.quantum.circuits import to_dict

    rk = rec["rk"]
    call = rec["call"]
    native = rk[2]
    circuits = [make_circuit({"ops": ops_of_nat(c["nat"], native), "w": c["w"], "sym": c["sym"]}) for c in call["cs"]]
    # abstraction sanity: the concrete circuit must project back to the abstract one
    for c, a in zip(circuits, call["cs"]):
        got = trace_runner.abstract_circuit(runner, c)
        if got != {"nat": a["nat"], "w": a["w"], "sym": a["sym"]}:
            raise TLCError("harness: concrete circuit does not abstract to %s (got %s)" % (a, got))
    inner = getattr(runner, "inner_backend", None)
    captured = []
    if inner is not None:
        iname = {"run": "run_and_measure", "batch": "run_batch_and_measure", "dist": "get_measurement_outcome_distribution"}[call["op"]]
        ifn = getattr(inner, iname)

        def spy(*a, **k):
            r = ifn(*a, **k)
            captured.append(r)
            return r

        setattr(inner, iname, spy)
    target = inner if inner is not None else runner
    inv0 = getattr(target, "invocations", None)
    pre = _counters(runner)
    if os.path.exists(getattr(runner, "raw_data_file_name", "/nonexistent")):
        with open(runner.raw_data_file_name) as fh:
            file_before = fh.read()
    else:
        file_before = None
    out, exc, shapes, result = do_call(runner, rk, call, circuits)
    if inner is not None:
        delattr(inner, iname)
    post = _counters(runner)
    fails = []
    kind = rk[0]
    exp_out = rec["out"]
    desc = "%s %s(%s, n=%s)" % (rk[:2], call["op"], [(c["nat"], c["w"], c["sym"]) for c in call["cs"]], call["ns"])
    if (out == "ok") != (exp_out == "ok"):
        fails.append(("outcome", "%s: real outcome %s%s, specification %s" % (desc, out, "/" + exc if exc else "", exp_out)))
    if exp_out == "rejected" and out == "raised" and exc != "ValueError":
        fails.append(("reject-type", "%s: rejected with %s instead of ValueError" % (desc, exc)))
    if exp_out == "rejected" and inv0 is not None and getattr(target, "invocations") != inv0:
        fails.append(("executed-before-reject", "%s: the request is invalid but %d execution(s) happened before the error" % (desc, getattr(target, "invocations") - inv0)))
    for who in ("own", "inner"):
        got = post[who]
        want = rec["post"][who]
        base = pre[who]
        if got["c"] < base["c"] or got["j"] < base["j"]:
            fails.append(("counter-decreased", "%s: %s counters went from %s to %s" % (desc, who, base, got)))
        if got != want:
            exact = (kind != "trk") or who == "inner"
            if who == "inner" and inner is None:
                continue
            msg = "%s: %s counters %s -> %s, specification %s" % (desc, who, base, got, want)
            if exact:
                fails.append(("counters", msg))
            else:
                ctx.spec_drift("tracker own counters (not constrained by the statement): " + msg)
    if exp_out == "ok" and out == "ok":
        want = rec["res"]
        if len(shapes) != len(want):
            fails.append(("result-count", "%s: %d result(s) for %d circuit(s)" % (desc, len(shapes), len(want))))
        else:
            for i, (g, w_) in enumerate(zip(shapes, want)):
                if g["w"] != w_["w"] or g["n"] < w_["n"]:
                    fails.append(("result-shape", "%s: result %d has %s shots of width %s; requested >= %s shots, width %s" % (desc, i, g["n"], g["w"], w_["n"], w_["w"])))
        if kind == "trk":
            if not captured or not trace_runner.same_value(captured[-1], result):
                fails.append(("pass-through", "%s: the wrapper did not return the object the inner runner returned" % desc))
            recs = trace_runner._read_file(runner)
            wantf = rec["file"]
            if len(recs) != len(wantf):
                fails.append(("record-count", "%s: file holds %d record(s), specification %d" % (desc, len(recs), len(wantf))))
            else:
                ms = [result] if call["op"] == "run" else (list(result) if call["op"] == "batch" else [])
                for i, (r_, w_) in enumerate(zip(recs, wantf)):
                    raw = r_["raw"]
                    if r_["type"] != w_["type"] or r_["gates"] != w_["gates"] or r_["w"] != w_["w"]:
                        fails.append(("record", "%s: record %d is %s, specification %s" % (desc, i, {k: r_[k] for k in ("type", "gates", "w")}, w_)))
                    if raw.get("circuit") != json.loads(json.dumps(to_dict(circuits[i if call["op"] == "batch" else 0]))):
                        fails.append(("record-circuit", "%s: serialised circuit in record %d is not the circuit that was run" % (desc, i)))
                    if w_["type"] == "measurement":
                        if raw.get("counts") != ms[i].get_counts() or raw.get("number_of_shots") != len(ms[i].bitstrings):
                            fails.append(("record-counts", "%s: record %d counts/shots %s/%s do not match the returned measurement %s" % (desc, i, raw.get("counts"), raw.get("number_of_shots"), ms[i].get_counts())))
    elif kind == "trk" and exp_out != "ok" and out != "ok":
        if os.path.exists(runner.raw_data_file_name):
            with open(runner.raw_data_file_name) as fh:
                now = fh.read()
        else:
            now = None
        if now != file_before:
            ctx.spec_drift("%s: tracker file changed although the call raised" % desc)
    return fails


def set_counters(runner, pre):
    runner._n_circuits_executed = pre["own"]["c"]
    runner._n_jobs_executed = pre["own"]["j"]
    inner = getattr(runner, "inner_backend", None)
    if inner is not None:
        inner._n_circuits_executed = pre["inner"]["c"]
        inner._n_jobs_executed = pre["inner"]["j"]


def check_transition(ctx, rec, pre_override=None):
    runner = make_runner(rec["rk"], ctx.tmp, ctx.seed)
    pre = pre_override or rec["pre"]
    rec2 = dict(rec)
    if pre_override:
        d = {w: {k: rec["post"][w][k] - rec["pre"][w][k] for k in "cj"} for w in ("own", "inner")}
        rec2["pre"] = pre
        rec2["post"] = {w: {k: pre[w][k] + d[w][k] for k in "cj"} for w in ("own", "inner")}
    set_counters(runner, rec2["pre"])
    return replay_step(ctx, runner, rec2, "transition")


def check_path(ctx, steps):
    runner = make_runner(steps[0]["rk"], ctx.tmp, ctx.seed)
    fails = []
    for i, rec in enumerate(steps):
        if _counters(runner) != rec["pre"] and steps[0]["rk"][0] != "trk":
            fails.append(("path-pre", "step %d: real counters %s differ from the specification state %s" % (i, _counters(runner), rec["pre"])))
            break
        if steps[0]["rk"][0] == "trk":
            # the statement leaves the wrapper's own counters free: follow the implementation for them
            rec = json.loads(json.dumps(rec))
            own = _counters(runner)["own"]
            d = {k: rec["post"]["own"][k] - rec["pre"]["own"][k] for k in "cj"}
            rec["pre"]["own"] = own
            rec["post"]["own"] = {k: own[k] + d[k] for k in "cj"}
        f = replay_step(ctx, runner, rec, "path step %d" % i)
        fails += [(k, "history step %d/%d: %s" % (i + 1, len(steps), m)) for k, m in f]
        if f:
            break
    return fails


# ---- code -> spec ----------------------------------------------------------------------------------------
def record_traces(ctx):
    """exercise real runners through the repository's own contract functions and a seeded random driver"""
    os.environ["ORQ_VERIF_TRACE"] = "1"
    trace_runner.install()
    trace_runner.drain()
    from orquestra.quantum.api import circuit_runner_contracts as crc
    from orquestra.quantum.api import wavefunction_simulator_contracts as wsc
    from orquestra.quantum.runners.symbolic_simulator import SymbolicSimulator

    failed_contracts = []
    kinds = [("wf", "none", {"g": True, "p": True}), ("plain", "none", {}), ("wf", "none", {"g": True, "p": False}), ("trk", "wf", {"g": True, "p": True}), ("trk", "plain", {})]
    contracts = list(crc.CIRCUIT_RUNNER_CONTRACTS)
    for rk in kinds:
        for con in contracts:
            r = make_runner(rk, ctx.tmp, ctx.seed)
            try:
                ok = con(r)
            except Exception as ex:
                ok = "raised %r" % ex
            if ok is not True and rk[0] != "plain":  # the zero-returning plain runner is not a simulator
                failed_contracts.append((rk[0], getattr(con, "__name__", str(con)), ok))
    for con in list(wsc.simulator_contracts_for_tolerance()) + list(wsc.simulator_contracts_with_nontrivial_initial_state()):
        for rk in kinds[:1] + kinds[2:3]:
            r = make_runner(rk, ctx.tmp, ctx.seed)
            try:
                con(r)
            except Exception:
                pass
    # seeded random driver: long mixed histories on every kind
    rng = random.Random(ctx.seed)
    pool = [
        {"ops": [], "w": 2, "sym": False},
        {"ops": ["g"], "w": 1, "sym": False},
        {"ops": ["g", "p", "g"], "w": 2, "sym": False},
        {"ops": ["g"], "w": 1, "sym": True},
        {"ops": ["g", "g"], "w": 3, "sym": False},
        {"ops": ["p", "g", "g", "p", "g"], "w": 2, "sym": False},
        {"ops": ["p"], "w": 1, "sym": False},
    ]
    allk = kinds + [("wf", "none", {"g": False, "p": True}), ("wf", "none", {"g": False, "p": False}), ("plainx", "none", {}), ("trk", "plainx", {})]
    nhist = 30 if ctx.tier == "quick" else 200
    for h in range(nhist):
        rk = allk[h % len(allk)]
        r = make_runner(rk, ctx.tmp, ctx.seed + h)
        for _ in range(rng.randint(3, 12)):
            op = rng.choice(["run", "run", "batch", "batch", "dist"] + (["wf", "expval"] if rk[0] == "wf" else []))
            k = rng.randint(0, 3) if op == "batch" else 1
            mypool = [c for c in pool if "p" not in c["ops"]] if rk[0] == "trk" else pool
            cs = [rng.choice(mypool) for _ in range(k)]
            if op in ("wf", "expval") or (op == "dist" and rng.random() < 0.3):
                cs = [c for c in cs if not c["sym"]] or [pool[1]]
                ns = {"mode": "none", "v": []}
                if op == "dist" and rk[0] == "trk" and rk[1] == "plain":
                    pass
            elif op == "batch" and rng.random() < 0.6:
                ns = {"mode": "list", "v": [rng.choice([0, -2, 1, 2, 5]) for _ in range(rng.choice([k, k, k, k + 1, max(k - 1, 0)]))]}
            else:
                ns = {"mode": "int", "v": [rng.choice([-1, 0, 1, 2, 4, 9])]}
            do_call(r, rk, {"op": op, "cs": cs, "ns": ns}, [make_circuit(c) for c in cs])
    traces = trace_runner.drain()
    return traces, failed_contracts


def validate_traces(ctx, traces):
    # the binding must bite: a CANARY history - a recorded one whose first successful call reports one executed circuit too
    # many - has to be rejected by the trace specification on every run
    import copy

    src = next((t for t in traces if t["events"] and t["events"][0]["out"] == "ok"), None)
    if src is None:
        raise TLCError("no recorded history starts with a successful call: cannot build the canary")
    can = copy.deepcopy(src)
    can["canary"] = True
    can["events"] = can["events"][:1]
    can["events"][0]["post"]["own"]["c"] += 1
    traces = list(traces) + [can]
    path = os.path.join(ctx.tmp, "runner-traces.json")
    with open(path, "w") as f:
        json.dump(traces, f)
    total = sum(len(t["events"]) + 1 for t in traces)
    res = ctx.tlc(
        "RunnerTrace",
        init="TInit",
        next_="TNext",
        constants=_consts("quick"),
        properties=["CountersMonotone", "RejectedLeavesCountersUnchanged", "CountersGrowByWorkDone", "InvalidIsRejected"],
        workers=1,
        env={"TRACE_FILE": path},
        coverage=False,
        timeout=1200,
        allow_violation=True,
    )
    rejects = [e for e in res.emitted if "reject" in e]
    bad = {}
    for rj in rejects:
        bad.setdefault(rj["reject"], rj)
    if len(traces) not in bad:
        raise TLCError("binding self-test failed: RunnerTrace accepted the canary history (one executed circuit too many)")
    ctx.by_kind["canary histories rejected by the trace specification"] = ctx.by_kind.get("canary histories rejected by the trace specification", 0) + 1
    for tid, rj in sorted(bad.items()):
        t = traces[tid - 1]
        if t.get("canary"):
            continue
        e = t["events"][rj["at"] - 1]
        ctx.violation(
            "trace:" + ",".join(sorted(rj["failed"])),
            "RunnerTrace rejects event %d of the history of a %s(%s) runner: failed clause(s) %s\n  event: %s\n  specification expected: %s"
            % (rj["at"], t["kind"], t["inner"], sorted(rj["failed"]), json.dumps({k: e[k] for k in ("call", "pre", "post", "out", "exc", "res")})[:900], json.dumps(rj["expected"])[:400]),
            {"k": "trace", "trace": t, "at": rj["at"]},
        )
    if res.violated:
        ctx.violation("trace:property:" + ",".join(res.violated), "a recorded history violates %s\n%s" % (res.violated, "\n".join(res.trace[:40])), {"k": "traces", "traces": traces})
    expected = sum(len(t["events"]) + 1 for i, t in enumerate(traces) if (i + 1) not in bad) + sum(rj["at"] for rj in bad.values())
    if not res.violated and res.distinct != expected:
        raise TLCError("RunnerTrace explored %d states, expected %d" % (res.distinct, expected))
    ctx.traces_validated += len(traces) - len(bad)
    return res


def run(ctx):
    tier = ctx.tier
    ctx.bounds = {"Cap": 3, "MaxBatch": 2, "circuits": "CircuitsSmall" if tier == "quick" else "CircuitsAll", "kinds": 7}
    # 1. exhaustive model checking
    ctx.tlc("Runner", constants=_consts(tier, Cap=3 if tier == "quick" else 4), properties=PROPS, constraints=["Bounded"], view="ViewNoEv", coverage=False, timeout=1500)
    # 2. every call from the initial state, exported
    first = ctx.tlc("Runner", constants=_consts("thorough", Emitting=True), properties=PROPS, constraints=["FirstLevel"], action_constraints=["Emit"], view="ViewNoEv", coverage=False, timeout=900)
    trans = [e for e in first.emitted if e["lvl"] == 1]
    if len(trans) < 1000:
        raise TLCError("Runner exported only %d transitions" % len(trans))
    rng = random.Random(ctx.seed)
    for rec in trans:
        ctx.count({"k": "transition", "rk": rec["rk"], "call": rec["call"], "out": rec["out"], "post": rec["post"]}, nontrivial=True, kind="transition")
        pre = {"own": {"c": rng.randint(0, 5), "j": rng.randint(0, 5)}, "inner": {"c": rng.randint(0, 5), "j": rng.randint(0, 5)}}
        if rec["rk"][0] != "trk":
            pre["inner"] = {"c": 0, "j": 0}
        for key, msg in check_transition(ctx, rec, pre_override=pre):
            ctx.violation(key, msg, {"k": "transition", "rec": rec, "pre": pre})
    # 3. TLC-drawn histories
    npaths = 20 if tier == "quick" else 150
    pm = ctx.tlc("Runner", next_="PathNext", constants=_consts("thorough", NPaths=npaths, Cap=10, Emitting=True), properties=PROPS, constraints=["PathDepth"], action_constraints=["Emit"], view="PathView", workers=1, coverage=False, timeout=900, extra=["-seed", str(ctx.seed + 1)])
    paths = {}
    for e in pm.emitted:
        paths.setdefault((e["pid"], json.dumps(e["rk"])), []).append(e)
    for key_, steps in sorted(paths.items()):
        steps.sort(key=lambda e: e["lvl"])
        ctx.count({"k": "history", "rk": steps[0]["rk"], "calls": [(s["call"]["op"], s["out"]) for s in steps]}, kind="history")
        for key, msg in check_path(ctx, steps):
            ctx.violation(key, msg, {"k": "path", "steps": steps})
    ctx.by_kind["history_steps"] = len(pm.emitted)
    # 4. code -> spec
    traces, failed_contracts = record_traces(ctx)
    for fc in failed_contracts:
        ctx.note("repository contract did not return True: %s" % (fc,))
    validate_traces(ctx, traces)
    ctx.by_kind["trace_events"] = sum(len(t["events"]) for t in traces)
    if traces:
        t = traces[len(traces) // 2]
        ctx.samples.append({"k": "recorded-trace", "kind": t["kind"], "inner": t["inner"], "events": t["events"][:3]})
    ctx.assumptions += [
        "the tracking wrapper's own counters are only required to be monotone (statement: counter clause names base-class runners and simulators); differences from the transcription are SPEC-DRIFT notes",
        "a circuit with unbound symbols inside a batch is outcome 'failed' (work done so far stays counted), not an argument-validation rejection",
        "registers of width 0 are outside the domain",
    ]


def replay(ctx, case):
    k = case.get("k")
    if k == "transition":
        ctx.count(case)
        for key, msg in check_transition(ctx, case["rec"], pre_override=case.get("pre")):
            ctx.violation(key, msg, case)
    elif k == "path":
        ctx.count(case)
        for key, msg in check_path(ctx, case["steps"]):
            ctx.violation(key, msg, case)
    elif k in ("trace", "traces"):
        # re-record from the real code (a stored trace describes the tree it was taken from)
        traces, _ = record_traces(ctx)
        validate_traces(ctx, traces)
        ctx.count({"k": "traces", "n": len(traces)})
    else:
        raise KeyError(k)
