"""C12 - a wavefunction object is normalised after every operation on it.

spec: Wavefunction.tla.  TLC: exhaustive BFS to the depth bound (invariant EveryLiveObjectNormalised,
action properties RejectedChangesNothing / OnlySetMutates / ...), Dicke bit-trick lemma as ASSUME.
spec->code: behaviours assembled from the exported transition graph (every edge is the last step of a
walk; prefixes are random shortest paths) and TLC-drawn random histories (path mode) are stepped through
real Wavefunction objects; after EVERY step (accepted or rejected) the full amplitude vector of every live
object is compared.  code->spec: seeded random histories on real objects are recorded and validated by
WavefunctionTrace."""
import json
import math
import os
import random
import tempfile

import numpy as np

from ..bridge import ring
from ..graph import Graph
from ..tlc import TLCError

PROPS = ["RejectedChangesNothing", "OnlySetMutates", "BindNumericIsSameObject", "ProbsSumToOne"]
INVS = ["EveryLiveObjectNormalised", "FlipTwiceIdentity", "FlipKeepsNorm"]
ALLOPS = '{"new", "dicke", "set", "bind", "probs", "flip", "saveload"}'


def sym(name):
    """the states' symbols; b carries an assumption ('all initial amplitude vectors ... symbolic': a symbol is more than its name)"""
    import sympy

    return sympy.Symbol(name, real=True) if name == "b" else sympy.Symbol(name)


def amp_py(a):
    import sympy

    if "s" in a:
        return sym(a["s"])
    z = ring(a["n"])
    return complex(z)


def vec_py(vec):
    return [amp_py(a) for a in vec]


def project(wf):
    """real object -> list of complex numbers / symbol names"""
    import sympy

    out = []
    raw = wf._amplitude_vector
    items = list(np.asarray(raw).reshape(-1)) if isinstance(raw, np.ndarray) else list(raw)
    for x in items:
        if isinstance(x, sympy.Basic) and x.free_symbols:
            out.append(str(x))
        else:
            out.append(complex(x))
    return out


def project_probs(res):
    return [float(x) for x in np.asarray(res, dtype=float).reshape(-1)]


def same(proj, vec):
    if len(proj) != len(vec):
        return False
    for p, a in zip(proj, vec):
        if "s" in a:
            if p != a["s"]:
                return False
        else:
            if isinstance(p, str) or abs(p - ring(a["n"])) > 1e-9:
                return False
    return True


def show(proj):
    return [p if isinstance(p, str) else (round(p.real, 6) + round(p.imag, 6) * 1j) for p in proj]


def replay_walk(ctx, steps):
    """step a list of exported transitions through real objects; returns list of (key, msg)"""
    import sympy
    from orquestra.quantum.wavefunction import Wavefunction, flip_wavefunction, load_wavefunction, save_wavefunction

    pool = []
    hist = []
    for n, st in enumerate(steps):
        op = st["op"]
        o = st["obj"]
        hist.append("%s(%s)" % (op, {"new": st["vec"], "set": (o, st["i"], st["val"]), "bind": (o, st["map"])}.get(op, o)))
        where = "after %s" % " ; ".join(hist[-4:])
        raised = None
        res = None
        try:
            if op == "new":
                res = Wavefunction(vec_py(st["vec"]) if any("s" in a for a in st["vec"]) else np.array(vec_py(st["vec"]), dtype=complex))
            elif op == "dicke":
                nz = [i for i, a in enumerate(st["vec"]) if a["n"][:4] != [0, 0, 0, 0]]
                res = Wavefunction.dicke_state(len(st["vec"]).bit_length() - 1, bin(nz[0]).count("1"))
            elif op == "set":
                pool[o - 1][st["i"]] = amp_py(st["val"])
            elif op == "bind":
                m = {}
                for k in ("a", "b"):
                    v = st["map"][k]
                    if v != {"s": k}:
                        m[sym(k)] = amp_py(v)
                res = pool[o - 1].bind(m)
            elif op == "probs":
                res = pool[o - 1].get_probabilities()
            elif op == "flip":
                res = flip_wavefunction(pool[o - 1])
            elif op == "saveload":
                p = os.path.join(ctx.tmp, "wf-%d.json" % random.getrandbits(40))
                save_wavefunction(pool[o - 1], p)
                res = load_wavefunction(p)
                os.unlink(p)
        except ValueError as ex:
            raised = ex
        except Exception as ex:
            return [("unexpected-exception:" + op, "%s: %s raised %s: %s" % (where, op, type(ex).__name__, str(ex)[:200]))]
        out = "rejected" if raised is not None else "ok"
        if out != st["out"]:
            # boundary cases are nondeterministic in the specification: both outcomes are exported as separate edges
            if st.get("either"):
                return []  # the specification allows either outcome here (floating-point boundary); the walk ends
            else:
                return [("outcome:" + op, "%s: real outcome %s, specification %s" % (where, out, st["out"]))]
        if out == "ok":
            if op in ("new", "flip", "saveload", "dicke"):
                if any(res is x for x in pool):
                    return [("aliased:" + op, "%s: %s returned an object that is already live (two handles to one mutable object)" % (where, op))]
                pool.append(res)
            elif op == "bind":
                if st["res"] == o:
                    if res is not pool[o - 1]:
                        ctx.spec_drift("bind on a numeric state returned a different object")
                else:
                    if res is pool[o - 1]:
                        return [("bind-in-place", "%s: bind of a symbolic state returned the same object" % where)]
                    pool.append(res)
            if op in ("probs", "flip", "saveload") and all("n" in a for a in st["pre"][o - 1]):
                # route independence: the same abstract state reached through the other constructor route (one entry
                # symbolic, bound afterwards) must answer the same call the same way
                pre_vec = st["pre"][o - 1]
                nzs = [k for k, a in enumerate(pre_vec) if a["n"][:4] != [0, 0, 0, 0]]
                k0 = nzs[-1]
                zsym = sympy.Symbol("zz")
                alt_in = [zsym if k == k0 else amp_py(a) for k, a in enumerate(pre_vec)]
                try:
                    alt = Wavefunction(alt_in).bind({zsym: amp_py(pre_vec[k0])})
                    if op == "probs":
                        alt_res = project_probs(alt.get_probabilities())
                        if max(abs(np.array(alt_res) - np.array([abs(ring(a["n"])) ** 2 for a in pre_vec]))) > 1e-9:
                            return [("route:probs", "%s: the same state built symbolically and bound reports probabilities %s" % (where, alt_res))]
                    else:
                        if op == "flip":
                            alt2 = flip_wavefunction(alt)
                        else:
                            p2 = os.path.join(ctx.tmp, "wf-%d.json" % random.getrandbits(40))
                            save_wavefunction(alt, p2)
                            alt2 = load_wavefunction(p2)
                            os.unlink(p2)
                        if not same(project(alt2), st["post"][-1]):
                            return [("route:" + op, "%s: %s of the same state built symbolically and bound afterwards gives %s, specification %s" % (where, op, show(project(alt2)), show(project(res))))]
                except ValueError as ex:
                    return [("route:raises:" + op, "%s: the same state built symbolically and bound afterwards: %s" % (where, str(ex)[:150]))]
            if op == "probs":
                want = [abs(ring(a["n"])) ** 2 for a in st["pre"][o - 1]]
                got = np.asarray(res, dtype=float).reshape(-1)
                if len(got) != len(want) or max(abs(got - np.array(want))) > 1e-9 or abs(sum(got) - 1) > 1e-9:
                    return [("probabilities", "%s: probabilities %s, squared magnitudes %s" % (where, got.tolist(), want))]
        # compare EVERY live object with the specification state (this is where a broken rollback shows)
        post = st["post"]
        if len(pool) != len(post):
            return [("pool", "%s: %d live objects, specification %d" % (where, len(pool), len(post)))]
        for j, (wf, vec) in enumerate(zip(pool, post)):
            pj = project(wf)
            if not same(pj, vec):
                kind = "rollback" if out == "rejected" else "state"
                return [("%s:%s" % (kind, op), "%s (outcome %s): object %d holds %s, specification %s" % (where, out, j + 1, show(pj), [a.get("s") or complex(round(ring(a["n"]).real, 6), round(ring(a["n"]).imag, 6)) for a in vec]))]
            # public accessors must tell the same story as the stored vector: the symbols the object reports are the
            # symbols its amplitudes mention (also after a rejected step: "leaves the object exactly as it was")
            want_syms = {a["s"] for a in vec if "s" in a}
            got_syms = {str(x) for x in wf.free_symbols}
            if got_syms != want_syms:
                return [("free-symbols:%s" % ("rollback" if out == "rejected" else op), "%s (outcome %s): object %d reports free symbols %s, its amplitudes mention %s" % (where, out, j + 1, sorted(got_syms), sorted(want_syms)))]
            pub = wf.amplitudes
            pubv = list(np.asarray(pub).reshape(-1)) if isinstance(pub, np.ndarray) else list(pub)
            if len(pubv) != len(vec) or (not want_syms and not same([complex(x) for x in pubv], vec)):
                return [("amplitudes-accessor", "%s: object %d: the amplitudes property disagrees with the state" % (where, j + 1))]
            # probabilities are the squared magnitudes - entry by entry, also while other entries are still symbols
            if want_syms and op in ("new", "set", "bind", "flip"):
                try:
                    pr = list(np.asarray(wf.get_probabilities(), dtype=object).reshape(-1))
                    for a_, p_ in zip(vec, pr):
                        if "n" in a_ and not getattr(p_, "free_symbols", None):
                            if abs(complex(p_) - abs(ring(a_["n"])) ** 2) > 1e-9:
                                return [("probabilities:symbolic", "%s: object %d (still symbolic): the probability reported for the numeric entry %s is %s, its squared magnitude is %s" % (where, j + 1, complex(ring(a_["n"])), p_, abs(ring(a_["n"])) ** 2))]
                except (TypeError, ValueError):
                    pass
            # the statement itself, on the real object: normalised after every step
            nums = [p for p in pj if not isinstance(p, str)]
            tot = sum(abs(p) ** 2 for p in nums)
            if (len(nums) == len(pj) and abs(tot - 1) > 1e-6) or tot > 1 + 1e-6:
                return [("unnormalised", "%s: object %d has numeric squared magnitudes summing to %.6f" % (where, j + 1, tot))]
    return []


def link_alternatives(edges):
    """edges with the same pre-state and call but different outcome (boundary nondeterminism) know each other"""
    by = {}
    for e in edges:
        k = json.dumps([e["pre"], e["op"], e["obj"], e["i"], e["val"], e["map"], e["vec"]], sort_keys=True)
        if k in by:
            e["_alt"] = by[k]
            by[k]["_alt"] = e
        else:
            by[k] = e


def check_dicke(ctx):
    from orquestra.quantum.wavefunction import Wavefunction

    wide = [(9, 1), (9, 4), (10, 2), (10, 9)] + ([] if ctx.tier == "quick" else [(11, 5), (12, 3), (12, 12)])
    for n, k in [(n, k) for n in range(1, 6) for k in range(0, n + 1)] + wide:
        if True:
            c = {"k": "dicke", "n": n, "w": k}
            ctx.count(c)
            try:
                wf = Wavefunction.dicke_state(n, k)
            except Exception as ex:
                ctx.violation("dicke:raises", "dicke_state(%d,%d) raised %r" % (n, k, ex), c)
                continue
            probs = np.asarray(wf.get_probabilities()).reshape(-1)
            support = [i for i in range(2**n) if bin(i).count("1") == k]
            want = np.zeros(2**n)
            want[support] = 1.0 / len(support)
            if len(probs) != 2**n or max(abs(probs - want)) > 1e-9:
                ctx.violation("dicke:distribution", "dicke_state(%d,%d) probabilities %s are not uniform on the weight-%d basis states" % (n, k, np.round(probs, 4).tolist(), k), c)


# ---- the tolerance model (Tolerance.tla) ----------------------------------------------------------------
TOLC = dict(Unit=10000000, Tol=100, Band=2, MaxOff=70, Scale=1)


def calibrate_tolerance():
    """what the constructor of the tree under test accepts: the largest deviation of the total (in units of 1/Unit) on either side;
    returns None when acceptance is not a band around 1 that this model can express"""
    from orquestra.quantum.wavefunction import Wavefunction

    unit = TOLC["Unit"]

    def ok(dev):
        try:
            Wavefunction(np.array([math.sqrt((unit // 2 + dev) / unit), 1j * math.sqrt((unit // 2) / unit)], dtype=complex))
            return True
        except ValueError:
            return False

    if not ok(0):
        return None
    lims = []
    for sign in (1, -1):
        lo, hi = 0, 200000
        if ok(sign * hi):
            return None
        while hi - lo > 1:
            mid = (lo + hi) // 2
            if ok(sign * mid):
                lo = mid
            else:
                hi = mid
        lims.append(lo)
    if abs(lims[0] - lims[1]) > max(2, lims[0] // 50) or min(lims) < 8:
        return None
    return min(lims)


def _tol_amp(pv, i):
    """entry i (0-based) of the two-entry state with probabilities pv (in units of 1/Unit): the second entry is imaginary"""
    a = math.sqrt(pv / TOLC["Unit"])
    return complex(a, 0.0) if i == 0 else complex(0.0, a)


def _tol_dev(pv):
    return abs(pv[0] + pv[1] - TOLC["Unit"])


def replay_tolerance(ctx, steps, fresh_each=False):
    """steps of Tolerance.tla on ONE real two-entry wavefunction (fresh_each: every step on an object built in its pre-state)"""
    from orquestra.quantum.wavefunction import Wavefunction

    lo, hi = TOLC["Tol"] - TOLC["Band"], TOLC["Tol"] + TOLC["Band"]
    wf = None
    hist = []
    for st in steps:
        pre, post = st["pre"], st["post"]
        if wf is None or fresh_each:
            try:
                wf = Wavefunction(np.array([_tol_amp(pre[0], 0), _tol_amp(pre[1], 1)], dtype=complex))
            except ValueError:
                if _tol_dev(pre) <= lo:
                    return [("tolerance:create", "amplitudes with squared magnitudes %s/%d (total off by %d units, tolerance %d) were rejected by the constructor" % (pre, TOLC["Unit"], _tol_dev(pre), TOLC["Tol"]))]
                return []  # inside the band either answer is allowed: this state cannot be built, nothing to replay
            hist = ["new(%s)" % pre]
        i = st["i"] - 1
        hist.append("wf[%d] = sqrt(%d/Unit)" % (i, pre[i] + st["d"]))
        where = " ; ".join(hist[-5:])
        before = np.array(wf.amplitudes, dtype=complex).copy()
        try:
            wf[i] = _tol_amp(pre[i] + st["d"], i)
            out = "ok"
        except ValueError:
            out = "rejected"
        if out != st["out"]:
            if st["either"]:
                return []  # floating point decided the other way inside the band: the behaviour of the specification ends here
            tent = list(pre)
            tent[i] += st["d"]
            return [("tolerance:outcome", "%s: real outcome %s, specification %s (the total would be off by %d units of 1e-7, tolerance %d)" % (where, out, st["out"], _tol_dev(tent), TOLC["Tol"]))]
        now = np.array(wf.amplitudes, dtype=complex)
        want = np.array([_tol_amp(post[0], 0), _tol_amp(post[1], 1)])
        if np.max(np.abs(now - want)) > 1e-12:
            return [("tolerance:%s" % ("rollback" if out == "rejected" else "state"), "%s (outcome %s): the object holds %s, specification %s" % (where, out, now.tolist(), want.tolist()))]
        if out == "rejected" and not np.array_equal(now, before):
            return [("tolerance:rollback", "%s: rejected, but the amplitudes changed from %s to %s" % (where, before.tolist(), now.tolist()))]
        # the statement itself: the object still satisfies the creation condition
        tot = float(np.sum(np.abs(now) ** 2))
        if _tol_dev(post) <= lo:
            try:
                Wavefunction(np.array(now))
            except ValueError:
                return [("tolerance:unnormalised", "%s: the object's own amplitudes (total %.9f) are no longer accepted by the constructor" % (where, tot))]
        if abs(tot - 1) > (hi + 1) / TOLC["Unit"]:
            return [("tolerance:unnormalised", "%s: squared magnitudes sum to %.9f" % (where, tot))]
    return []


def check_tolerance(ctx):
    quick = ctx.tier == "quick"
    tol = calibrate_tolerance()
    if tol is None:
        ctx.note("Tolerance.tla not replayed: the constructor's acceptance is not a symmetric band around 1 of a size this model expresses")
        return
    scale = max(1, tol // 100)
    TOLC.update(Tol=tol, Scale=scale, Band=2 * scale, MaxOff=70 * scale)
    ctx.note("creation tolerance measured on the constructor: %d units of 1e-7" % tol)
    inv, prop = ["StaysNormalised"], ["RejectedChangesNothing"]
    res = ctx.tlc("Tolerance", constants=dict(TOLC, Local=False, Emitting=True, EmitOneIn=8 if quick else 1), invariants=inv, properties=prop, action_constraints=["Emit"], view="ViewP", coverage=False, timeout=1200)
    if len(res.emitted) < 1000 or not any(e["out"] == "rejected" for e in res.emitted) or not any(e["either"] for e in res.emitted):
        raise TLCError("Tolerance exported %d transitions (rejections / boundary cases missing)" % len(res.emitted))
    # the shortcut that compares only the changed entry with the value it replaces must be refuted (drift)
    r2 = ctx.tlc("Tolerance", constants=dict(TOLC, Local=True, Emitting=False, EmitOneIn=1), invariants=inv, coverage=False, timeout=600, allow_violation=True)
    if "StaysNormalised" not in r2.violated:
        raise TLCError("vacuity: the entry-local acceptance check is not refuted by Tolerance.tla")
    edges = sorted(res.emitted, key=lambda e: json.dumps(e, sort_keys=True))
    for e, fails in zip(edges, ctx.pmap(lambda w, e_: replay_tolerance(w, [e_], fresh_each=True), edges, chunksize=64)):
        ctx.count({"k": "tolerance", "pre": e["pre"], "i": e["i"], "d": e["d"], "out": e["out"]}, kind="tolerance: single assignment at %s" % ("the boundary" if e["either"] else e["out"]))
        for key_, msg in fails:
            ctx.violation(key_, msg, {"k": "tolerance", "steps": [e]})
    # behaviours drawn by TLC, each replayed on ONE object (whatever the object remembers between assignments is in play)
    sim = ctx.tlc("Tolerance", constants=dict(TOLC, Local=False, Emitting=True, EmitOneIn=0), invariants=inv, action_constraints=["Emit"], simulate="num=%d" % (40 if quick else 400), depth=120, workers=1, coverage=False, timeout=1200, extra=[])
    walks, cur = [], []
    for e in sim.emitted:
        if e["lvl"] == 1 and cur:
            walks.append(cur)
            cur = []
        cur.append(e)
    if cur:
        walks.append(cur)
    if len(walks) < 10 or max(len(w) for w in walks) < 50:
        raise TLCError("Tolerance: only %d simulated behaviours" % len(walks))
    for w in walks:
        ctx.count({"k": "tolerance-walk", "len": len(w), "rejected": sum(1 for s_ in w if s_["out"] == "rejected")}, kind="tolerance: behaviour on one object")
        for key_, msg in replay_tolerance(ctx, w):
            ctx.violation(key_, msg, {"k": "tolerance", "steps": w})
    ctx.bounds["tolerance"] = "two-entry states, probabilities in units of 1e-7 within +-%d units of 1/2, steps of +-%d, +-%d, +%d units; creation tolerance %d units (measured on the constructor), band +-%d" % (TOLC["MaxOff"], 40 * scale, 7 * scale, 3 * scale, tol, TOLC["Band"])


# ---- code -> spec ------------------------------------------------------------------------------------
NUMS = {"0": 0j, "1": 1 + 0j, "h": 0.5 + 0j, "-h": -0.5 + 0j, "ih": 0.5j, "r": complex(math.sqrt(0.5)), "-r": -complex(math.sqrt(0.5)), "ir": 1j * math.sqrt(0.5)}


def record_histories(ctx, n_hist):
    """seeded random driver on real objects; each event logs the call and the full projected state"""
    import sympy
    from orquestra.quantum.wavefunction import Wavefunction

    rng = random.Random(ctx.seed + 12)
    names = list(NUMS)

    def enc(x):
        return {"s": x} if x in ("a", "b") else {"n": x}

    def val(x):
        return sym(x) if x in ("a", "b") else NUMS[x]

    def proj(wf):
        out = []
        for p in project(wf):
            if isinstance(p, str):
                out.append({"s": p})
            else:
                best = min(names, key=lambda k: abs(NUMS[k] - p))
                out.append({"n": best} if abs(NUMS[best] - p) < 1e-9 else {"n": "other"})
        return out

    starts = [["1", "0"], ["r", "ir"], ["h", "h", "-h", "ih"], ["a", "b"], ["a", "h"], ["r", "a", "0", "b"], ["a", "a", "h", "h"], ["r", "0", "0", "r"]]
    traces = []
    for hix in range(n_hist):
        pool = []
        events = []
        for step in range(rng.randint(3, 9)):
            if not pool or (len(pool) < 3 and rng.random() < 0.2):
                v = rng.choice(starts)
                if rng.random() < 0.3:
                    v = [rng.choice(names + ["a", "b"]) for _ in range(rng.choice([2, 4]))]
                call = {"op": "new", "obj": 0, "i": 0, "val": enc("0"), "map": {"a": enc("a"), "b": enc("b")}, "vec": [enc(x) for x in v]}
                try:
                    pool.append(Wavefunction([val(x) for x in v] if any(x in ("a", "b") for x in v) else np.array([val(x) for x in v], dtype=complex)))
                    out = "ok"
                except ValueError:
                    out = "rejected"
            else:
                o = rng.randrange(len(pool))
                wf = pool[o]
                if wf.free_symbols and rng.random() < 0.4 and len(pool) < 3:
                    m = {k: rng.choice(names + [k, k]) for k in ("a", "b")}
                    call = {"op": "bind", "obj": o + 1, "i": 0, "val": enc("0"), "map": {k: enc(m[k]) for k in m}, "vec": []}
                    try:
                        r = wf.bind({sym(k): val(v) for k, v in m.items() if v != k})
                        if r is not wf:
                            pool.append(r)
                        out = "ok"
                    except ValueError:
                        out = "rejected"
                else:
                    i = rng.randrange(-len(wf), len(wf))
                    x = rng.choice(names + (["a", "b"] if wf.free_symbols else []))
                    call = {"op": "set", "obj": o + 1, "i": i, "val": enc(x), "map": {"a": enc("a"), "b": enc("b")}, "vec": []}
                    try:
                        wf[i] = val(x)
                        out = "ok"
                    except ValueError:
                        out = "rejected"
            ev = dict(call)
            ev["out"] = out
            ev["post"] = [proj(w) for w in pool]
            events.append(ev)
        traces.append({"id": hix + 1, "events": events})
    return traces


def validate_histories(ctx, traces):
    # the binding must bite: a CANARY history - a recorded one in which an accepted assignment is relabelled "rejected"
    # while the state still shows the new value (what a broken rollback looks like) - has to be rejected on every run
    import copy

    src = next((t for t in traces if any(e["op"] == "set" and e["out"] == "ok" for e in t["events"])), None)
    if src is None:
        raise TLCError("no recorded history with an accepted assignment: cannot build the canary")
    can = copy.deepcopy(src)
    can["id"] = len(traces) + 1
    can["canary"] = True
    k = next(i for i, e in enumerate(can["events"]) if e["op"] == "set" and e["out"] == "ok")
    can["events"][k]["out"] = "rejected"
    can["events"] = can["events"][: k + 1]
    traces = list(traces) + [can]
    path = os.path.join(ctx.tmp, "wf-traces.json")
    with open(path, "w") as f:
        json.dump(traces, f)
    total = sum(len(t["events"]) + 1 for t in traces)
    res = ctx.tlc("WavefunctionTrace", init="TInit", next_="TNext", constants=dict(MaxObjs=3, Depth=50, NPaths=1, Emitting=False, EmitAllBelow=99, EmitOneIn=1, OpSet=ALLOPS), invariants=["EveryLiveObjectNormalised"], properties=["RejectedChangesNothing"], workers=1, env={"TRACE_FILE": path}, coverage=False, timeout=1200, allow_violation=True)
    bad = {}
    for rj in res.emitted:
        if "reject" in rj:
            bad.setdefault(rj["reject"], rj)
    if len(traces) not in bad:
        raise TLCError("binding self-test failed: WavefunctionTrace accepted the canary history (an accepted assignment relabelled 'rejected')")
    ctx.by_kind["canary histories rejected by the trace specification"] = 1
    for tid, rj in sorted(bad.items()):
        t = traces[tid - 1]
        if t.get("canary"):
            continue
        ctx.violation("trace:" + ",".join(sorted(rj["failed"])), "WavefunctionTrace rejects event %d of a recorded history: failed clause(s) %s\n history: %s" % (rj["at"], sorted(rj["failed"]), json.dumps(t["events"][: rj["at"]])[:1500]), {"k": "trace", "trace": t})
    if res.violated:
        ctx.violation("trace:property:" + ",".join(res.violated), "a recorded history violates %s\n%s" % (res.violated, "\n".join(res.trace[:40])), {"k": "trace"})
    expected = sum(len(t["events"]) + 1 for i, t in enumerate(traces) if (i + 1) not in bad) + sum(rj["at"] for rj in bad.values())
    if not res.violated and res.distinct != expected:
        raise TLCError("WavefunctionTrace explored %d states, expected %d" % (res.distinct, expected))
    ctx.traces_validated += len(traces) - len(bad)


def run(ctx):
    quick = ctx.tier == "quick"
    depth = 4
    ctx.bounds = {"MaxObjs": 2, "Depth(levels)": depth, "amplitude alphabet": 10, "initial vectors": 14}
    res = ctx.tlc("Wavefunction", constants=dict(MaxObjs=2, Depth=depth, NPaths=1, Emitting=True, EmitAllBelow=3, EmitOneIn=60 if quick else 6, OpSet=ALLOPS), invariants=INVS, properties=PROPS, constraints=["DepthBound"], action_constraints=["Emit"], view="ViewObjs", coverage=False, timeout=2400)
    edges = res.emitted
    if len(edges) < 1000:
        raise TLCError("Wavefunction exported only %d transitions" % len(edges))
    g = Graph(edges, [])
    rng = random.Random(ctx.seed)
    budget = 6000 if quick else 60000
    nw = 0
    import itertools

    rej = g.walks(rng, limit=budget // 2, select=lambda e: e["out"] == "rejected" and e["lvl"] >= 3)
    qry = g.walks(rng, limit=budget // 3, select=lambda e: e["op"] in ("probs", "flip", "saveload") and e["lvl"] >= 3)
    for w in itertools.chain(rej, qry, g.walks(rng, limit=budget // 2)):
        nw += 1
        ctx.count({"k": "walk", "steps": [(s["op"], s["obj"], s["out"]) for s in w], "last": {k: w[-1][k] for k in ("op", "obj", "i", "val", "map", "vec", "out")}}, kind="walk")
        for key_, msg in replay_walk(ctx, w):
            ctx.violation(key_, msg, {"k": "walk", "steps": [{k: v for k, v in s.items() if not k.startswith("_")} for s in w]})
    # symbolic and mixed states reversed, then bound / assigned to / reversed again (three live objects, three calls)
    sf = ctx.tlc("Wavefunction", constants=dict(MaxObjs=3, Depth=4, NPaths=1, Emitting=True, EmitAllBelow=99, EmitOneIn=1, OpSet='{"new", "flip", "bind", "set"}'), invariants=INVS, properties=PROPS, constraints=["DepthBound"], action_constraints=["SymFlipOnly", "Emit"], view="ViewObjs", coverage=False, timeout=2400)
    g2 = Graph(sf.emitted, [])

    def on_flipped_symbolic(e):
        pre = e["pre"]
        return e["op"] in ("bind", "set", "flip") and len(pre) == 2 and e["obj"] == 2 and any("s" in a for a in pre[1]) and pre[1] != pre[0] and sorted(map(json.dumps, pre[0])) == sorted(map(json.dumps, pre[1]))

    nsf = 0
    for w in g2.walks(rng, limit=1500 if quick else 15000, select=on_flipped_symbolic):
        if [s_["op"] for s_ in w[:2]] != ["new", "flip"]:
            continue
        nsf += 1
        ctx.count({"k": "walk", "steps": [(s_["op"], s_["obj"], s_["out"]) for s_ in w], "last": {k: w[-1][k] for k in ("op", "obj", "i", "val", "map", "vec", "out")}}, kind="walk on a reversed symbolic state")
        for key_, msg in replay_walk(ctx, w):
            ctx.violation(key_, msg, {"k": "walk", "steps": [{k: v for k, v in s_.items() if not k.startswith("_")} for s_ in w]})
    if nsf < 50:
        raise TLCError("only %d walks new -> flip -> call on the reversed symbolic state" % nsf)
    ctx.exhaustive = False  # TLC's exploration is exhaustive; the export of the deepest level and the replay are samples
    if nw < len(edges):
        ctx.note("replayed %d of %d exported edges (seeded sample)" % (nw, len(edges)))
    # TLC-drawn longer histories
    pm = ctx.tlc("Wavefunction", next_="PathNext", constants=dict(MaxObjs=3, Depth=10, NPaths=30 if quick else 300, Emitting=True, EmitAllBelow=99, EmitOneIn=1, OpSet=ALLOPS), invariants=INVS, properties=PROPS, constraints=["DepthBound"], action_constraints=["Emit"], view="PathView", workers=1, coverage=False, timeout=2400, extra=["-seed", str(ctx.seed + 7)])
    paths = {}
    for e in pm.emitted:
        paths.setdefault(e["pid"], []).append(e)
    for pid, steps in sorted(paths.items()):
        steps.sort(key=lambda e: e["lvl"])
        ctx.count({"k": "history", "steps": [(s["op"], s["obj"], s["out"]) for s in steps]}, kind="history")
        for key_, msg in replay_walk(ctx, steps):
            ctx.violation(key_, msg, {"k": "walk", "steps": steps})
    check_dicke(ctx)
    check_tolerance(ctx)
    traces = record_histories(ctx, 150 if quick else 1500)
    validate_histories(ctx, traces)
    ctx.by_kind["trace_events"] = sum(len(t["events"]) for t in traces)
    ctx.samples.append({"k": "recorded-history", "events": traces[0]["events"][:3]})
    ctx.assumptions += [
        "element assignments only (slice assignment is not in the model)",
        "a mixed symbolic/numeric vector whose numeric part is exactly 1 with irrational amplitudes may be accepted or rejected (floating point cannot decide it)",
        "symbols cannot be assigned into an all-numeric state (complex storage); not modelled",
    ]


def replay(ctx, case):
    if case.get("k") == "walk":
        ctx.count({"k": "walk", "n": len(case["steps"])})
        for key_, msg in replay_walk(ctx, case["steps"]):
            ctx.violation(key_, msg, case)
    elif case.get("k") == "dicke":
        check_dicke(ctx)
    elif case.get("k") == "tolerance":
        tol = calibrate_tolerance()
        if tol is not None:
            sc = max(1, tol // 100)
            TOLC.update(Tol=tol, Scale=sc, Band=2 * sc, MaxOff=70 * sc)
        ctx.count({"k": "tolerance", "n": len(case["steps"])})
        for key_, msg in replay_tolerance(ctx, case["steps"], fresh_each=len(case["steps"]) == 1):
            ctx.violation(key_, msg, case)
    else:
        traces = record_histories(ctx, 150)
        validate_histories(ctx, traces)
        ctx.count({"k": "traces", "n": len(traces)})
