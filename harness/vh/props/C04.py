"""C04 - every view of a simulated state agrees on which qubit is which.

spec: Views.tla.  TLC: ConventionsCompose (the two reversals of the sampler compose to 'position q = qubit q'
in both sampling branches), ExactEqualsEigenvalueAverage for every Z-type operator on the register,
SupportIsNonzeroProb, over ALL X-subset circuits on <= 4 qubits and superposition circuits over
{X,H,RY(pi/2),S,CNOT} on <= 3 qubits with idle qubits.
spec->code: for every exported program the real state vector, exact distribution, sampled tuples (few and
many samples), count strings, exact expectation values and expectation values from measurements are compared
with the specification's exact values - deterministic facts only, never frequencies."""
import json
import math

import numpy as np

from .. import circ_common as cc
from ..bridge import close, ring, vec
from ..tlc import TLCError

# violation keys of behaviour modelled beyond the statement of the property (reported, never an alarm)
BEYOND = ("bits:",)
INV = ["ConventionsCompose", "ExactEqualsEigenvalueAverage", "Normalised", "SupportIsNonzeroProb", "EmitZ"]


def to_steps(prog):
    ctrl = {"CRY": ("RY", 1), "CCX": ("X", 2)}
    return [{"name": ctrl[s["name"]][0], "k": s["k"], "qs": s["qs"], "kind": "ctrl", "nc": ctrl[s["name"]][1]} if s["name"] in ctrl else {"name": s["name"], "k": s["k"], "qs": s["qs"], "kind": "builtin", "nc": 0} for s in prog]


def check_case(ctx, c):
    import warnings

    warnings.simplefilter("ignore", RuntimeWarning)  # numpy's matmul warns spuriously on some complex inputs; results are compared exactly below
    from orquestra.quantum.measurements import Measurements
    from orquestra.quantum.operators import PauliSum, PauliTerm
    from orquestra.quantum.runners.symbolic_simulator import SymbolicSimulator

    out = []
    n = c["n"]
    prog = to_steps(c["prog"])
    desc = cc.describe(prog, n)
    circ = cc.circuit_real(prog, n)
    psi = vec(c["psi"])
    # one more view: simulate with a parameter left symbolic, substitute afterwards
    par = [i for i, s_ in enumerate(prog) if cc.is_parametric(s_)]
    if par:
        import sympy

        th = sympy.Symbol("theta")
        for i in (par[0], par[-1]):
            csym = cc.circuit_real(prog, n, symbol_at=i, symbol=th)
            try:
                wsym = SymbolicSimulator(seed=ctx.seed).get_wavefunction(csym).bind({th: prog[i]["k"][0] * math.pi / 2})
                amps = np.asarray(wsym.amplitudes, dtype=complex).reshape(-1)
                if not close(amps, psi):
                    out.append(("symbolic-then-bind", "%s with the angle of operation %d symbolic, bound afterwards: amplitudes %s, specification %s" % (desc, i, np.round(amps, 6).tolist(), np.round(psi, 6).tolist())))
            except Exception as ex:
                out.append(("symbolic-then-bind:raises", "%s with the angle of operation %d symbolic: %s: %s" % (desc, i, type(ex).__name__, str(ex)[:200])))
    probs = [ring(p).real for p in c["probs"]]
    tuples = [tuple(t) for t in c["tuples"]]
    support = {tuples[i] for i, p in enumerate(probs) if p > 1e-12}
    sim = SymbolicSimulator(seed=ctx.seed)
    # state vector
    wf = np.asarray(sim.get_wavefunction(circ).amplitudes, dtype=complex).reshape(-1)
    if not close(wf, psi):
        out.append(("wavefunction", "%s: state vector %s, specification %s" % (desc, np.round(wf, 4).tolist(), np.round(psi, 4).tolist())))
    # exact distribution
    d = sim.get_measurement_outcome_distribution(circ, None).distribution_dict
    want = {tuples[i]: probs[i] for i in range(len(probs))}
    if set(d.keys()) != set(want.keys()) or any(abs(d[k] - want[k]) > 1e-9 for k in want):
        out.append(("exact-distribution", "%s: exact distribution %s, specification %s" % (desc, {k: round(v, 4) for k, v in d.items() if v > 1e-12}, {k: round(v, 4) for k, v in want.items() if v > 1e-12})))
    if list(d.keys()) != tuples:
        ctx.spec_drift("exact distribution keys are not in product order")
    # sampling: both internal regimes (fewer samples than basis states, and more)
    for ns in (1, 2**n - 1 if n > 1 else 1, 2**n + 3, 40):
        ms = sim.run_and_measure(circ, ns)
        bs = [tuple(int(x) for x in b) for b in ms.bitstrings]
        if len(bs) < ns:
            out.append(("samples:count", "%s: %d samples requested, %d returned" % (desc, ns, len(bs))))
        bad = [b for b in bs if len(b) != n or b not in support]
        if bad:
            out.append(("samples:support", "%s with %d samples (%s than %d basis states): sampled %s has zero exact probability or wrong length; support %s" % (desc, ns, "fewer" if ns < 2**n else "more", 2**n, bad[0], sorted(support))))
        cnt = ms.get_counts()
        wantc = {}
        for b in bs:
            key = "".join(map(str, b))
            wantc[key] = wantc.get(key, 0) + 1
        if cnt != wantc:
            out.append(("counts", "%s: count strings %s do not spell the sampled tuples position by position (%s)" % (desc, cnt, wantc)))
        # expectation values from measurements = statistic of the returned tuples (exact on basis states)
        for z in c["z"]:
            S = z["S"]
            coef = 1.5
            term = PauliTerm({q: "Z" for q in S}, coef)
            ev_m = ms.get_expectation_values(PauliSum([term])).values[0]
            stat = coef * sum((-1) ** sum(b[q] for q in S) for b in bs) / len(bs)
            if abs(ev_m - stat) > 1e-9:
                out.append(("measured-expectation", "%s: <%s> from measurements %s, statistic of the returned tuples %s" % (desc, term, ev_m, stat)))
            # the same outcomes seen in another order (another run of the same circuit): the value is the statistic of the
            # measurement set it is computed from, whatever was evaluated before
            bs_r = bs[::-1]
            ev_r = Measurements(list(bs_r)).get_expectation_values(PauliSum([term])).values[0]
            if abs(ev_r - stat) > 1e-9:
                out.append(("measured-expectation:reordered", "%s: <%s> from the same tuples listed in reverse order %s, statistic %s" % (desc, term, ev_r, stat)))
            if len(support) == 1 and abs(ev_m - coef * ring(z["v"]).real) > 1e-9:
                out.append(("measured-expectation:basis", "%s: basis state, <%s> from measurements %s, exact %s" % (desc, term, ev_m, coef * ring(z["v"]).real)))
    # a batch mixing this circuit with the same operations on a WIDER register (idle qubits at the end) and an empty one:
    # every result speaks about its own circuit's register
    from orquestra.quantum.circuits import Circuit

    wider = Circuit(list(circ.operations), n_qubits=n + 1)
    batch = [circ, wider, Circuit(n_qubits=n), circ, Circuit(n_qubits=n + 1)]
    widths = [n, n + 1, n, n, n + 1]
    try:
        results = sim.run_batch_and_measure(batch, [3, 2**n + 2, 2, 5, 1])
        if len(results) != len(batch):
            out.append(("batch:count", "%s in a batch of %d circuits: %d results" % (desc, len(batch), len(results))))
        for j, (ms_, wj) in enumerate(zip(results, widths)):
            bs = [tuple(int(x) for x in b) for b in ms_.bitstrings]
            if any(len(b) != wj for b in bs):
                out.append(("batch:width", "%s: batch [this, same operations on %d qubits, empty(%d), this, empty(%d)]: result %d has tuples %s for a register of %d qubits" % (desc, n + 1, n, n + 1, j, bs[:2], wj)))
            elif j in (0, 3) and any(b not in support for b in bs):
                out.append(("batch:support", "%s: batch result %d holds %s, support %s" % (desc, j, [b for b in bs if b not in support][:1], sorted(support))))
            elif j == 1 and any(b[:n] not in support or b[n] != 0 for b in bs):
                out.append(("batch:support", "%s on %d qubits (one idle qubit appended): sampled %s" % (desc, n + 1, bs[:2])))
            elif j in (2, 4) and any(any(b) for b in bs):
                out.append(("batch:support", "%s: the empty circuit in the batch sampled %s" % (desc, bs[:2])))
    except Exception as ex:
        out.append(("batch:raises", "%s in a mixed-width batch: %s: %s" % (desc, type(ex).__name__, str(ex)[:200])))
    # the same expectation seen from the other end: operator AND state with the qubit order reversed (a wavefunction that
    # came from a little-endian backend) - evaluated BEFORE the plain call, for the same operator object and width
    from orquestra.quantum.operators import get_expectation_value
    from orquestra.quantum.wavefunction import Wavefunction, flip_wavefunction

    flipped = flip_wavefunction(Wavefunction(np.array(psi, dtype=complex)))
    # exact expectation of every Z-type operator on the register
    for z in c["z"]:
        S = z["S"]
        coef = -2.0
        term = PauliTerm({q: "Z" for q in S}, coef)
        rev = get_expectation_value(term, flipped, reverse_operator=True)
        if abs(rev - coef * ring(z["v"]).real) > 1e-9:
            out.append(("exact-expectation:reversed", "%s: <%s> with operator and state both reversed = %s, specification %s" % (desc, term, rev, coef * ring(z["v"]).real)))
        got = sim.get_exact_expectation_values(circ, term)
        wantv = coef * ring(z["v"]).real
        if abs(got - wantv) > 1e-9:
            out.append(("exact-expectation", "%s: exact <%s> = %s, specification %s" % (desc, term, got, wantv)))
        avg = coef * sum(d.get(t, 0) * (-1) ** sum(t[q] for q in S) for t in d)
        if abs(got - avg) > 1e-9:
            out.append(("exact-vs-distribution", "%s: exact <%s> = %s but eigenvalue average under the exact distribution = %s" % (desc, term, got, avg)))
    # Z-type SUMS as a caller may write them (the same Z-string more than once, not adjacent, a constant in between): the exact
    # expectation is the eigenvalue average = the sum of the terms' exact values
    zs_ = c["z"]
    if len(zs_) >= 2:
        for a_, b_ in ((0, len(zs_) - 1), (len(zs_) // 2, 1)):
            za, zb = zs_[a_], zs_[b_]
            coefs = (1.0, 0.5, 2.0, -0.25)
            opsum = PauliSum([PauliTerm({q: "Z" for q in za["S"]}, coefs[0]), PauliTerm({q: "Z" for q in zb["S"]}, coefs[1]), PauliTerm({q: "Z" for q in za["S"]}, coefs[2]), PauliTerm({}, coefs[3]), PauliTerm({q: "Z" for q in zb["S"]}, coefs[1])])
            wantv = (coefs[0] + coefs[2]) * ring(za["v"]).real + 2 * coefs[1] * ring(zb["v"]).real + coefs[3]
            try:
                gotv = complex(sim.get_exact_expectation_values(circ, opsum))
            except Exception as ex:
                out.append(("exact-expectation:sum:raises", "%s: exact expectation of %s: %s: %s" % (desc, opsum, type(ex).__name__, str(ex)[:200])))
                continue
            if abs(gotv - wantv) > 1e-9:
                out.append(("exact-expectation:sum", "%s: exact <%s> = %s, eigenvalue average under the exact distribution %s" % (desc, opsum, gotv, wantv)))
    return out


BITS_INV = ["Dec2BinIsMSB", "Bin2DecIsMSB", "RoundTrips", "IsingIsSigned", "OrderedIsAscending", "FlipIsBitReversal", "EmitInit"]


def check_bits_case(ctx, c):
    """Bits.tla -> the utility layer's bit helpers, one (length, number) per case"""
    from orquestra.quantum.distributions.target_thermal_states import convert_integer_to_ising_bitstring, convert_ising_bitstring_to_integer
    from orquestra.quantum.measurements.measurements import convert_bitstring_to_int
    from orquestra.quantum.utils import bin2dec, bitstring_to_tuple, convert_bitstrings_to_tuples, convert_tuples_to_bitstrings, dec2bin, get_ordered_list_of_bitstrings, tuple_to_bitstring
    from orquestra.quantum.wavefunction import flip_amplitudes

    out = []
    L, x, msb = c["len"], c["num"], list(c["msb"])
    desc = "number %d on %d bits" % (x, L)
    got = [int(b) for b in dec2bin(x, L)]
    if got != msb:
        out.append(("bits:dec2bin", "%s: dec2bin gives %s, specification (most significant first) %s" % (desc, got, msb)))
    if bin2dec(list(msb)) != x:
        out.append(("bits:bin2dec", "%s: bin2dec(%s) = %s" % (desc, msb, bin2dec(list(msb)))))
    isg = [int(b) for b in convert_integer_to_ising_bitstring(x, L)]
    if isg != list(c["ising"]):
        out.append(("bits:ising", "%s: Ising string %s, specification %s" % (desc, isg, c["ising"])))
    if convert_ising_bitstring_to_integer(list(c["ising"])) != x:
        out.append(("bits:ising-back", "%s: Ising string %s read back as %s" % (desc, c["ising"], convert_ising_bitstring_to_integer(list(c["ising"])))))
    if convert_bitstring_to_int(tuple(msb)) != c["le"]:
        out.append(("bits:little-endian", "%s: convert_bitstring_to_int(%s) = %s, specification (first element least significant) %s" % (desc, msb, convert_bitstring_to_int(tuple(msb)), c["le"])))
    text = "".join(map(str, msb))
    tup = bitstring_to_tuple(text)
    if list(tup) != msb[::-1] or convert_bitstrings_to_tuples([text, text[::-1]]) != [tuple(msb[::-1]), tuple(msb)]:
        out.append(("bits:bitstring_to_tuple", "%s: bitstring_to_tuple(%r) = %s, specification: the reversal" % (desc, text, tup)))
    if tuple_to_bitstring(tuple(msb)) != text or convert_tuples_to_bitstrings([tuple(msb)]) != [text]:
        out.append(("bits:tuple_to_bitstring", "%s: tuple_to_bitstring(%s) = %r, specification: position by position" % (desc, msb, tuple_to_bitstring(tuple(msb)))))
    if x == 0:
        want = ["".join(map(str, b)) for b in c["ordered"]]
        got = get_ordered_list_of_bitstrings(L)
        if list(got) != want:
            out.append(("bits:ordered", "ordered bitstrings on %d bits: %s, specification %s" % (L, got, want)))
        amps = [complex(i, -i) for i in range(2**L)]
        fl = list(flip_amplitudes(amps))
        wantf = [amps[j] for j in c["flip"]]
        if fl != wantf:
            out.append(("bits:flip", "flip_amplitudes on %d bits permutes by %s, specification (bit reversal) %s" % (L, [int(v.real) for v in fl], list(c["flip"]))))
    return out


def check_bits(ctx):
    ml = 6 if ctx.tier == "quick" else 9
    ctx.bounds["bit helpers"] = "every number on every length 1..%d" % ml
    res = ctx.tlc("Bits", constants=dict(MaxLen=ml, Emitting=True), invariants=BITS_INV, action_constraints=["Emit"], workers=2, coverage=False, timeout=1200)
    if len(res.emitted) != 2 ** (ml + 1) - 2:
        raise TLCError("Bits exported %d states, expected %d" % (len(res.emitted), 2 ** (ml + 1) - 2))
    for c, fails in zip(res.emitted, ctx.pmap(check_bits_case, res.emitted)):
        ctx.count({"k": "bits", "len": c["len"], "num": c["num"]}, kind="bit helpers (beyond the property)")
        for key, msg in fails:
            ctx.violation(key, msg, {"k": "bits", "c": c})


def run(ctx):
    quick = ctx.tier == "quick"
    ctx.bounds = {"basis": "all X-subset circuits on 1..4 qubits", "perm": "every basis state followed by cc-X on every ordered triple of the register (3 qubits; 4 in the thorough tier)", "super": "all circuits of <= %d gates over {X,H,RY(pi/2),S,CNOT,c-RY(pi/2),cc-X on every ordered triple} on 1..3 qubits" % (2 if quick else 3), "Z operators": "every subset of the register"}
    cases = []
    for mode, mq, ml in (('"basis"', 4, 9), ('"perm"', 4 if not quick else 3, 9), ('"super"', 3, 2 if quick else 3)):
        res = ctx.tlc("Views", constants=dict(MaxQ=mq, MaxLen=ml, Mode=mode, Emitting=True), invariants=INV, action_constraints=["Emit"], view="ViewNoGm", coverage=False, timeout=3000)
        trans = {}
        zs = {}
        for e in res.emitted:
            if "zfor" in e:
                zs[json.dumps([e["zfor"], e["n"]], sort_keys=True)] = e["z"]
            else:
                trans[json.dumps([e["prog"], e["n"]], sort_keys=True)] = e
        for k, e in trans.items():
            if k not in zs:
                raise TLCError("Views: no expectation record for %s" % k)
            e["z"] = zs[k]
            e["mode"] = mode
            cases.append(e)
        if len(trans) < 10:
            raise TLCError("Views %s exported only %d programs" % (mode, len(trans)))
    # the empty circuit is the initial state of the specification
    for n0 in (1, 2, 3):
        tuples = [[(i >> (n0 - 1 - q)) & 1 for q in range(n0)] for i in range(2**n0)]
        subsets = [[q for q in range(n0) if (m >> q) & 1] for m in range(2**n0)]
        cases.append({"prog": [], "n": n0, "psi": [[1, 0, 0, 0, 0]] + [[0, 0, 0, 0, 0]] * (2**n0 - 1), "probs": [[1, 0, 0, 0, 0]] + [[0, 0, 0, 0, 0]] * (2**n0 - 1), "tuples": tuples, "z": [{"S": S, "v": [1, 0, 0, 0, 0]} for S in subsets], "mode": "init"})
    for c, fails in zip(cases, ctx.pmap(check_case, cases)):
        ctx.count({"k": "program", "circuit": cc.describe(to_steps(c["prog"]), c["n"]), "support": sum(1 for p in c["probs"] if p[0] or p[1])}, kind=c["mode"])
        for key, msg in fails:
            ctx.violation(key, msg, c)
    check_bits(ctx)
    ctx.assumptions.append("sampled outcomes are random (seeded): only length, membership in the exact support, count strings and statistics recomputed from the returned tuples are compared")


def replay(ctx, case):
    if case.get("k") == "bits":
        for key, msg in check_bits_case(ctx, case["c"]):
            ctx.violation(key, msg, case)
        return
    ctx.count({"k": "program", "circuit": cc.describe(to_steps(case["prog"]), case["n"])})
    for key, msg in check_case(ctx, case):
        ctx.violation(key, msg, case)
