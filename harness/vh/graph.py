"""Turn the transition export of an exhaustive TLC run into behaviours to replay on history objects.

edges: list of dicts with 'pre' and 'post' (JSON-able abstract states) - everything else is the event.
walks(): yields lists of edges starting in the initial state such that every edge is the LAST edge of at
least one walk; the prefix leading to an edge's pre-state is a shortest path chosen at random among all
shortest paths (seeded), so different ways of reaching the same abstract state get exercised."""
import json
import random
from collections import defaultdict, deque


def key(state):
    return json.dumps(state, sort_keys=True)


class Graph:
    def __init__(self, edges, init_state):
        # TLC's emission order depends on the worker schedule: order the edges by content, so that the seeded choices below
        # pick the same behaviours in every run
        edges.sort(key=lambda e: json.dumps({k: v for k, v in e.items() if not k.startswith("_")}, sort_keys=True, default=str))
        self.edges = edges
        self.out = defaultdict(list)
        self.inc = defaultdict(list)
        for i, e in enumerate(edges):
            e["_pre"] = key(e["pre"])
            e["_post"] = key(e["post"])
            self.out[e["_pre"]].append(i)
            self.inc[e["_post"]].append(i)
        self.init = key(init_state)
        self.dist = {self.init: 0}
        q = deque([self.init])
        while q:
            s = q.popleft()
            for i in self.out[s]:
                t = edges[i]["_post"]
                if t not in self.dist:
                    self.dist[t] = self.dist[s] + 1
                    q.append(t)

    def path_to(self, s, rng):
        """a random shortest path (list of edge indices) from the initial state to s"""
        path = []
        while s != self.init:
            d = self.dist[s]
            cands = [i for i in self.inc[s] if self.dist.get(self.edges[i]["_pre"], 1 << 30) == d - 1 and self.edges[i]["_pre"] != s]
            i = rng.choice(cands)
            path.append(i)
            s = self.edges[i]["_pre"]
        path.reverse()
        return path

    def walks(self, rng, limit=None, select=None):
        idx = [i for i, e in enumerate(self.edges) if e["_pre"] in self.dist and (select is None or select(e))]
        rng.shuffle(idx)
        if limit is not None:
            idx = idx[:limit]
        for i in idx:
            yield [self.edges[j] for j in self.path_to(self.edges[i]["_pre"], rng)] + [self.edges[i]]

    def random_walks(self, rng, n, depth):
        for _ in range(n):
            s = self.init
            w = []
            for _ in range(depth):
                if not self.out[s]:
                    break
                i = rng.choice(self.out[s])
                w.append(self.edges[i])
                s = self.edges[i]["_post"]
            if w:
                yield w
