"""Run TLC on a module of /verif/spec under a time limit and parse what it did.

Every run is: SANY parse + TLC (exhaustive BFS or -simulate) with -coverage 1.  The result carries the
numbers TLC printed (states generated, distinct states, depth), the names of violated invariants /
properties, the per-action coverage table and every JSON value the specification printed through
`PrintT(ToJson(...))` (the behaviour export used by the spec->code replay).
"""
import json
import os
import re
import shutil
import subprocess
import tempfile
import time

VERIF = os.path.dirname(os.path.dirname(os.path.dirname(os.path.abspath(__file__))))
SPEC_DIR = os.path.join(VERIF, "spec")
JAR = "/opt/veriftools/tla/tla2tools.jar:/opt/veriftools/tla/CommunityModules-deps.jar"


class TLCError(Exception):
    """machinery failure (exit status 2 of the check)"""


class TLCResult:
    def __init__(self):
        self.generated = 0
        self.distinct = 0
        self.depth = 0
        self.violated = []  # names of violated invariants / properties
        self.errors = []  # other error lines
        self.emitted = []  # decoded JSON values printed by the spec
        self.coverage = {}  # action name -> (distinct, generated)
        self.wall_s = 0.0
        self.stdout = ""
        self.finished = False
        self.cmd = ""
        self.module = ""
        self.trace = []  # counterexample text (if any)

    @property
    def transitions(self):
        return max(self.generated - 1, 0)

    def summary(self):
        return {
            "module": self.module,
            "states_generated": self.generated,
            "distinct_states": self.distinct,
            "depth": self.depth,
            "violated": self.violated,
            "emitted": len(self.emitted),
            "wall_s": round(self.wall_s, 2),
            "coverage": {k: list(v) for k, v in self.coverage.items()},
        }


def _fmt_const(v):
    if isinstance(v, bool):
        return "TRUE" if v else "FALSE"
    if isinstance(v, int):
        return str(v)
    if isinstance(v, str):
        return v  # already TLA+ syntax (model value, set expression, "string" with quotes)
    if isinstance(v, (list, tuple)):
        return "<<" + ", ".join(_fmt_const(x) for x in v) + ">>"
    if isinstance(v, (set, frozenset)):
        return "{" + ", ".join(_fmt_const(x) for x in sorted(v, key=str)) + "}"
    raise TypeError(v)


def make_cfg(
    spec=None,
    init="Init",
    next_="Next",
    constants=None,
    invariants=(),
    properties=(),
    constraints=(),
    action_constraints=(),
    view=None,
    postcondition=None,
    deadlock=False,
):
    lines = []
    if spec:
        lines.append("SPECIFICATION %s" % spec)
    else:
        lines.append("INIT %s" % init)
        lines.append("NEXT %s" % next_)
    for k, v in (constants or {}).items():
        if isinstance(v, str) and v.startswith("<-"):
            lines.append("CONSTANT %s %s" % (k, v))
        else:
            lines.append("CONSTANT %s = %s" % (k, _fmt_const(v)))
    for i in invariants:
        lines.append("INVARIANT %s" % i)
    for p in properties:
        lines.append("PROPERTY %s" % p)
    for c in constraints:
        lines.append("CONSTRAINT %s" % c)
    for c in action_constraints:
        lines.append("ACTION_CONSTRAINT %s" % c)
    if view:
        lines.append("VIEW %s" % view)
    if postcondition:
        lines.append("POSTCONDITION %s" % postcondition)
    lines.append("CHECK_DEADLOCK %s" % ("TRUE" if deadlock else "FALSE"))
    return "\n".join(lines) + "\n"


_COV = re.compile(r"^<(\w+) line (\d+), col (\d+) to line (\d+), col (\d+) of module (\w+)>: (\d+):(\d+)")


def parse_output(text, res):
    for line in text.splitlines():
        s = line.strip()
        if s.startswith('"') and s.endswith('"') and len(s) > 1:
            try:
                inner = json.loads(s)
                res.emitted.append(json.loads(inner))
                continue
            except Exception:
                res.errors.append("undecodable emitted line: " + s[:200])
                continue
        m = re.match(r"^(\d+) states generated, (\d+) distinct states found", s)
        if m:
            res.generated = int(m.group(1))
            res.distinct = int(m.group(2))
            continue
        m = re.match(r"^The depth of the complete state graph search is (\d+)", s)
        if m:
            res.depth = int(m.group(1))
            continue
        m = re.match(r"^Error: Invariant (\w+) is violated", s)
        if m:
            res.violated.append(m.group(1))
            continue
        m = re.match(r"^Error: The invariant of (\w+) is equal to FALSE", s)
        if m:
            res.violated.append(m.group(1))
            continue
        m = re.match(r"^Error: Action property (\w+) is violated", s) or re.match(
            r"^Error: Temporal properties were violated", s
        )
        if m:
            res.violated.append(m.group(1) if m.groups() else "TemporalProperty")
            continue
        m = re.match(r"^Error: The postcondition (\w+)? ?.*(violated|false)", s)
        if m:
            res.violated.append("POSTCONDITION")
            continue
        if s.startswith("Error:"):
            res.errors.append(s)
            continue
        m = _COV.match(s)
        if m:
            res.coverage[m.group(1)] = (int(m.group(7)), int(m.group(8)))
            continue
        if s.startswith("Model checking completed") or s.startswith("Finished in") or "Finished computing" in s:
            res.finished = True
        m = re.match(r"^The number of states generated: (\d+)", s)  # simulation mode
        if m:
            res.generated = int(m.group(1))
            res.distinct = res.distinct or int(m.group(1))
    if "Error:" in text:
        # keep the counterexample text for the report
        idx = text.find("Error:")
        res.trace = text[idx : idx + 6000].splitlines()


def run(
    module,
    cfg_text,
    workers=16,
    timeout=600,
    simulate=None,
    depth=None,
    seed=0,
    env=None,
    extra=(),
    coverage=True,
    heap="8g",
    queue_dfs=False,
    keep=None,
):
    """Run TLC on spec/<module>.tla with the given cfg text.  Returns TLCResult; raises TLCError on
    machinery failure (parse error, timeout, java crash)."""
    tmp = tempfile.mkdtemp(prefix="vh-tlc-")
    try:
        cfg = os.path.join(tmp, module + ".cfg")
        with open(cfg, "w") as f:
            f.write(cfg_text)
        cmd = ["java", "-XX:+UseParallelGC", "-Xmx" + heap, "-Djava.io.tmpdir=" + tmp]
        if queue_dfs:
            cmd.append("-Dtlc2.tool.queue.IStateQueue=StateDeque")
        cmd += ["-cp", JAR, "tlc2.TLC", "-workers", str(workers), "-metadir", os.path.join(tmp, "meta")]
        cmd += ["-noGenerateSpecTE", "-config", cfg]
        if coverage and not simulate:
            cmd += ["-coverage", "1"]
        if simulate:
            cmd += ["-simulate", simulate]
            if depth:
                cmd += ["-depth", str(depth)]
            cmd += ["-seed", str(seed)]
        cmd += list(extra)
        cmd.append(os.path.join(SPEC_DIR, module + ".tla"))
        e = dict(os.environ)
        e.pop("JAVA_TOOL_OPTIONS", None)
        if env:
            e.update(env)
        t0 = time.time()
        try:
            p = subprocess.run(
                cmd, cwd=SPEC_DIR, env=e, stdout=subprocess.PIPE, stderr=subprocess.STDOUT, timeout=timeout, text=True
            )
        except subprocess.TimeoutExpired as ex:
            subprocess.run(["pkill", "-f", tmp], check=False)
            raise TLCError("TLC timed out after %ss on %s" % (timeout, module))
        res = TLCResult()
        res.wall_s = time.time() - t0
        res.stdout = p.stdout
        res.module = module
        res.cmd = " ".join(cmd)
        parse_output(p.stdout, res)
        if keep:
            with open(keep, "w") as f:
                f.write(p.stdout)
        # machinery failures: parse errors, evaluation errors (not property violations)
        fatal = [
            x
            for x in res.errors
            if not x.startswith("Error: The behavior up to this point")
            and not x.startswith("Error: The following behavior")
            and "is violated" not in x
            and "is equal to FALSE" not in x
        ]
        if "Parsing or semantic analysis failed" in p.stdout or "*** Errors:" in p.stdout:
            raise TLCError("SANY failed on %s:\n%s" % (module, p.stdout[-3000:]))
        if fatal and not res.violated:
            raise TLCError("TLC error on %s: %s\n%s" % (module, fatal[:3], p.stdout[-3000:]))
        if p.returncode not in (0, 12, 13) and not res.violated:
            raise TLCError("TLC exit %s on %s\n%s" % (p.returncode, module, p.stdout[-3000:]))
        return res
    finally:
        shutil.rmtree(tmp, ignore_errors=True)
