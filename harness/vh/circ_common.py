"""Abstract programs of CircuitSem.tla (and of the modules built on it) -> real Circuit objects."""
import math

import numpy as np

from .bridge import mat

_CUSTOM = {}


def custom_def(name, m):
    """CustomGateDefinition for the spec's asymmetric custom gates (matrix decoded from the ring)"""
    import sympy
    from orquestra.quantum.circuits import CustomGateDefinition

    key = name
    if key not in _CUSTOM and name.endswith("x"):
        # exact algebraic entries: (a + b w + c w^2 + d w^3) / 2^k with w = (-1)^(1/4) - sympy keeps the odd powers of w as
        # powers of -1, i.e. complex numbers in whose expression the imaginary unit does not occur
        w = sympy.Integer(-1) ** sympy.Rational(1, 4)
        sm = sympy.Matrix([[(e[0] + e[1] * w + e[2] * w**2 + e[3] * w**3) / sympy.Integer(2) ** e[4] for e in row] for row in m])
        _CUSTOM[key] = CustomGateDefinition(gate_name=name, matrix=sm, params_ordering=())
    if key not in _CUSTOM:
        a = mat(m)
        sm = sympy.Matrix([[complex(a[r, c]) for c in range(a.shape[1])] for r in range(a.shape[0])])
        _CUSTOM[key] = CustomGateDefinition(gate_name=name, matrix=sm, params_ordering=())
    return _CUSTOM[key]


PARAMETRIC = {"RX", "RY", "RZ", "RH", "PHASE", "U3", "GPi", "GPi2", "CPHASE", "XX", "YY", "ZZ", "XY", "MS", "Delay"}
NPARAMS = {"U3": 3, "MS": 2}


def angles(name, k):
    n = NPARAMS.get(name, 1)
    return [k[j] * math.pi / 2 for j in range(n)]


def gate_real(step, symbol=None):
    """real gate for an exported step; `symbol`: replace the FIRST parameter by this sympy symbol"""
    from orquestra.quantum.circuits import builtin_gate_by_name

    name, kind = step["name"], step["kind"]
    if kind == "custom":
        return custom_def(name, step["m"])()
    g = builtin_gate_by_name(name)
    if name in PARAMETRIC:
        ps = angles(name, step["k"])
        if symbol is not None:
            ps[0] = symbol
        g = g(*ps)
    if kind == "ctrl":
        g = g.controlled(step["nc"])
    return g


def op_real(step, symbol=None):
    from orquestra.quantum.circuits import MultiPhaseOperation

    if step["kind"] == "phase":
        return MultiPhaseOperation(tuple(k * math.pi / 4 for k in step["ph"]))
    return gate_real(step, symbol)(*step["qs"])


def circuit_real(prog, n, symbol_at=None, symbol=None):
    from orquestra.quantum.circuits import Circuit

    ops = [op_real(s, symbol if i == symbol_at else None) for i, s in enumerate(prog)]
    return Circuit(ops, n_qubits=n)


def is_parametric(step):
    return step["kind"] in ("builtin", "ctrl") and step["name"] in PARAMETRIC


def describe(prog, n):
    parts = []
    for s in prog:
        if s["kind"] == "phase":
            parts.append("phase%s" % (s["ph"],))
        else:
            nm = s["name"] + ("(%s)" % ",".join("%d*pi/2" % x for x in s["k"][: NPARAMS.get(s["name"], 1)]) if s["name"] in PARAMETRIC else "")
            if s["kind"] == "ctrl":
                nm += ".controlled(%d)" % s["nc"]
            parts.append("%s%s" % (nm, tuple(s["qs"])))
    return "Circuit([%s], n_qubits=%d)" % (", ".join(parts), n)


def to_np(m):
    import sympy

    if isinstance(m, np.ndarray):
        return m.astype(complex)
    return np.array(sympy.Matrix(m).evalf().tolist(), dtype=complex)
