"""Shared helpers for the conformance side: which tree is under test, snapshots, tolerant comparison."""
import copy
import os
import sys

import numpy as np

import traceback

REPO = os.path.abspath(os.environ.get("VERIF_REPO", "/repo"))


def bind_repo():
    """Put the tree under test in front of sys.path and make sure that is what gets imported."""
    src = os.path.join(REPO, "src")
    if src not in sys.path:
        sys.path.insert(0, src)
    import orquestra.quantum.circuits as c

    f = os.path.abspath(c.__file__)
    if not f.startswith(src + os.sep):
        raise RuntimeError("orquestra.quantum imported from %s, expected under %s" % (f, src))
    return src


def pynum(x):
    """numpy scalar -> python number (sympy 1.9 cannot sympify numpy-2 scalars)"""
    if isinstance(x, (np.integer,)):
        return int(x)
    if isinstance(x, (np.floating,)):
        return float(x)
    if isinstance(x, (np.complexfloating,)):
        return complex(x)
    return x


def fingerprint(obj, _depth=0):
    """Structural, order-sensitive, value-based fingerprint of an object graph (for C20 snapshots).
    Lazily cached private attributes that are not observable state are ignored."""
    import sympy

    if _depth > 12:
        return "<deep>"
    if obj is None or isinstance(obj, (bool, int, str, bytes)):
        return (type(obj).__name__, obj)
    if isinstance(obj, float):
        return ("float", repr(obj))
    if isinstance(obj, complex):
        return ("complex", repr(obj))
    if isinstance(obj, np.generic):
        return ("np", type(obj).__name__, repr(obj.item()))
    if isinstance(obj, np.ndarray):
        return ("ndarray", obj.shape, str(obj.dtype), tuple(fingerprint(x, _depth + 1) for x in obj.ravel().tolist()))
    if isinstance(obj, sympy.Basic):
        try:
            return ("sympy", sympy.srepr(obj))
        except RecursionError:
            return ("sympy-hash", hash(obj))
    if isinstance(obj, sympy.MatrixBase):
        try:
            return ("sympymat", obj.shape, tuple(sympy.srepr(x) for x in obj))
        except RecursionError:
            return ("sympymat-hash", obj.shape, tuple(hash(x) for x in obj))
    if isinstance(obj, (list, tuple)):
        return (type(obj).__name__, tuple(fingerprint(x, _depth + 1) for x in obj))
    if isinstance(obj, (set, frozenset)):
        return (type(obj).__name__, tuple(sorted((fingerprint(x, _depth + 1) for x in obj), key=repr)))
    if isinstance(obj, dict):
        return ("dict", tuple((fingerprint(k, _depth + 1), fingerprint(v, _depth + 1)) for k, v in obj.items()))
    if hasattr(obj, "toarray") and hasattr(obj, "nnz"):
        return ("sparse", fingerprint(obj.toarray(), _depth + 1))
    if callable(obj) and not hasattr(obj, "__dict__"):
        return ("callable", getattr(obj, "__qualname__", repr(type(obj))))
    d = getattr(obj, "__dict__", None)
    slots = getattr(type(obj), "__slots__", None)
    items = []
    if d is not None:
        items += [(k, v) for k, v in d.items()]
    if slots:
        items += [(k, getattr(obj, k)) for k in slots if hasattr(obj, k)]
    if d is None and not slots:
        return ("obj", type(obj).__name__, repr(obj))
    IGN = {"_circuit", "_circuits", "_is_ising", "_hash", "_cached"}  # lazily cached, not observable state
    return (
        "obj",
        type(obj).__name__,
        tuple((k, fingerprint(v, _depth + 1)) for k, v in items if k not in IGN and not (callable(v) and not hasattr(v, '__dict__'))),
    )


_EMPTY = {("NoneType", None), ("dict", ()), ("list", ()), ("tuple", ()), ("set", ()), ("frozenset", ())}


def _lazy_name(k):
    k = k.lower()
    return "cache" in k or "memo" in k or "lazy" in k


def same_observable(before, after):
    """compare two fingerprints, ignoring what cannot have been observable state before the call: PRIVATE attributes of an
    object that were absent, None or empty before (lazily filled slots), and private attributes named as caches / memos.
    A library is free to remember things about an argument; whether it then answers correctly is decided by the
    functional oracles, not by this comparison."""
    if before == after:
        return True
    if type(before) is not tuple or type(after) is not tuple or not before or not after or before[0] != after[0]:
        return False
    tag = before[0]
    if tag == "obj" and len(before) == 3 and len(after) == 3 and type(before[2]) is tuple and type(after[2]) is tuple:
        if before[1] != after[1]:
            return False
        b, a = dict(before[2]), dict(after[2])
        for k in list(b.keys()) + [k for k in a if k not in b]:
            if isinstance(k, str) and k.startswith("_") and not k.startswith("__"):
                if k not in b or b[k] in _EMPTY or _lazy_name(k):
                    continue
            if k not in a or k not in b or not same_observable(b[k], a[k]):
                return False
        return True
    if tag in ("list", "tuple") and len(before) == 2 and len(after) == 2:
        return len(before[1]) == len(after[1]) and all(same_observable(x, y) for x, y in zip(before[1], after[1]))
    if tag == "dict" and len(before) == 2 and len(after) == 2:
        return len(before[1]) == len(after[1]) and all(same_observable(kx, ky) and same_observable(vx, vy) for (kx, vx), (ky, vy) in zip(before[1], after[1]))
    return False


class Snap:
    """snapshot a list of live objects before a call; compare after"""

    def __init__(self, objs):
        self.objs = list(objs)
        self.before = [fingerprint(o) for o in self.objs]

    def changed(self):
        out = []
        for i, o in enumerate(self.objs):
            if not same_observable(self.before[i], fingerprint(o)):
                out.append(i)
        return out


def library_raised(ex):
    """(key, message) if the innermost frame of the exception lies in the library under test (an exception that
    escapes from the real code during a replay is an observation about the code, not a harness failure), else None"""
    tb = traceback.extract_tb(ex.__traceback__)
    src = os.path.join(REPO, "src") + os.sep
    if tb and os.path.abspath(tb[-1].filename).startswith(src):
        fr = tb[-1]
        where = "%s:%d in %s" % (os.path.relpath(fr.filename, src), fr.lineno, fr.name)
        return ("library-raised:%s:%s" % (type(ex).__name__, fr.name), "the library raised %s: %s (%s) while the check replayed this case" % (type(ex).__name__, str(ex)[:300], where))
    return None


def guarded(fn, w, case):
    try:
        return fn(w, case)
    except Exception as ex:
        lr = library_raised(ex)
        if lr is None:
            raise
        return [lr]


