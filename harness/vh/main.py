"""./check <Cxx> [--tier quick|thorough] [--replay FILE]

Phases (DESIGN §2.1): TLC on the specification -> behaviour export -> replay into the implementation
(spec->code) -> trace validation (code->spec) -> verdict + evidence.
Exit 0: property held on everything explored (known findings are printed as KNOWN-FINDING lines).
Exit 1: at least one violation that known_findings.json does not list (VIOLATION line printed).
Exit 2: machinery failure (TLC crashed / timed out / zero coverage / wrong tree imported).
"""
import argparse
import hashlib
import importlib
import json
import os
import shutil
import sys
import tempfile
import time
import traceback

from . import tlc
from .common import REPO, bind_repo, guarded, library_raised

VERIF = tlc.VERIF
EVID = os.path.join(VERIF, "evidence")
REPLAYS = os.path.join(VERIF, "replays")
FINDINGS = os.path.join(VERIF, "known_findings.json")


def load_findings():
    if not os.path.exists(FINDINGS):
        return {"findings": [], "fixed": []}
    with open(FINDINGS) as f:
        return json.load(f)


class WCtx:
    """what a check function may use inside a worker process"""

    def __init__(self, seed, tmp, tier):
        self.seed = seed
        self.tmp = tmp
        self.tier = tier
        self.drift = []
        self.notes = []

    def spec_drift(self, s):
        if len(self.drift) < 20 and s not in self.drift:
            self.drift.append(s)

    def note(self, s):
        if s not in self.notes:
            self.notes.append(s)


_PM = {}


def _pm_call(args):
    i, case = args
    w = WCtx(_PM["seed"], _PM["tmp"], _PM["tier"])
    try:
        fails = guarded(_PM["fn"], w, case)
    except Exception as ex:  # a harness exception inside a worker is a machinery failure, reported by the parent
        import traceback

        return i, None, traceback.format_exc(), [], []
    return i, fails, None, w.drift, w.notes


class Ctx:
    def __init__(self, prop, tier, seed):
        self.prop = prop
        self.tier = tier
        self.seed = seed
        self.t0 = time.time()
        self.tmp = tempfile.mkdtemp(prefix="vh-%s-" % prop)
        self.tlc_runs = []
        self.states = 0
        self.transitions = 0
        self.evaluations = 0
        self.distinct = set()
        self.samples = []
        self.traces_validated = 0
        self.violations = []  # (key, message, case)
        self.known_hits = {}  # finding id -> count
        self.notes = []
        self.drift = []
        self.assumptions = []
        self.judged_numerically = []
        self.bounds = {}
        self.exhaustive = True
        self.not_evaluated = 0
        self.by_kind = {}
        self.findings = load_findings()
        self.replay_mode = False
        # behaviour the specification family covers beyond the statement of the property (DESIGN section 14): a
        # disagreement there is reported (BEYOND-PROPERTY line, evidence) but is no violation of the property
        self.beyond_prefixes = ()
        self.beyond = []

    # ---- TLC ----------------------------------------------------------------------------------
    def tlc(self, module, require_actions=(), allow_violation=False, **kw):
        cfgkw = {}
        for k in (
            "spec",
            "init",
            "next_",
            "constants",
            "invariants",
            "properties",
            "constraints",
            "action_constraints",
            "view",
            "postcondition",
            "deadlock",
        ):
            if k in kw:
                cfgkw[k] = kw.pop(k)
        cfg = tlc.make_cfg(**cfgkw)
        kw.setdefault("seed", self.seed)
        res = tlc.run(module, cfg, **kw)
        summ = res.summary()
        summ["cfg"] = cfgkw
        self.tlc_runs.append(summ)
        self.states += res.distinct
        self.transitions += res.transitions
        if kw.get("simulate"):
            self.exhaustive = False
        for a in require_actions:
            if res.coverage.get(a, (0, 0))[1] == 0:
                raise tlc.TLCError("vacuity: action %s of %s was never taken" % (a, module))
        for a, (d, g) in res.coverage.items():
            if g == 0 and a not in ("Init",) and not kw.get("simulate"):
                self.notes.append("coverage: action %s of %s generated no state" % (a, module))
        if res.violated and not allow_violation:
            # a violated invariant of the specification itself: the design (as transcribed) breaks the property
            self.violation(
                "spec:%s:%s" % (module, ",".join(res.violated)),
                "TLC: %s violated in %s\n%s" % (res.violated, module, "\n".join(res.trace[:60])),
                {"k": "tlc", "module": module, "cfg": cfgkw},
            )
        return res

    # ---- parallel replay ------------------------------------------------------------------------
    def pmap(self, fn, cases, nproc=None, chunksize=8):
        """run fn(wctx, case) -> [(key, msg)] over all cases in forked worker processes; returns list of fails per case"""
        import multiprocessing as mp

        cases = list(cases)
        nproc = nproc or min(16, max(1, (os.cpu_count() or 2)))
        if len(cases) < 16 or nproc == 1 or self.replay_mode:
            out = []
            for c in cases:
                out.append(guarded(fn, self, c))
            return out
        _PM.update(fn=fn, seed=self.seed, tmp=self.tmp, tier=self.tier)
        res = [None] * len(cases)
        with mp.get_context("fork").Pool(nproc) as pool:
            for i, fails, err, drift, notes in pool.imap_unordered(_pm_call, list(enumerate(cases)), chunksize=chunksize):
                if err is not None:
                    raise RuntimeError("worker failed on case %d:\n%s" % (i, err))
                res[i] = fails
                for d in drift:
                    self.spec_drift(d)
                for nt in notes:
                    self.note(nt)
        return res

    # ---- cases -------------------------------------------------------------------------------
    def count(self, case, nontrivial=True, kind=None):
        self.evaluations += 1
        kind = kind or (case.get("k") if isinstance(case, dict) else None) or "case"
        self.by_kind[kind] = self.by_kind.get(kind, 0) + 1
        if nontrivial:
            h = hashlib.sha1(json.dumps(case, sort_keys=True, default=str).encode()).hexdigest()[:16]
            self.distinct.add(h)
        if len(self.samples) < 6 and (self.by_kind[kind] == 1):
            self.samples.append(json.loads(json.dumps(case, default=str)))

    def violation(self, key, message, case):
        if any(key.startswith(p) for p in self.beyond_prefixes):
            self.beyond.append((key, message, case))
            return
        self.violations.append((key, message, case))

    def known(self, fid, what):
        """a violation that is precisely characterised as the listed known finding `fid`"""
        self.known_hits.setdefault(fid, []).append(what)

    def note(self, s):
        if s not in self.notes:
            self.notes.append(s)

    def spec_drift(self, s):
        if len(self.drift) < 50 and s not in self.drift:
            self.drift.append(s)

    # ---- verdict -----------------------------------------------------------------------------
    def finish(self):
        listed = {f["id"]: f for f in self.findings.get("findings", []) if f["property"] == self.prop}
        new = []
        for key, msg, case in self.violations:
            new.append((key, msg, case))
        for fid, whats in sorted(self.known_hits.items()):
            if fid in listed:
                print("KNOWN-FINDING: property=%s %s (%s; %d case(s) this run)" % (self.prop, listed[fid]["what"], fid, len(whats)))
            else:
                new.append(("unlisted-finding:" + fid, "finding %s is not listed in known_findings.json: %s" % (fid, whats[0]), {"k": "finding", "id": fid, "what": whats[0]}))
        wall = time.time() - self.t0
        ev = {
            "property_id": self.prop,
            "tier": self.tier,
            "seed": self.seed,
            "level": "model_checking",
            "coverage": {
                "states": self.states,
                "transitions": self.transitions,
                "traces_validated_against_impl": self.traces_validated,
                "samples": self.samples[:8] or [{"note": "no case recorded"}],
                "evaluations": self.evaluations,
                "distinct_nontrivial": len(self.distinct),
                "rule": "cases are the states/transitions TLC enumerated (or simulated) for the spec modules listed under tlc_runs, each replayed through the real API; distinct = distinct case records by content hash; trivial cases (identity/no-op placeholders) are not counted",
                "exhaustive": bool(self.exhaustive),
                "by_kind": self.by_kind,
                "tlc_runs": self.tlc_runs,
                "bounds": self.bounds,
                "judged_numerically": self.judged_numerically,
                "not_evaluated_timeouts": self.not_evaluated,
                "spec_drift_notes": self.drift,
                "notes": self.notes,
                "known_findings_seen": {k: len(v) for k, v in self.known_hits.items()},
                "beyond_property": {"prefixes": list(self.beyond_prefixes), "deviations": [[k, m[:300]] for k, m, _ in self.beyond[:20]]},
                "repo": REPO,
            },
            "assumptions": self.assumptions
            + [
                "trusted base: TLC/SANY 1.8 and CommunityModules Json; the bridge decoding ring elements; numpy for float comparison",
                "small-scope: only the bounds listed under coverage.bounds / tlc_runs were explored",
            ],
            "wall_s": round(wall, 2),
            "violations": len(new),
        }
        if not self.replay_mode and REPO == "/repo":  # runs against a scratch copy (mutants) leave the evidence alone
            os.makedirs(EVID, exist_ok=True)
            with open(os.path.join(EVID, self.prop + ".json"), "w") as f:
                json.dump(ev, f, indent=1, default=str)
        shutil.rmtree(self.tmp, ignore_errors=True)
        seen_b = set()
        for key, msg, _ in self.beyond:
            if key not in seen_b and len(seen_b) < 12:
                print("BEYOND-PROPERTY: property=%s %s: %s" % (self.prop, key, msg[:600].replace("\n", " ")))
            seen_b.add(key)
        if new:
            os.makedirs(REPLAYS, exist_ok=True)
            shown = 0
            seen = set()
            for key, msg, case in new:
                if key in seen:
                    continue
                seen.add(key)
                h = hashlib.sha1((key + json.dumps(case, sort_keys=True, default=str)).encode()).hexdigest()[:10]
                path = os.path.join(REPLAYS, "%s-%s.json" % (self.prop, h))
                with open(path, "w") as f:
                    json.dump({"property": self.prop, "key": key, "message": msg, "case": case}, f, indent=1, default=str)
                if shown < 12:
                    print("--- %s: %s" % (key, msg[:1500]))
                    print("VIOLATION property=%s replay=%s" % (self.prop, path))
                    shown += 1
            print("%s: %d violation(s) (%d distinct keys), %d cases, %.1fs" % (self.prop, len(new), len(seen), self.evaluations, wall))
            return 1
        print(
            "%s %s: OK  states=%d transitions=%d cases=%d traces=%d wall=%.1fs"
            % (self.prop, self.tier, self.states, self.transitions, self.evaluations, self.traces_validated, wall)
        )
        return 0


def main(argv=None):
    ap = argparse.ArgumentParser()
    ap.add_argument("prop")
    ap.add_argument("--tier", default=os.environ.get("VERIF_TIER", "quick"), choices=["quick", "thorough"])
    ap.add_argument("--replay")
    a = ap.parse_args(argv)
    seed = int(os.environ.get("VERIF_SEED", "0") or 0)
    os.environ.setdefault("PYTHONHASHSEED", "0")
    try:
        bind_repo()
    except Exception as ex:
        print("MACHINERY-FAILURE: %s" % ex)
        return 2
    ctx = Ctx(a.prop, a.tier, seed)
    try:
        mod = importlib.import_module("vh.props." + a.prop)
        ctx.beyond_prefixes = tuple(getattr(mod, "BEYOND", ()))
        if a.replay:
            ctx.replay_mode = True
            with open(a.replay) as f:
                rec = json.load(f)
            mod.replay(ctx, rec["case"])
        else:
            mod.run(ctx)
    except tlc.TLCError as ex:
        print("MACHINERY-FAILURE: %s" % ex)
        shutil.rmtree(ctx.tmp, ignore_errors=True)
        return 2
    except Exception as ex:
        lr = library_raised(ex)
        if lr is None:
            traceback.print_exc()
            print("MACHINERY-FAILURE: harness exception")
            shutil.rmtree(ctx.tmp, ignore_errors=True)
            return 2
        # the real code raised outside a per-case guard: the run is incomplete, and what was seen is a violation
        traceback.print_exc()
        ctx.violation(lr[0], lr[1], {"k": "library-raised", "trace": traceback.format_exc()[-1500:]})
        ctx.note("the run stopped early: the library raised outside a per-case guard")
    return ctx.finish()


if __name__ == "__main__":
    sys.exit(main())
