"""Run Apalache (symbolic model checker for TLA+) on a module of /verif/spec under a time limit."""
import os
import re
import shutil
import subprocess
import tempfile
import time

from .tlc import SPEC_DIR, TLCError


def check(module, inv, length=0, timeout=600, init="Init", next_="Next"):
    """returns dict(outcome='NoError'|'Error', wall_s, module, inv).  Raises TLCError on machinery failure."""
    exe = shutil.which("apalache-mc")
    if exe is None:
        raise TLCError("apalache-mc is not on PATH")
    tmp = tempfile.mkdtemp(prefix="vh-apa-")
    try:
        cmd = [exe, "check", "--init=" + init, "--next=" + next_, "--inv=" + inv, "--length=%d" % length, "--out-dir=" + os.path.join(tmp, "out"), os.path.join(SPEC_DIR, module + ".tla")]
        t0 = time.time()
        env = dict(os.environ, JVM_ARGS="-Xmx4g -Djava.io.tmpdir=" + tmp)
        try:
            p = subprocess.run(cmd, cwd=tmp, env=env, stdout=subprocess.PIPE, stderr=subprocess.STDOUT, text=True, timeout=timeout)
        except subprocess.TimeoutExpired:
            subprocess.run(["pkill", "-f", tmp], check=False)
            raise TLCError("Apalache timed out after %ss on %s" % (timeout, module))
        m = re.search(r"The outcome is: (\w+)", p.stdout)
        if not m or m.group(1) not in ("NoError", "Error"):
            raise TLCError("Apalache failed on %s:\n%s" % (module, p.stdout[-2000:]))
        return {"engine": "apalache", "module": module, "inv": inv, "length": length, "outcome": m.group(1), "wall_s": round(time.time() - t0, 2)}
    finally:
        shutil.rmtree(tmp, ignore_errors=True)
