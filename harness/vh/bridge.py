"""Decode specification values (ring elements, matrices, rationals) into Python numbers."""
import cmath
import math
from fractions import Fraction

import numpy as np

W = cmath.exp(1j * math.pi / 4)
_WP = [1.0 + 0j, W, 1j, W * 1j]


def ring(x):
    """<<a,b,c,d,k>> -> complex  (a + b w + c w^2 + d w^3)/2^k, w = e^{i pi/4}"""
    a, b, c, d, k = x
    s = math.sqrt(0.5)
    re = a + (b - d) * s
    im = c + (b + d) * s
    return complex(re, im) / (2**k)


def ring_is_real(x):
    return x[2] == 0 and x[1] == -x[3]


def vec(v):
    return np.array([ring(x) for x in v], dtype=complex)


def mat(m):
    return np.array([[ring(x) for x in row] for row in m], dtype=complex)


def rat(q):
    """<<num,den>> -> Fraction"""
    return Fraction(q[0], q[1])


def seq_from_fn(obj):
    """a TLA+ function with domain 0..n-1 arrives as a JSON object keyed "0","1",…"""
    if isinstance(obj, dict):
        return [obj[str(i)] for i in range(len(obj))]
    return obj


def close(a, b, tol=1e-9):
    a = np.asarray(a, dtype=complex)
    b = np.asarray(b, dtype=complex)
    if a.shape != b.shape:
        return False
    if a.size == 0:
        return True
    return bool(np.max(np.abs(a - b)) <= tol * max(1.0, float(np.max(np.abs(b)))))


def close_up_to_phase(a, b, tol=1e-9):
    a = np.asarray(a, dtype=complex)
    b = np.asarray(b, dtype=complex)
    if a.shape != b.shape:
        return False
    idx = np.unravel_index(np.argmax(np.abs(b)), b.shape)
    if abs(b[idx]) < 1e-12:
        return close(a, b, tol)
    u = a[idx] / b[idx]
    if abs(abs(u) - 1) > 1e-7:
        return False
    return close(a, u * b, tol)
