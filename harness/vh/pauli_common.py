"""Shared by C03 / C09 / C11 / C16: abstract Pauli operands of Pauli.tla <-> real objects / dense matrices."""
import numpy as np

from .bridge import ring

SIG = {
    "I": np.eye(2, dtype=complex),
    "X": np.array([[0, 1], [1, 0]], dtype=complex),
    "Y": np.array([[0, -1j], [1j, 0]], dtype=complex),
    "Z": np.array([[1, 0], [0, -1]], dtype=complex),
}


def pycoef(c, style=0):
    """ring element -> python number; integers/floats/complex mixed so that all coefficient types occur"""
    z = ring(c)
    if abs(z.imag) < 1e-15:
        r = z.real
        if style % 3 == 0 and abs(r - round(r)) < 1e-15:
            return int(round(r))
        if style % 3 == 1:
            return complex(r, 0.0)
        return float(r)
    return complex(z)


def term_real(tm, style=0):
    from orquestra.quantum.operators import PauliTerm

    ops = {q: o for q, o in enumerate(tm["ops"]) if o != "I"}
    return PauliTerm(ops, pycoef(tm["c"], style))


def operand_real(v, style=0):
    from orquestra.quantum.operators import PauliSum

    if v["t"] == "num":
        return pycoef(v["ts"][0]["c"], style)
    if v["t"] == "term":
        return term_real(v["ts"][0], style)
    return PauliSum([term_real(t, style + i) for i, t in enumerate(v["ts"])])


def dense_ops(ops, n):
    m = np.array([[1.0 + 0j]])
    for q in range(n):
        m = np.kron(m, SIG[ops[q] if q < len(ops) else "I"])
    return m


def dense_abstract(v, n):
    out = np.zeros((2**n, 2**n), dtype=complex)
    for t in v["ts"]:
        out = out + ring(t["c"]) * dense_ops(t["ops"], n)
    return out


def dense_real(x, n):
    """dense matrix of a real PauliTerm / PauliSum / number, by the definition (numpy.kron), qubit 0 leftmost"""
    from orquestra.quantum.operators import PauliSum, PauliTerm

    if isinstance(x, (int, float, complex)):
        return complex(x) * np.eye(2**n, dtype=complex)
    terms = x.terms
    out = np.zeros((2**n, 2**n), dtype=complex)
    for t in terms:
        ops = ["I"] * n
        for q, o in t._ops.items():
            if q >= n:
                raise ValueError("operator acts on qubit %d outside the register of %d" % (q, n))
            ops[q] = o
        out = out + complex(t.coefficient) * dense_ops(ops, n)
    return out


def canon_real(x):
    """{frozenset((q, op)) -> coefficient} with like terms summed"""
    d = {}
    if isinstance(x, (int, float, complex)):
        return {frozenset(): complex(x)}
    for t in x.terms:
        k = frozenset(t._ops.items())
        d[k] = d.get(k, 0) + complex(t.coefficient)
    return d


def canon_abstract(v):
    d = {}
    for t in v["ts"]:
        k = frozenset((q, o) for q, o in enumerate(t["ops"]) if o != "I")
        d[k] = d.get(k, 0) + ring(t["c"])
    return d


def canon_close(a, b, tol=1e-8):
    keys = set(a) | set(b)
    return all(abs(a.get(k, 0) - b.get(k, 0)) <= tol for k in keys)


def kind_of(x):
    from orquestra.quantum.operators import PauliSum, PauliTerm

    if isinstance(x, PauliTerm):
        return "term"
    if isinstance(x, PauliSum):
        return "sum"
    return "num"


def show(v):
    if v["t"] == "num":
        return repr(pycoef(v["ts"][0]["c"], 1))
    parts = ["%s*%s" % (pycoef(t["c"], 1), "".join(t["ops"])) for t in v["ts"]]
    return ("[" + " + ".join(parts) + "]") if v["t"] == "sum" else (parts[0] if parts else "0")
