"""Run-time tracer for runner objects (C14, code->spec).  No source change in /repo: with
ORQ_VERIF_TRACE set (any value) `install()` wraps the public methods of the runner base classes; one
event is recorded per TOP-LEVEL public call at its return (also on the error path), with the call's
arguments abstracted to what the specification Runner.tla talks about and the counters before/after."""
import functools
import json
import os

_DEPTH = [0]
_TRACES = {}  # id(runner) -> dict(trace)
_ORDER = []
_INSTALLED = [False]
_KEEP = []  # keep traced runners alive so ids are not reused


def _kind(r):
    from orquestra.quantum.api.circuit_runner import BaseCircuitRunner
    from orquestra.quantum.api.wavefunction_simulator import BaseWavefunctionSimulator
    from orquestra.quantum.runners.trackers import MeasurementTrackingBackend

    if isinstance(r, MeasurementTrackingBackend):
        return "trk"
    if isinstance(r, BaseWavefunctionSimulator):
        return "wf"
    if isinstance(r, BaseCircuitRunner):
        return "plain"
    return "other"


def abstract_circuit(runner, c):
    from orquestra.quantum.runners.trackers import MeasurementTrackingBackend

    target = runner.inner_backend if isinstance(runner, MeasurementTrackingBackend) else runner
    pred = getattr(target, "is_natively_supported", None)
    nat = [bool(pred(op)) if pred else False for op in c.operations]
    return {"nat": nat, "w": int(c.n_qubits), "sym": bool(c.free_symbols)}


def _counters(r):
    own = {"c": int(r.n_circuits_executed), "j": int(r.n_jobs_executed)}
    inner = getattr(r, "inner_backend", None)
    if inner is not None and hasattr(inner, "n_circuits_executed"):
        inn = {"c": int(inner.n_circuits_executed), "j": int(inner.n_jobs_executed)}
    else:
        inn = {"c": 0, "j": 0}
    return {"own": own, "inner": inn}


def _trace_of(r):
    t = _TRACES.get(id(r))
    if t is None:
        inner = getattr(r, "inner_backend", None)
        t = {"id": len(_ORDER) + 1, "kind": _kind(r), "inner": _kind(inner) if inner is not None else "none", "cls": type(r).__name__, "events": []}
        _TRACES[id(r)] = t
        _ORDER.append(t)
        _KEEP.append(r)
    return t


def _ns(op, n, cs):
    if op in ("wf", "expval") or n is None:
        return {"mode": "none", "v": []}
    if isinstance(n, (int,)) and not isinstance(n, bool):
        return {"mode": "int", "v": [int(n)]}
    try:
        return {"mode": "list", "v": [int(x) for x in n]}
    except Exception:
        return {"mode": "other", "v": []}


def _shape(op, result, cs):
    from orquestra.quantum.measurements import Measurements

    if op in ("run",):
        result = [result]
    if op in ("run", "batch"):
        out = []
        for m in result:
            bs = m.bitstrings
            ws = {len(b) for b in bs}
            out.append({"n": len(bs), "w": ws.pop() if len(ws) == 1 else -1})
        return out
    if op == "dist":
        keys = list(result.distribution_dict.keys())
        ws = {len(k) for k in keys}
        return [{"n": 0, "w": ws.pop() if len(ws) == 1 else -1}]
    if op == "wf":
        n = len(result)
        return [{"n": 0, "w": n.bit_length() - 1 if n & (n - 1) == 0 else -1}]
    return [{"n": 0, "w": cs[0]["w"]}]


def _read_file(r):
    path = getattr(r, "raw_data_file_name", None)
    if not path or not os.path.exists(path):
        return []
    try:
        data = json.load(open(path))["raw-data"]
    except Exception:
        return [{"type": "unreadable", "gates": -1, "shots": -1, "w": -1}]
    out = []
    for d in data:
        typ = "measurement" if d.get("data_type") == "measurement" else "distribution"
        shots = d.get("number_of_shots")
        out.append({"type": typ, "gates": int(d.get("number_of_gates", -1)), "shots": -1 if shots is None else int(shots), "w": int(d.get("circuit", {}).get("n_qubits", -1)), "raw": d})
    return out


def same_value(a, b):
    """'returns exactly what the wrapped runner returned': the same object or an equal-valued one"""
    if a is b:
        return True
    try:
        if isinstance(a, list) and isinstance(b, list):
            return len(a) == len(b) and all(same_value(x, y) for x, y in zip(a, b))
        if hasattr(a, "bitstrings") and hasattr(b, "bitstrings"):
            return list(a.bitstrings) == list(b.bitstrings)
        if hasattr(a, "distribution_dict") and hasattr(b, "distribution_dict"):
            return dict(a.distribution_dict) == dict(b.distribution_dict)
    except Exception:
        return False
    return False


def wrap(cls, name, op):
    orig = cls.__dict__.get(name)
    if orig is None or getattr(orig, "_vh_traced", False):
        return

    @functools.wraps(orig)
    def wrapper(self, *a, **kw):
        if _DEPTH[0] > 0:
            return orig(self, *a, **kw)
        import inspect

        try:
            ba = inspect.signature(orig).bind(self, *a, **kw)
            ba.apply_defaults()
            args = list(ba.arguments.values())[1:]
        except TypeError:
            return orig(self, *a, **kw)
        t = _trace_of(self)
        circ = args[0]
        cs_real = list(circ) if op == "batch" else [circ]
        try:
            cs = [abstract_circuit(self, c) for c in cs_real]
        except Exception:
            return orig(self, *a, **kw)
        n = args[1] if len(args) > 1 and op in ("run", "batch", "dist") else None
        pre = _counters(self)
        inner = getattr(self, "inner_backend", None)
        captured = []
        unpatch = None
        if inner is not None:
            # capture what the inner runner really returned (pass-through check), per call
            iname = {"run": "run_and_measure", "batch": "run_batch_and_measure", "dist": "get_measurement_outcome_distribution"}[op]
            ifn = getattr(inner, iname)

            def spy(*ia, **ikw):
                r = ifn(*ia, **ikw)
                captured.append(r)
                return r

            try:
                setattr(inner, iname, spy)
                unpatch = lambda: delattr(inner, iname)
            except Exception:
                unpatch = None
        ev = {"call": {"op": op, "cs": cs, "ns": _ns(op, n, cs)}, "pre": pre, "exc": "", "res": [], "file": [], "same_object": True}
        _DEPTH[0] += 1
        try:
            result = orig(self, *a, **kw)
        except BaseException as ex:
            _DEPTH[0] -= 1
            if unpatch:
                unpatch()
            ev["out"] = "raised"
            ev["exc"] = type(ex).__name__
            ev["post"] = _counters(self)
            t["events"].append(ev)
            raise
        _DEPTH[0] -= 1
        if unpatch:
            unpatch()
        ev["out"] = "ok"
        ev["post"] = _counters(self)
        try:
            ev["res"] = _shape(op, result, cs)
        except Exception:
            ev["res"] = [{"n": -1, "w": -1}]
        if inner is not None:
            ev["same_object"] = bool(captured) and same_value(captured[-1], result)
            f = _read_file(self)
            # the record must describe the returned measurement: counts and serialised circuit
            from orquestra.quantum.circuits import to_dict

            for i, rec in enumerate(f):
                raw = rec.pop("raw")
                if rec["type"] == "measurement":
                    ms = [result] if op == "run" else list(result)
                    if i < len(ms):
                        if raw.get("counts") != ms[i].get_counts():
                            rec["shots"] = -2
                        if raw.get("circuit") != json.loads(json.dumps(to_dict(cs_real[i]))):
                            rec["gates"] = -2
                else:
                    if raw.get("circuit") != json.loads(json.dumps(to_dict(cs_real[0]))):
                        rec["gates"] = -2
            ev["file"] = f
        t["events"].append(ev)
        return result

    wrapper._vh_traced = True
    setattr(cls, name, wrapper)


def install():
    """idempotent; only acts when ORQ_VERIF_TRACE is set"""
    if not os.environ.get("ORQ_VERIF_TRACE") or _INSTALLED[0]:
        return False
    from orquestra.quantum.api.circuit_runner import BaseCircuitRunner
    from orquestra.quantum.api.wavefunction_simulator import BaseWavefunctionSimulator
    from orquestra.quantum.runners.trackers import MeasurementTrackingBackend

    for cls in (BaseCircuitRunner, BaseWavefunctionSimulator, MeasurementTrackingBackend):
        wrap(cls, "run_and_measure", "run")
        wrap(cls, "run_batch_and_measure", "batch")
        wrap(cls, "get_measurement_outcome_distribution", "dist")
        wrap(cls, "get_wavefunction", "wf")
        wrap(cls, "get_exact_expectation_values", "expval")
    _INSTALLED[0] = True
    return True


def drain():
    out = [t for t in _ORDER if t["events"] and t["kind"] != "other"]
    for i, t in enumerate(out):
        t["id"] = i + 1
    _TRACES.clear()
    del _ORDER[:]
    del _KEEP[:]
    return out
