-------------------------------- MODULE Bind --------------------------------
(***************************************************************************)
(* C06 - binding parameters commutes with evaluating the circuit.          *)
(* A parameter is a linear form  c1*a + c2*b + c3*c + k  (angles in units  *)
(* of pi/2) over three symbols a < b < c: a number (all ci = 0), a bare    *)
(* symbol (one ci = 1, k = 0) or a proper expression.  A symbol map sends  *)
(* some symbols to linear forms; extra keys (symbol 4 = "unused") may be   *)
(* present.  Domain: maps whose values do not mention their own keys       *)
(* (for those the library's bare-symbol lookup and sympy's dictionary      *)
(* substitution are both the simultaneous substitution).                   *)
(*   meaning:    Subst - simultaneous substitution; Eval under a total     *)
(*               assignment; the matrix of every operation is a function   *)
(*               of its EVALUATED parameters                               *)
(*   mechanism:  SubSymbols - the three-way dispatch (number / bare symbol  *)
(*               / expression with sequential dictionary substitution);    *)
(*               CustomMech - the custom-gate factory substituting the     *)
(*               actual parameters for the formal ones in the stored       *)
(*               matrix (Simultaneous: as repaired; sequential: as found)  *)
(***************************************************************************)
EXTENDS GateDefs, TLC, Json

CONSTANTS MaxOps, MaxBinds, OpSel, MapSel, Simultaneous, Emitting
VARIABLES circ, hist, ev, gm
vars == <<circ, hist, ev, gm>>
ViewNoGm == <<circ, hist, ev>>

NS == 3
Syms == 1..NS
\* one NON-linear monomial: d * a*b (in the same units: the real parameter is d * a * b / (pi/2)) - binding one factor to zero
\* annihilates the other symbol.  Maps that would leave the class (a or b bound to a non-number while d # 0) are not offered.
LFd(c, k, d) == [c |-> c, k |-> k, d |-> d]
LF(c, k) == LFd(c, k, 0)
NumP(k) == LF(<<0, 0, 0>>, k)
SymP(s) == LF([i \in Syms |-> IF i = s THEN 1 ELSE 0], 0)
LAdd(p, q) == LFd([i \in Syms |-> p.c[i] + q.c[i]], p.k + q.k, p.d + q.d)
LScale(a, p) == LFd([i \in Syms |-> a * p.c[i]], a * p.k, a * p.d)
IsNumber(p) == p.d = 0 /\ \A i \in Syms : p.c[i] = 0
IsBare(p) == p.k = 0 /\ \E s \in Syms : p = SymP(s)
BareOf(p) == CHOOSE s \in Syms : p = SymP(s)
FreeSyms(p) == {i \in Syms : p.c[i] # 0} \cup (IF p.d # 0 THEN {1, 2} ELSE {})
\* product of two forms inside the class: number * form, or the monomial a*b itself
ProdLF(x, y) == IF IsNumber(x) THEN LScale(x.k, y) ELSE IF IsNumber(y) THEN LScale(y.k, x) ELSE LFd(<<0, 0, 0>>, 0, 1)

\* ---- symbol maps: function from a subset of 1..4 to linear forms (4 = a symbol that occurs nowhere) -----------
Dom(m) == DOMAIN m
NonChained0(m) == \A s \in Dom(m) : \A t \in Dom(m) \cap Syms : m[s].c[t] = 0
\* the domain: no value mentions a key - or the map has ONE key among the circuit's symbols (theta -> theta + pi/2, theta -> 2 theta:
\* the parameter-shift and rescaling maps), where "one key after the other" and "simultaneously" are the same thing
NonChained(m) == NonChained0(m) \/ Cardinality(Dom(m) \cap Syms) <= 1
\* meaning: simultaneous substitution
Img(m, i) == IF i \in Dom(m) THEN m[i] ELSE SymP(i)
Subst(p, m) == LET terms == [i \in Syms |-> LScale(p.c[i], Img(m, i))] IN
               LAdd(LAdd(LAdd(terms[1], terms[2]), LAdd(terms[3], NumP(p.k))), IF p.d = 0 THEN NumP(0) ELSE LScale(p.d, ProdLF(Img(m, 1), Img(m, 2))))
\* the map keeps the parameter inside the class
\* (written with IF: inside an action TLC explores BOTH sides of a disjunction)
InClass(p, m) == IF p.d = 0 THEN TRUE ELSE (IF 1 \in Dom(m) THEN IsNumber(m[1]) ELSE TRUE) /\ (IF 2 \in Dom(m) THEN IsNumber(m[2]) ELSE TRUE)
\* mechanism: sub_symbols (dispatch) with sympy's dictionary substitution (keys one after the other, in key order)
RECURSIVE SeqSubs(_, _, _)
SeqSubs(p, m, keys) == IF keys = <<>> THEN p
                       ELSE LET s == Head(keys)
                                \* the linear occurrence of s, and its occurrence in the monomial (s = 1: d*m[1]*b, s = 2: d*a*m[2]; m[s] a number there)
                                lin == IF s \in Syms THEN LAdd(LFd([i \in Syms |-> IF i = s THEN 0 ELSE p.c[i]], p.k, p.d), LScale(p.c[s], m[s])) ELSE p
                                q == IF s \in {1, 2} /\ lin.d # 0
                                     THEN LAdd(LFd(lin.c, lin.k, 0), LScale(lin.d * m[s].k, SymP(3 - s)))
                                     ELSE lin
                            IN SeqSubs(q, m, Tail(keys))
KeySeq(m) == LET RECURSIVE L(_) L(S) == IF S = {} THEN <<>> ELSE LET x == CHOOSE y \in S : \A z \in S : y <= z IN <<x>> \o L(S \ {x}) IN L(Dom(m))
SubSymbols(p, m) == IF IsNumber(p) THEN p
                    ELSE IF IsBare(p) THEN (IF BareOf(p) \in Dom(m) THEN m[BareOf(p)] ELSE p)
                    ELSE SeqSubs(p, m, KeySeq(m))
\* assignments and evaluation
Assignments == { <<1, 2, 3>>, <<3, 1, 6>>, <<0, 5, 2>> }
EvalP(p, sg) == p.c[1] * sg[1] + p.c[2] * sg[2] + p.c[3] * sg[3] + p.k + p.d * sg[1] * sg[2]
Compose(sg, m) == [i \in Syms |-> IF i \in Dom(m) THEN EvalP(m[i], sg) ELSE sg[i]]     \* sigma o m

\* ---- operations --------------------------------------------------------------------------------------------------
\* [kind, name, ps (parameters), qs]:  kind in builtin / ctrl / dag / custom / phase / pow / exp
Op(kind, name, ps, qs) == [kind |-> kind, name |-> name, ps |-> ps, qs |-> qs]
A == SymP(1)
B == SymP(2)
Cc == SymP(3)
OpSeq == << Op("builtin", "RX", <<A>>, <<0>>), Op("builtin", "RZ", <<LAdd(LScale(2, A), NumP(1))>>, <<1>>), Op("builtin", "U3", <<B, NumP(1), LAdd(A, B)>>, <<0>>),
            Op("ctrl", "RY", <<LAdd(B, LScale(-1, Cc))>>, <<1, 0>>), Op("dag", "PHASE", <<Cc>>, <<1>>), Op("builtin", "XX", <<NumP(3)>>, <<0, 1>>),
            Op("custom", "V", <<LAdd(A, B), NumP(2)>>, <<0>>), Op("custom", "V", <<B, A>>, <<1>>), Op("custom", "V", <<Cc, LAdd(A, NumP(1))>>, <<0>>),
            Op("phase", "", <<A, NumP(1), LAdd(B, A), NumP(0)>>, <<0, 1>>), Op("builtin", "RX", <<LAdd(A, LScale(-1, A))>>, <<0>>),
            Op("pow", "RX", <<NumP(1)>>, <<0>>), Op("exp", "RZ", <<NumP(3)>>, <<1>>), Op("builtin", "CPHASE", <<LScale(-1, B)>>, <<1, 0>>),
            \* the same wrapper and the SAME parameters as operation 4 around another gate; a plain gate with the parameters of operation 1
            Op("ctrl", "RX", <<LAdd(B, LScale(-1, Cc))>>, <<0, 1>>), Op("builtin", "RY", <<A>>, <<1>>),
            \* parameters with the monomial a*b: alone, and next to other symbols
            Op("builtin", "RX", <<LFd(<<0, 0, 0>>, 0, 1)>>, <<0>>), Op("builtin", "U3", <<LFd(<<0, 0, 1>>, 1, 2), B, NumP(1)>>, <<1>>) >>
Kth(ks) == <<ks[1] % 8, IF Len(ks) >= 2 THEN ks[2] % 8 ELSE 0, IF Len(ks) >= 3 THEN ks[3] % 8 ELSE 0>>
\* the custom gate V(a, b): stored matrix RZ(a) * RX(b) in its FORMAL parameters a, b (the formals carry the names of circuit symbols 1 and 2)
CustomDef(ka, kb) == MMul(gm[<<"RZ", ka % 8>>], gm[<<"RX", kb % 8>>])
\* mechanism of the factory: substitute formals (symbols 1, 2) by the actual parameters in the stored matrix
\* sequential: first a := ps[1] everywhere, then b := ps[2] in the RESULT - also inside what was just substituted for a
CustomActualsMech(ps) == IF Simultaneous THEN <<ps[1], ps[2]>>
                         ELSE << LAdd(LF([i \in Syms |-> IF i = 2 THEN 0 ELSE ps[1].c[i]], ps[1].k), LScale(ps[1].c[2], ps[2])), ps[2] >>
BaseMatOf(o, sg) ==
  LET ks == [i \in 1..Len(o.ps) |-> EvalP(o.ps[i], sg)] IN
  CASE o.kind = "custom" -> LET act == CustomActualsMech(o.ps) IN CustomDef(EvalP(act[1], sg), EvalP(act[2], sg))
    [] o.kind = "phase" -> [r \in 1..Len(ks) |-> [cc \in 1..Len(ks) |-> IF r = cc THEN COmega(2 * ks[r]) ELSE CZero]]
    [] o.name = "U3" -> GateAt("U3", Kth(ks))
    [] OTHER -> gm[<<o.name, ks[1] % 8>>]
OpMatOf(o, sg) == LET b == BaseMatOf(o, sg) IN
  CASE o.kind = "ctrl" -> MBlockId(Len(b), b) [] o.kind = "dag" -> MAdj(b) [] OTHER -> b
CustomMeaning(o, sg) == CustomDef(EvalP(o.ps[1], sg), EvalP(o.ps[2], sg))
RECURSIVE UOf(_, _)
UOf(c, sg) == IF c = <<>> THEN MId(4) ELSE MMul(UOf(Tail(c), sg), Lift(OpMatOf(Head(c), sg), Head(c).qs, 2))
GMKeys == {<<n, k>> : n \in {"RX", "RY", "RZ", "PHASE", "XX", "CPHASE"}, k \in 0..7}
GMTab == [key \in GMKeys |-> GateAt(key[1], <<key[2], 0, 0>>)]

\* ---- maps offered ----------------------------------------------------------------------------------------------------
MapSeq == << (1 :> NumP(1)), (2 :> NumP(3)), (1 :> NumP(2)) @@ (2 :> NumP(1)) @@ (3 :> NumP(5)), (3 :> NumP(1)) @@ (4 :> NumP(2)),
             (1 :> Cc), (1 :> LAdd(LScale(2, Cc), NumP(1))) @@ (2 :> NumP(0)), (4 :> NumP(1)), (2 :> LAdd(Cc, NumP(-1))),
             (1 :> B) @@ (2 :> A),                                  \* this one is CHAINED (a swap): outside the domain, kept to show why
             (1 :> LAdd(A, NumP(1))), (1 :> LScale(2, A)), (2 :> LAdd(LScale(-1, B), Cc)) @@ (4 :> NumP(1)),   \* one key, mentioned by its own value
             (2 :> NumP(0)), (1 :> NumP(0)) @@ (3 :> NumP(1)) >>                           \* a factor of the monomial bound to zero
Maps == {MapSeq[i] : i \in MapSel}
BindOps(c, m) == [i \in 1..Len(c) |-> [c[i] EXCEPT !.ps = [j \in 1..Len(c[i].ps) |-> SubSymbols(c[i].ps[j], m)]]]
Refuses(o) == o.kind \in {"pow", "exp"}
Init == gm = GMTab /\ circ = <<>> /\ hist = <<>> /\ ev = [op |-> "new", m |-> << >>, out |-> "ok"]
AppendOp(i) == /\ hist = <<>> /\ Len(circ) < MaxOps /\ circ' = Append(circ, OpSeq[i]) /\ hist' = hist
               /\ ev' = [op |-> "append", m |-> << >>, out |-> "ok"] /\ UNCHANGED gm
BindStep(m) == /\ Len(hist) < MaxBinds /\ circ # <<>> /\ UNCHANGED gm
               /\ \A i \in 1..Len(circ) : \A j \in 1..Len(circ[i].ps) : InClass(circ[i].ps[j], m)
               /\ IF \E i \in 1..Len(circ) : Refuses(circ[i])
                  THEN circ' = circ /\ hist' = hist /\ ev' = [op |-> "bind", m |-> m, out |-> "not-implemented"]
                  ELSE circ' = BindOps(circ, m) /\ hist' = Append(hist, [m |-> m, pre |-> circ]) /\ ev' = [op |-> "bind", m |-> m, out |-> "ok"]
Next == \/ \E i \in OpSel : AppendOp(i)
        \/ \E m \in Maps : BindStep(m)

\* ---- what the property promises -------------------------------------------------------------------------------------------
Bound == ev.op = "bind" /\ ev.out = "ok"
Pre == hist[Len(hist)].pre
M == ev.m
AllParams(c) == UNION {{c[i].ps[j] : j \in 1..Len(c[i].ps)} : i \in 1..Len(c)}
\* the dispatch mechanism is the simultaneous substitution (on the domain)
MechanismIsSubstitution == (Bound /\ NonChained(M)) => \A i \in 1..Len(circ) : \A j \in 1..Len(circ[i].ps) : circ[i].ps[j] = Subst(Pre[i].ps[j], M)
\* bind-then-evaluate = evaluate-then-substitute, parameter by parameter, hence matrix by matrix (a matrix is a function of evaluated parameters)
SubstitutionLemma == (Bound /\ NonChained(M)) => \A sg \in Assignments : \A i \in 1..Len(circ) :
      /\ \A j \in 1..Len(circ[i].ps) : EvalP(circ[i].ps[j], sg) = EvalP(Pre[i].ps[j], Compose(sg, M))
      /\ OpMatOf(circ[i], sg) = OpMatOf(Pre[i], Compose(sg, M))
\* the custom gate's matrix is its definition at the evaluated ACTUAL parameters (fails for the factory as found: sequential substitution)
CustomFactorySound == \A sg \in Assignments : \A i \in 1..Len(circ) : circ[i].kind = "custom" => BaseMatOf(circ[i], sg) = CustomMeaning(circ[i], sg)
StepsComposeToOnce == (Len(hist) = 2 /\ NonChained(hist[1].m) /\ NonChained(hist[2].m) /\ Bound) =>
      LET m1 == hist[1].m m2 == hist[2].m
          both == [s \in Dom(m1) \cup Dom(m2) |-> IF s \in Dom(m1) THEN Subst(m1[s], m2) ELSE m2[s]] IN
      NonChained(both) => circ = BindOps(hist[1].pre, both)
UntouchedParams == Bound => \A i \in 1..Len(circ) : \A j \in 1..Len(circ[i].ps) :
      (IsNumber(Pre[i].ps[j]) \/ FreeSyms(Pre[i].ps[j]) \cap Dom(M) = {}) => circ[i].ps[j] = Pre[i].ps[j]
ExtraKeysIgnored == (Bound /\ NonChained(M)) => circ = BindOps(Pre, [s \in Dom(M) \cap Syms |-> M[s]])
FreeSymbolsExact == (Bound /\ NonChained(M)) => \A i \in 1..Len(circ) : \A j \in 1..Len(circ[i].ps) :
      FreeSyms(circ[i].ps[j]) = {s \in Syms : \E sg \in Assignments : EvalP(circ[i].ps[j], sg) # EvalP(circ[i].ps[j], [sg EXCEPT ![s] = sg[s] + 1])}
OpFree(o) == UNION {FreeSyms(o.ps[j]) : j \in 1..Len(o.ps)}
SortedSeq(S) == LET RECURSIVE L(_) L(T) == IF T = {} THEN <<>> ELSE LET x == CHOOSE y \in T : \A z \in T : y <= z IN <<x>> \o L(T \ {x}) IN L(S)
RECURSIVE CircFree(_, _)
CircFree(c, seen) == IF c = <<>> THEN <<>> ELSE LET new == SortedSeq(OpFree(Head(c)) \ seen) IN new \o CircFree(Tail(c), seen \cup OpFree(Head(c)))
NoFreeIffAllNumeric == (CircFree(circ, {}) = <<>>) <=> (\A p \in AllParams(circ) : IsNumber(p))
PowerExpRefuse == (ev.op = "bind" /\ \E i \in 1..Len(circ) : Refuses(circ[i])) => ev.out = "not-implemented"
NoOverflow == TRUE

LFJ(p) == [c |-> p.c, k |-> p.k, d |-> p.d]
OpJ(o) == [kind |-> o.kind, name |-> o.name, ps |-> [j \in 1..Len(o.ps) |-> LFJ(o.ps[j])], qs |-> o.qs]
CircJ(c) == [i \in 1..Len(c) |-> OpJ(c[i])]
MapJ(m) == LET RECURSIVE L(_) L(S) == IF S = {} THEN <<>> ELSE LET x == CHOOSE y \in S : \A z \in S : y <= z IN <<[s |-> x, v |-> LFJ(m[x])]>> \o L(S \ {x}) IN L(Dom(m))
AssignSeq == << <<1, 2, 3>>, <<3, 1, 6>> >>
HasRefuser(c) == \E i \in 1..Len(c) : Refuses(c[i])
Emit == IF ~Emitting \/ ev'.op # "bind" THEN TRUE ELSE
  PrintT(ToJson([pre |-> CircJ(circ), m |-> MapJ(ev'.m), out |-> ev'.out, post |-> CircJ(circ'), chained |-> ~NonChained(ev'.m),
                 free |-> CircFree(circ', {}), nhist |-> Len(hist'),
                 U |-> IF ev'.out = "ok" /\ ~HasRefuser(circ') THEN [k \in 1..2 |-> UOf(circ', AssignSeq[k])] ELSE <<>>,
                 first |-> IF Len(hist') >= 1 THEN CircJ(hist'[1].pre) ELSE <<>>, maps |-> [k \in 1..Len(hist') |-> MapJ(hist'[k].m)]]))
=============================================================================
