--------------------------- MODULE ValueSemantics ---------------------------
(***************************************************************************)
(* C20 - value-returning operations never modify their arguments.          *)
(* Live objects of eight kinds (circuit, gate, Pauli operator,             *)
(* measurements, distribution, wavefunction) sit in a pool; a value is the *)
(* free term saying how the object was obtained: a seed, or an operation   *)
(* applied to values.  Every operation of the statement is an action that  *)
(* reads its arguments - the SAME live object may be passed twice          *)
(* (a + a, mmd(p, p)) and results are fed into later calls - and appends   *)
(* its result to the pool (or only reports).  The frame condition of every *)
(* action is: no live object changes.  `Repeat` issues the previous call   *)
(* again and must obtain an equal value.                                   *)
(* The specification fixes WHICH call histories are well-typed and what    *)
(* they may change; the conformance layer replays every history on real    *)
(* objects with a deep snapshot of every live object around every call.    *)
(***************************************************************************)
EXTENDS Integers, Sequences, FiniteSets, TLC, Json

CONSTANTS MaxCalls, OpSel, Emitting
VARIABLES objs,    \* sequence of [k (kind), v (value term: [o, a])]
          ev, ncalls
vars == <<objs, ev, ncalls>>

V(o, a) == [o |-> o, a |-> a]
Obj(k, v) == [k |-> k, v |-> v]
Seeds == << Obj("circ", V("C1", <<>>)), Obj("circ", V("C2", <<>>)), Obj("circ", V("C3", <<>>)),
            Obj("gate", V("G1", <<>>)), Obj("gate", V("G2", <<>>)), Obj("gate", V("G3", <<>>)),
            Obj("pauli", V("T1", <<>>)), Obj("pauli", V("T2", <<>>)), Obj("pauli", V("S1", <<>>)), Obj("pauli", V("S2", <<>>)),
            Obj("meas", V("M1", <<>>)), Obj("dist", V("D1", <<>>)), Obj("dist", V("D2", <<>>)),
            Obj("wf", V("W1", <<>>)), Obj("wf", V("W2", <<>>)),
            Obj("udist", V("D3", <<>>)),
            Obj("pauli", V("T3", <<>>)) >>                  \* a term on ANOTHER string: T1 + T3 merges nothing (the sum may hold its operands)                  \* an UNnormalised histogram kept in a distribution object (normalize = False)
\* name, argument kinds, result kind ("rep" = a report: nothing is added to the pool)
Sig(n, a, r) == [n |-> n, a |-> a, r |-> r]
OpSeq == <<
  Sig("c_add", <<"circ", "circ">>, "circ"), Sig("c_append", <<"circ", "gate">>, "circ"), Sig("c_bind", <<"circ">>, "circ"),
  Sig("c_inverse", <<"circ">>, "circ"), Sig("c_controlled", <<"circ">>, "circ"), Sig("c_to_dict", <<"circ">>, "rep"),
  Sig("c_unitary", <<"circ">>, "rep"), Sig("c_free", <<"circ">>, "rep"),
  Sig("g_dagger", <<"gate">>, "gate"), Sig("g_controlled", <<"gate">>, "gate"), Sig("g_power", <<"gate">>, "gate"),
  Sig("g_bind", <<"gate">>, "gate"), Sig("g_replace", <<"gate">>, "gate"), Sig("g_matrix", <<"gate">>, "rep"),
  Sig("p_add", <<"pauli", "pauli">>, "pauli"), Sig("p_sub", <<"pauli", "pauli">>, "pauli"), Sig("p_mul", <<"pauli", "pauli">>, "pauli"),
  Sig("p_pow", <<"pauli">>, "pauli"), Sig("p_simplify", <<"pauli">>, "pauli"), Sig("p_conj", <<"pauli">>, "pauli"),
  Sig("p_scal", <<"pauli">>, "pauli"), Sig("p_to_dict", <<"pauli">>, "rep"), Sig("p_sparse", <<"pauli">>, "rep"), Sig("p_eq", <<"pauli", "pauli">>, "rep"),
  Sig("m_counts", <<"meas">>, "rep"), Sig("m_dist", <<"meas">>, "dist"), Sig("m_expect", <<"meas">>, "rep"), Sig("m_parities", <<"meas">>, "rep"),
  Sig("m_repr", <<"dist">>, "meas"),
  Sig("d_marginal", <<"dist">>, "dist"), Sig("d_mmd", <<"dist", "dist">>, "rep"), Sig("d_nll", <<"dist", "dist">>, "rep"),
  Sig("d_js", <<"dist", "dist">>, "rep"), Sig("d_save", <<"dist">>, "rep"),
  Sig("w_probs", <<"wf">>, "rep"), Sig("w_outcome", <<"wf">>, "rep"), Sig("w_bind", <<"wf">>, "wf"), Sig("w_sim", <<"circ", "wf">>, "wf"),
  Sig("w_save", <<"wf">>, "rep"),
  \* a normalised distribution built from the dictionary of another distribution object
  Sig("d_copy", <<"udist">>, "dist"), Sig("d_copy_n", <<"dist">>, "dist"),
  \* augmented assignment on operators (x += y, x *= 2): the value bound to x afterwards is the result; whatever Python does to the
  \* receiver itself, no OTHER live object may change (the operands of the addition that produced the receiver, for instance)
  Sig("p_iadd", <<"pauli", "pauli">>, "pauli"), Sig("p_imul", <<"pauli">>, "pauli") >>
OpAll == 1..Len(OpSeq)
Ops == {OpSeq[i] : i \in OpSel}

Live(k) == {i \in 1..Len(objs) : objs[i].k = k}
ArgChoices(sg) == IF Len(sg.a) = 1 THEN {<<i>> : i \in Live(sg.a[1])}
                  ELSE {<<i, j>> : i \in Live(sg.a[1]), j \in Live(sg.a[2])}             \* i = j allowed: aliasing
NoCall == [op |-> "none", args |-> <<>>, res |-> 0, rep |-> FALSE]
Init == objs = Seeds /\ ev = NoCall /\ ncalls = 0
Call(sg, args) ==
  LET val == V(sg.n, [i \in 1..Len(args) |-> objs[args[i]].v]) IN
  /\ ncalls < MaxCalls
  /\ ncalls' = ncalls + 1
  /\ IF sg.r = "rep"
     THEN objs' = objs /\ ev' = [op |-> sg.n, args |-> args, res |-> 0, rep |-> FALSE]
     ELSE objs' = Append(objs, Obj(sg.r, val)) /\ ev' = [op |-> sg.n, args |-> args, res |-> Len(objs) + 1, rep |-> FALSE]
\* the same operation on the same arguments once more
Repeat ==
  /\ ev.op # "none" /\ ~ev.rep /\ ncalls < MaxCalls + 1
  /\ LET sg == CHOOSE s \in Ops : s.n = ev.op
         val == V(sg.n, [i \in 1..Len(ev.args) |-> objs[ev.args[i]].v]) IN
     /\ ncalls' = ncalls + 1
     /\ IF sg.r = "rep" THEN objs' = objs /\ ev' = [ev EXCEPT !.rep = TRUE]
        ELSE objs' = Append(objs, Obj(sg.r, val)) /\ ev' = [op |-> ev.op, args |-> ev.args, res |-> Len(objs) + 1, rep |-> TRUE]
Next == \/ \E sg \in Ops : \E args \in ArgChoices(sg) : Call(sg, args)
        \/ Repeat

\* ---- what the property promises -------------------------------------------------------------------------------------
ArgumentsUnchanged == [][\A i \in 1..Len(objs) : objs'[i] = objs[i]]_vars                \* every live object, receiver and arguments included
SameCallTwiceSameResult == [][(ev'.rep /\ ev'.res # 0) => objs'[ev'.res].v = objs[ev.res].v]_vars
ResultIsNew == [][ev'.res # 0 => (ev'.res = Len(objs) + 1 /\ Len(objs') = Len(objs) + 1)]_vars
WellTyped == \A i \in 1..Len(objs) : objs[i].k \in {"circ", "gate", "pauli", "meas", "dist", "wf", "udist"}

ObjsJ(os) == [i \in 1..Len(os) |-> os[i]]
Emit == IF ~Emitting THEN TRUE ELSE
  PrintT(ToJson([op |-> ev'.op, args |-> ev'.args, res |-> ev'.res, rep |-> ev'.rep, pre |-> ObjsJ(objs), post |-> ObjsJ(objs'),
                 prek |-> [n |-> ncalls, ev |-> ev], postk |-> [n |-> ncalls', ev |-> ev']]))
=============================================================================
