------------------------- MODULE MC_ScaleArith_True -------------------------
EXTENDS Integers
VARIABLES
  \* @type: Int;
  a,
  \* @type: Int;
  b,
  \* @type: Int;
  c,
  \* @type: Int;
  t
INSTANCE ScaleArith WITH Big <- 100000, Floor <- TRUE
=============================================================================
