------------------------- MODULE MC_ChunkArith_False -------------------------
EXTENDS Integers
VARIABLES
  \* @type: Int;
  n,
  \* @type: Int;
  m
INSTANCE ChunkArith WITH Big <- 1000000, Ceiling <- FALSE
=============================================================================
