------------------------------ MODULE ExprTrace ------------------------------
(***************************************************************************)
(* code -> spec for C19.  Every line records one real run of the           *)
(* translator: T - the canonical tree sympy actually built for the source  *)
(* expression, N - the neutral tree returned by expression_from_sympy,     *)
(* B - sympy's canonical tree of translate_expression(N, SYMPY_DIALECT),   *)
(* out - "ok" or which stage refused.  The line is accepted iff the value  *)
(* (in Expr's test interpretation, three assignments) is the same for all  *)
(* three trees, or the run was refused and T is outside the supported      *)
(* grammar.  Only VALUES are constrained, never the shape of N.            *)
(***************************************************************************)
EXTENDS Expr, IOUtils
Trace == ndJsonDeserialize(IOEnv.TRACE_FILE)
VARIABLE l
E == Trace[l]
Sg == 1..Len(Assignments)
RefusalIffUnsupported == (E.out # "ok") <=> ~Supported(E.T)
NeutralValue == E.out = "ok" => \A i \in Sg : EvalN(E.N, Assignments[i]) = EvalT(E.T, Assignments[i])
BackValue == E.out = "ok" => \A i \in Sg : EvalT(E.B, Assignments[i]) = EvalT(E.T, Assignments[i])
Names == <<"RefusalIffUnsupported", "NeutralValue", "BackValue">>
Clauses == <<RefusalIffUnsupported, NeutralValue, BackValue>>
TInit == l = 1 /\ t = X /\ d = 0
TNext == /\ l <= Len(Trace)
         /\ IF \A i \in 1..3 : Clauses[i] THEN TRUE ELSE PrintT(ToJson([reject |-> l, failed |-> {Names[i] : i \in {j \in 1..3 : ~Clauses[j]}}]))
         /\ IF E.out = "ok" /\ E.N # FromSympy(E.T) THEN PrintT(ToJson([drift |-> l])) ELSE TRUE
         /\ l' = l + 1 /\ UNCHANGED <<t, d>>
=============================================================================
