------------------------------- MODULE Cyclo --------------------------------
(***************************************************************************)
(* Exact arithmetic in the ring  Z[w][1/2],  w = e^{i pi/4},  w^4 = -1.    *)
(* An element is the tuple <<a,b,c,d,k>> standing for                      *)
(*        (a + b w + c w^2 + d w^3) / 2^k                                  *)
(* kept in normal form (k minimal).  1/sqrt2 = (w - w^3)/2 lives here, so  *)
(* every Clifford+T style gate matrix, every amplitude and probability of  *)
(* a circuit over such gates is represented exactly.  No floats anywhere.  *)
(***************************************************************************)
EXTENDS Integers, Sequences

AllEven(x) == x[1] % 2 = 0 /\ x[2] % 2 = 0 /\ x[3] % 2 = 0 /\ x[4] % 2 = 0

RECURSIVE CNorm(_)
CNorm(x) == IF x[5] > 0 /\ AllEven(x)
            THEN CNorm(<<x[1] \div 2, x[2] \div 2, x[3] \div 2, x[4] \div 2, x[5] - 1>>)
            ELSE x

CZero  == <<0,0,0,0,0>>
COne   == <<1,0,0,0,0>>
CMinus == <<-1,0,0,0,0>>
CI     == <<0,0,1,0,0>>          \* the imaginary unit  i = w^2
CNegI  == <<0,0,-1,0,0>>
CW     == <<0,1,0,0,0>>          \* w
CHalf  == <<1,0,0,0,1>>
CSqrt2 == <<0,1,0,-1,0>>         \* w - w^3 = 2 cos(pi/4)
CInvSqrt2 == <<0,1,0,-1,1>>
CInt(n) == <<n,0,0,0,0>>

CScale(x, j) == <<x[1] * 2^j, x[2] * 2^j, x[3] * 2^j, x[4] * 2^j, x[5] + j>>  \* same value, larger k

CAdd(x, y) ==
  LET k  == IF x[5] >= y[5] THEN x[5] ELSE y[5]
      xs == CScale(x, k - x[5])
      ys == CScale(y, k - y[5])
  IN CNorm(<<xs[1] + ys[1], xs[2] + ys[2], xs[3] + ys[3], xs[4] + ys[4], k>>)

CNeg(x) == <<-x[1], -x[2], -x[3], -x[4], x[5]>>
CSub(x, y) == CAdd(x, CNeg(y))

CMul(x, y) ==
  CNorm(<< x[1]*y[1] - x[2]*y[4] - x[3]*y[3] - x[4]*y[2],
           x[1]*y[2] + x[2]*y[1] - x[3]*y[4] - x[4]*y[3],
           x[1]*y[3] + x[2]*y[2] + x[3]*y[1] - x[4]*y[4],
           x[1]*y[4] + x[2]*y[3] + x[3]*y[2] + x[4]*y[1],
           x[5] + y[5] >>)

CConj(x) == <<x[1], -x[4], -x[3], -x[2], x[5]>>

\* w^j for any integer j
COmega(j) == LET r == j % 8 IN
  CASE r = 0 -> <<1,0,0,0,0>>  [] r = 1 -> <<0,1,0,0,0>>  [] r = 2 -> <<0,0,1,0,0>>  [] r = 3 -> <<0,0,0,1,0>>
    [] r = 4 -> <<-1,0,0,0,0>> [] r = 5 -> <<0,-1,0,0,0>> [] r = 6 -> <<0,0,-1,0,0>> [] r = 7 -> <<0,0,0,-1,0>>

CAbsSq(x) == CMul(x, CConj(x))              \* real: lies in Z[sqrt2][1/2]
CIsZero(x) == x[1] = 0 /\ x[2] = 0 /\ x[3] = 0 /\ x[4] = 0
CIsReal(x) == x[3] = 0 /\ x[2] = -x[4]
CIsRational(x) == x[2] = 0 /\ x[3] = 0 /\ x[4] = 0
\* cos(j pi/4) and sin(j pi/4) as ring elements: (w^j + w^-j)/2, (w^j - w^-j)/(2i)
CCos(j) == CMul(CHalf, CAdd(COmega(j), COmega(-j)))
CSin(j) == CMul(CMul(CHalf, CNegI), CSub(COmega(j), COmega(-j)))

\* 32-bit guard: every numerator stays far from overflow
CSmall(x) == \A i \in 1..4 : x[i] > -1000000 /\ x[i] < 1000000
=============================================================================
