--------------------------------- MODULE Rat --------------------------------
(* Exact rationals <<num, den>> in lowest terms, den > 0. *)
EXTENDS Integers, Sequences
Abs(x) == IF x < 0 THEN -x ELSE x
RECURSIVE GCD(_, _)
GCD(a, b) == IF b = 0 THEN a ELSE GCD(b, a % b)
RNorm(n, d) == LET s == IF d < 0 THEN -1 ELSE 1 g == GCD(Abs(n), Abs(d)) IN
               IF n = 0 THEN <<0, 1>> ELSE <<(s * n) \div g, (s * d) \div g>>
R(n) == <<n, 1>>
\* common factors are cancelled BEFORE multiplying (TLC integers are 32-bit)
RAdd(x, y) == LET g == GCD(x[2], y[2]) IN RNorm(x[1] * (y[2] \div g) + y[1] * (x[2] \div g), (x[2] \div g) * y[2])
RNeg(x) == <<-x[1], x[2]>>
RSub(x, y) == RAdd(x, RNeg(y))
RMul(x, y) == IF x[1] = 0 \/ y[1] = 0 THEN <<0, 1>> ELSE
              LET g1 == GCD(Abs(x[1]), y[2]) g2 == GCD(Abs(y[1]), x[2]) IN RNorm((x[1] \div g1) * (y[1] \div g2), (x[2] \div g2) * (y[2] \div g1))
RDiv(x, y) == RMul(x, IF y[1] < 0 THEN <<-y[2], -y[1]>> ELSE <<y[2], y[1]>>)
RLeq(x, y) == x[1] * y[2] <= y[1] * x[2]
RECURSIVE RSum(_)
RSum(s) == IF s = <<>> THEN <<0, 1>> ELSE RAdd(Head(s), RSum(Tail(s)))
=============================================================================
