--------------------------------- MODULE Rat --------------------------------
(* Exact rationals <<num, den>> in lowest terms, den > 0. *)
EXTENDS Integers, Sequences
Abs(x) == IF x < 0 THEN -x ELSE x
RECURSIVE GCD(_, _)
GCD(a, b) == IF b = 0 THEN a ELSE GCD(b, a % b)
RNorm(n, d) == LET s == IF d < 0 THEN -1 ELSE 1 g == GCD(Abs(n), Abs(d)) IN
               IF n = 0 THEN <<0, 1>> ELSE <<(s * n) \div g, (s * d) \div g>>
R(n) == <<n, 1>>
RAdd(x, y) == RNorm(x[1] * y[2] + y[1] * x[2], x[2] * y[2])
RNeg(x) == <<-x[1], x[2]>>
RSub(x, y) == RAdd(x, RNeg(y))
RMul(x, y) == RNorm(x[1] * y[1], x[2] * y[2])
RDiv(x, y) == RNorm(x[1] * y[2], x[2] * y[1])
RLeq(x, y) == x[1] * y[2] <= y[1] * x[2]
RECURSIVE RSum(_)
RSum(s) == IF s = <<>> THEN <<0, 1>> ELSE RAdd(Head(s), RSum(Tail(s)))
=============================================================================
