---------------------------- MODULE ScaleArith ----------------------------
(***************************************************************************)
(* C13, the arithmetic core of scale_and_discretize for three weights      *)
(* a >= 1, b, c >= 0 and any total t, all up to Big: with floor shares     *)
(* f_i = (w_i * t) div S  (S = a + b + c) the shortfall D = t - sum f_i    *)
(* lies in 0..2, i.e. fewer increments of one are needed than there are    *)
(* weights - so topping up the largest remainders by ONE each reaches the  *)
(* total exactly and leaves every entry within one of its share.  Checked  *)
(* symbolically by Apalache; with ceiling shares (Floor = FALSE) it is     *)
(* refuted (vacuity guard).  Shots.tla has the same lemma for every length *)
(* inside TLC's small box (ScaleLemma).                                    *)
(***************************************************************************)
EXTENDS Integers
CONSTANTS
  \* @type: Int;
  Big,
  \* @type: Bool;
  Floor
VARIABLES
  \* @type: Int;
  a,
  \* @type: Int;
  b,
  \* @type: Int;
  c,
  \* @type: Int;
  t
Init == a \in 1..Big /\ b \in 0..Big /\ c \in 0..Big /\ t \in 0..Big
Next == UNCHANGED <<a, b, c, t>>
S == a + b + c
Share(w) == IF Floor THEN (w * t) \div S ELSE (w * t + S - 1) \div S
D == t - Share(a) - Share(b) - Share(c)
ShortfallSmall == D >= 0 /\ D <= 2
=============================================================================
