-------------------------------- MODULE Pauli -------------------------------
(***************************************************************************)
(* C03 / C09 - Pauli operator algebra and operator <-> matrix conversions. *)
(*                                                                         *)
(* A term is [ops, c]: ops a sequence over {"I","X","Y","Z"} of length NQ  *)
(* (position q+1 = qubit q), c a ring element.  Every operand (term, sum,  *)
(* plain number) is [t, ts] with ts a SEQUENCE of terms - duplicates and   *)
(* zero coefficients allowed, exactly as in the code.                      *)
(*   meaning layer:    Denote(ts, n) = sum of c * (sigma_0 (x) ... ), qubit 0 leftmost *)
(*   mechanism layer:  MulOp1 (OPERATOR_MAP / COEFF_MAP), MulTerm, Simplify,*)
(*                     square-and-multiply powers, the equality rules,     *)
(*                     the Kronecker chain with identity gaps, the         *)
(*                     trace-product expansion of a matrix.                *)
(* A register machine applies operations to a pool of seed operands and to *)
(* earlier results; TLC checks mechanism = meaning in every state.         *)
(***************************************************************************)
EXTENDS Mat, TLC, Json

CONSTANTS NQ,        \* number of qubits the strings of the pool live on
          Pool,      \* seed operands
          Ops,       \* operations offered
          Depth,     \* levels explored
          ExpandMod, \* results of a first operation are expanded again only if Hash(acc) % ExpandMod = 0 (1 = all)
          Emitting

VARIABLES acc,       \* the current operand (a seed or the result of the last operation)
          ev         \* last operation [op, x, y, k, res, b, m]
vars == <<acc, ev>>

Letters == {"I", "X", "Y", "Z"}
AllI == [q \in 1..NQ |-> "I"]
Tm(ops, c) == [ops |-> ops, c |-> c]
T(ops, c) == [t |-> "term", ts |-> <<Tm(ops, c)>>]
S(ts) == [t |-> "sum", ts |-> ts]
N(c) == [t |-> "num", ts |-> <<Tm(AllI, c)>>]

\* ---- meaning -------------------------------------------------------------------------------------
Sigma(o) == CASE o = "I" -> <<<<COne, CZero>>, <<CZero, COne>>>>
              [] o = "X" -> <<<<CZero, COne>>, <<COne, CZero>>>>
              [] o = "Y" -> <<<<CZero, CNegI>>, <<CI, CZero>>>>
              [] o = "Z" -> <<<<COne, CZero>>, <<CZero, CMinus>>>>
OpAt(ops, q) == IF q <= Len(ops) THEN ops[q] ELSE "I"           \* identity padding above the string
RECURSIVE KronOps(_, _, _)
KronOps(ops, q, n) == IF q > n THEN <<<<COne>>>> ELSE MKron(Sigma(OpAt(ops, q)), KronOps(ops, q + 1, n))
DenoteTerm(tm, n) == MScale(tm.c, KronOps(tm.ops, 1, n))
RECURSIVE Denote(_, _)
Denote(ts, n) == IF ts = <<>> THEN MZero(2^n) ELSE MAdd(DenoteTerm(Head(ts), n), Denote(Tail(ts), n))
D(x) == Denote(x.ts, NQ)

\* ---- mechanism: the product table ------------------------------------------------------------------
OperatorMap(a, b) == CASE {a, b} = {"X", "Y"} -> "Z" [] {a, b} = {"Y", "Z"} -> "X" [] {a, b} = {"X", "Z"} -> "Y"
CoeffMap(a, b) == CASE <<a, b>> = <<"X", "Y">> -> CI    [] <<a, b>> = <<"X", "Z">> -> CNegI
                    [] <<a, b>> = <<"Y", "X">> -> CNegI [] <<a, b>> = <<"Y", "Z">> -> CI
                    [] <<a, b>> = <<"Z", "X">> -> CI    [] <<a, b>> = <<"Z", "Y">> -> CNegI
MulOp1(a, b) ==           \* _multiply_by_operator on one qubit (a: what the term holds, b: the incoming operator)
  IF b = "I" THEN [op |-> a, c |-> COne]
  ELSE IF a = "I" THEN [op |-> b, c |-> COne]
  ELSE IF a = b THEN [op |-> "I", c |-> COne]
  ELSE [op |-> OperatorMap(a, b), c |-> CoeffMap(a, b)]
RECURSIVE CProd(_)
CProd(s) == IF s = <<>> THEN COne ELSE CMul(Head(s), CProd(Tail(s)))
MulTerm(p, q) == Tm([i \in 1..NQ |-> MulOp1(p.ops[i], q.ops[i]).op],
                    CMul(CMul(p.c, q.c), CProd([i \in 1..NQ |-> MulOp1(p.ops[i], q.ops[i]).c])))

\* ---- mechanism: simplify (merge like terms in first-appearance order, drop zeros) -----------------------
RECURSIVE Merge(_, _)
Merge(ts, accum) ==
  IF ts = <<>> THEN accum
  ELSE LET tm == Head(ts)
           hit == {j \in 1..Len(accum) : accum[j].ops = tm.ops}
       IN IF hit = {} THEN Merge(Tail(ts), Append(accum, tm))
          ELSE LET j == CHOOSE j \in hit : TRUE IN Merge(Tail(ts), [accum EXCEPT ![j].c = CAdd(accum[j].c, tm.c)])
RECURSIVE DropZero(_)
DropZero(ts) == IF ts = <<>> THEN <<>> ELSE (IF CIsZero(Head(ts).c) THEN <<>> ELSE <<Head(ts)>>) \o DropZero(Tail(ts))
Simplify(ts) == DropZero(Merge(ts, <<>>))
IsSimplified(x) == x.t # "sum" \/ (/\ \A i, j \in 1..Len(x.ts) : i # j => x.ts[i].ops # x.ts[j].ops
                                    /\ \A k \in 1..Len(x.ts) : ~CIsZero(x.ts[k].c))
ScaleTs(c, ts) == [i \in 1..Len(ts) |-> Tm(ts[i].ops, CMul(c, ts[i].c))]

\* ---- mechanism: arithmetic ---------------------------------------------------------------------------
AddV(x, y) == S(Simplify(x.ts \o y.ts))
SubV(x, y) == AddV(x, [y EXCEPT !.ts = ScaleTs(CMinus, y.ts)])
CrossTs(a, b) == LET n == Len(b) IN [k \in 1..(Len(a) * n) |-> MulTerm(a[((k - 1) \div n) + 1], b[((k - 1) % n) + 1])]   \* itertools.product order
MulV(x, y) == IF x.t = "sum" \/ y.t = "sum" THEN S(Simplify(CrossTs(x.ts, y.ts)))
              ELSE T(MulTerm(x.ts[1], y.ts[1]).ops, MulTerm(x.ts[1], y.ts[1]).c)
InvC(c) == CASE c = CInt(2) -> CHalf [] c = CHalf -> CInt(2) [] c = CI -> CNegI [] c = CNegI -> CI [] c = CMinus -> CMinus [] c = COne -> COne
Invertible == {CInt(2), CHalf, CI, CNegI, CMinus, COne}
DivV(x, y) == MulV(x, N(InvC(y.ts[1].c)))
IdentityLike(x) == IF x.t = "sum" THEN S(<<Tm(AllI, COne)>>) ELSE T(AllI, COne)
RECURSIVE PowV(_, _)
PowV(x, e) == IF e = 0 THEN IdentityLike(x)                     \* _efficient_exponentiation
              ELSE IF e % 2 = 1 THEN MulV(x, PowV(x, e - 1))
              ELSE LET r == PowV(x, e \div 2) IN MulV(r, r)
TermEq(p, q) == p.c = q.c /\ (CIsZero(p.c) \/ p.ops = q.ops)
SumEq(a, b) == Len(a) = Len(b) /\ {a[i] : i \in 1..Len(a)} = {b[i] : i \in 1..Len(b)}
EqV(x, y) ==
  CASE x.t # "sum" /\ y.t # "sum" -> TermEq(x.ts[1], y.ts[1])
    [] x.t = "sum" /\ y.t = "sum" -> SumEq(x.ts, y.ts)
    [] x.t = "sum" /\ y.t # "sum" -> IF y.t = "term" /\ Len(x.ts) = 0 THEN CIsZero(y.ts[1].c) ELSE SumEq(x.ts, y.ts)
    [] x.t # "sum" /\ y.t = "sum" -> IF x.t = "term" /\ Len(y.ts) = 0 THEN CIsZero(x.ts[1].c) ELSE SumEq(y.ts, x.ts)

\* ---- C09: conversions ----------------------------------------------------------------------------------
ConjV(x) == IF x.t = "sum" THEN S(Simplify([i \in 1..Len(x.ts) |-> Tm(x.ts[i].ops, CConj(x.ts[i].c))]))   \* built with +=
            ELSE [x EXCEPT !.ts = <<Tm(x.ts[1].ops, CConj(x.ts[1].c))>>]
IsHermV(x) == EqV(x, ConjV(x))
Width(ts) == LET used == {q \in 1..NQ : \E i \in 1..Len(ts) : ts[i].ops[q] # "I"} IN IF used = {} THEN 0 ELSE CHOOSE q \in used : \A r \in used : r <= q
\* the Kronecker chain of get_sparse_operator: identity blocks for gaps, identity at the end, coefficient as 1x1 start
RECURSIVE Chain(_, _, _, _)
Chain(ops, q, tf, n) ==          \* q: next position to look at (1-based), tf: tensor_factor (qubits already covered)
  IF q > NQ THEN (IF tf < n THEN <<MId(2^(n - tf))>> ELSE <<>>)
  ELSE IF ops[q] = "I" THEN Chain(ops, q + 1, tf, n)
  ELSE (IF q - 1 > tf THEN <<MId(2^(q - 1 - tf))>> ELSE <<>>) \o <<Sigma(ops[q])>> \o Chain(ops, q + 1, q, n)
RECURSIVE KronAll(_)
KronAll(ms) == IF Len(ms) = 1 THEN ms[1] ELSE KronAll(<<MKron(ms[1], ms[2])>> \o SubSeq(ms, 3, Len(ms)))     \* reduce, left to right
SparseTermMech(tm, n) == KronAll(<<<<<<tm.c>>>>>> \o Chain(tm.ops, 1, 0, n))
RECURSIVE SparseMech(_, _)
SparseMech(ts, n) == IF ts = <<>> THEN MZero(2^n) ELSE MAdd(SparseTermMech(Head(ts), n), SparseMech(Tail(ts), n))
ReverseV(x, n) == S(Simplify([i \in 1..Len(x.ts) |-> Tm([q \in 1..NQ |-> IF q <= n THEN x.ts[i].ops[n + 1 - q] ELSE "I"], x.ts[i].c)]))
BitRevIdx(i, n) == LET RECURSIVE R(_, _, _) R(v, k, a) == IF k = 0 THEN a ELSE R(v \div 2, k - 1, (a * 2) + (v % 2)) IN R(i, n, 0)
BitRevConj(M, n) == [r \in 1..2^n |-> [c \in 1..2^n |-> M[BitRevIdx(r - 1, n) + 1][BitRevIdx(c - 1, n) + 1]]]
\* trace-product expansion (get_pauliop_from_matrix): label digits 0..3 = I,X,Y,Z, qubit 0 = first digit
Letter(d) == CASE d = 0 -> "I" [] d = 1 -> "X" [] d = 2 -> "Y" [] d = 3 -> "Z"
LabelOf(i, n) == [q \in 1..NQ |-> IF q <= n THEN Letter((i \div 4^(n - q)) % 4) ELSE "I"]
FlipCol(j, lab, n) == LET RECURSIVE F(_) F(q) == IF q > n THEN 0 ELSE
                            (IF lab[q] \in {"X", "Y"} THEN 1 - Bit(j, q - 1, n) ELSE Bit(j, q - 1, n)) * 2^(n - q) + F(q + 1) IN F(1)
NzVal(j, lab, n) == CProd([q \in 1..n |-> IF lab[q] = "Y" THEN (IF Bit(j, q - 1, n) = 0 THEN CI ELSE CNegI)
                                          ELSE IF lab[q] = "Z" /\ Bit(j, q - 1, n) = 1 THEN CMinus ELSE COne])
InvPow2(n) == <<1, 0, 0, 0, n>>
TraceProduct(M, lab, n) == CMul(InvPow2(n), CSumSeq([jj \in 1..2^n |-> CMul(M[jj][FlipCol(jj - 1, lab, n) + 1], NzVal(jj - 1, lab, n))]))
FromMatrix(M, n) == S(Simplify([i \in 1..4^n |-> Tm(LabelOf(i - 1, n), TraceProduct(M, LabelOf(i - 1, n), n))]))
MatUnit(r, c, n) == [i \in 1..2^n |-> [j \in 1..2^n |-> IF i = r /\ j = c THEN COne ELSE CZero]]
\* normalised ring-valued states on NQ qubits (index k selects one)
StateK(k) == LET d == 2^NQ IN
  CASE k = 1 -> [i \in 1..d |-> IF i = 1 THEN COne ELSE CZero]
    [] k = 2 -> [i \in 1..d |-> IF i = d THEN CI ELSE CZero]
    [] k = 3 -> [i \in 1..d |-> IF i = 1 THEN CInvSqrt2 ELSE IF i = d THEN CMul(CI, CInvSqrt2) ELSE CZero]
    [] k = 4 -> [i \in 1..d |-> IF i = 2 THEN CInvSqrt2 ELSE IF i = 3 THEN CNeg(CInvSqrt2) ELSE CZero]
    [] k = 5 -> [i \in 1..d |-> IF i <= 4 THEN (IF i = 2 THEN CMul(CI, CHalf) ELSE IF i = 3 THEN CNeg(CHalf) ELSE CHalf) ELSE CZero]
QuadForm(M, v) == CSumSeq([i \in 1..Len(v) |-> CMul(CConj(v[i]), MApply(M, v)[i])])

\* ---- an operator's value from the values of its terms (evaluate_operator) -----------------------------------------------
CRe(z) == CMul(CHalf, CAdd(z, CConj(z)))
TermValues(ts, k) == [i \in 1..Len(ts) |-> QuadForm(Denote(<<Tm(ts[i].ops, COne)>>, NQ), StateK(k))]          \* <psi| P_i |psi>
EvalFromTermValues(ts, vals) == CSumSeq([i \in 1..Len(ts) |-> CRe(CMul(ts[i].c, vals[i]))])               \* mechanism: the loop
\* ---- the register machine --------------------------------------------------------------------------------
NoM == <<>>
Ev(op, x, y, k, res, b, m) == [op |-> op, x |-> x, y |-> y, k |-> k, res |-> res, b |-> b, m |-> m]
Init == acc \in Pool /\ ev = Ev("init", N(CZero), N(CZero), 0, N(CZero), FALSE, NoM)

Binary(op, x, y) ==
  /\ ~(x.t = "num" /\ y.t = "num")
  /\ CASE op = "add" -> acc' = AddV(x, y) /\ ev' = Ev(op, x, y, 0, acc', FALSE, NoM)
       [] op = "sub" -> acc' = SubV(x, y) /\ ev' = Ev(op, x, y, 0, acc', FALSE, NoM)
       [] op = "mul" -> acc' = MulV(x, y) /\ ev' = Ev(op, x, y, 0, acc', FALSE, NoM)
       [] op = "div" -> y.t = "num" /\ x.t # "num" /\ y.ts[1].c \in Invertible /\ acc' = DivV(x, y) /\ ev' = Ev(op, x, y, 0, acc', FALSE, NoM)
       [] op = "eq"  -> x.t # "num" /\ y.t # "num" /\ acc' = acc /\ ev' = Ev(op, x, y, 0, acc, EqV(x, y), NoM)   \* equality is about operators, not plain numbers
\* PauliTerm.circuit: one single-qubit gate per non-identity factor (their order is irrelevant: they act on different qubits)
RECURSIVE CircuitFrom(_, _, _)
CircuitFrom(ops, q, w) == IF q > w THEN MId(2^w)
                          ELSE IF ops[q] = "I" THEN CircuitFrom(ops, q + 1, w)
                          ELSE MMul(Lift(Sigma(ops[q]), <<q - 1>>, w), CircuitFrom(ops, q + 1, w))
CircuitMech(ops, w) == CircuitFrom(ops, 1, w)
Unary(op, x, k) ==
  CASE op = "pow" -> x.t # "num" /\ k \in 0..3 /\ acc' = PowV(x, k) /\ ev' = Ev(op, x, x, k, acc', FALSE, NoM)
    [] op = "simplify" -> x.t = "sum" /\ k = 0 /\ acc' = S(Simplify(x.ts)) /\ ev' = Ev(op, x, x, 0, acc', FALSE, NoM)
    [] op = "conj" -> x.t # "num" /\ k = 0 /\ acc' = ConjV(x) /\ ev' = Ev(op, x, x, 0, acc', FALSE, NoM)
    [] op = "isherm" -> x.t # "num" /\ k = 0 /\ acc' = acc /\ ev' = Ev(op, x, x, 0, acc, IsHermV(x), NoM)
    [] op = "sparse" -> x.t # "num" /\ k \in 0..2 /\ acc' = acc /\ ev' = Ev(op, x, x, Width(x.ts) + k, acc, FALSE, SparseMech(x.ts, Width(x.ts) + k))
    [] op = "reverse" -> x.t # "num" /\ k \in 0..1 /\ Width(x.ts) + k <= NQ /\ Width(x.ts) + k >= 1
                         /\ acc' = ReverseV(x, Width(x.ts) + k) /\ ev' = Ev(op, x, x, Width(x.ts) + k, acc', FALSE, NoM)
    [] op = "expect" -> x.t # "num" /\ k \in 1..5 /\ acc' = acc
                         /\ ev' = Ev(op, x, x, k, acc, FALSE, <<<<QuadForm(Denote(x.ts, NQ), StateK(k))>>>>)
    \* a coefficient vector and a label matrix (0..3 = I, X, Y, Z per qubit) turned into an operator: the term list of x read that way
    [] op = "fromlabels" -> x.t = "sum" /\ k = 0 /\ acc' = S(Simplify(x.ts)) /\ ev' = Ev(op, x, x, 0, acc', FALSE, NoM)
    \* evaluate_operator: the value of an operator from the expectation values of its terms (here: the exact ones under state k);
    \* m = the per-term values <P_i>, res = the number  sum_i Re(c_i <P_i>)
    [] op = "evaluate" -> x.t # "num" /\ k \in 1..5 /\ acc' = acc
                         /\ ev' = Ev(op, x, x, k, N(EvalFromTermValues(x.ts, TermValues(x.ts, k))), FALSE, <<TermValues(x.ts, k)>>)
    [] op = "circuit" -> x.t = "term" /\ k = 0 /\ Width(x.ts) >= 1 /\ acc' = acc
                         /\ ev' = Ev(op, x, x, Width(x.ts), acc, FALSE, CircuitMech(x.ts[1].ops, Width(x.ts)))
    \* the matrix an operator denotes, expanded in the Pauli basis again (Hermitian, symmetric, neither: the expansion may not branch on it)
    [] op = "matrixof" -> x.t # "num" /\ k = 0 /\ acc' = FromMatrix(D(x), NQ) /\ ev' = Ev(op, x, x, 0, acc', FALSE, D(x))
    [] op = "frommatrix" -> k \in 1..(4^NQ) /\ acc' = FromMatrix(MatUnit(((k - 1) \div 2^NQ) + 1, ((k - 1) % 2^NQ) + 1, NQ), NQ)
                         /\ ev' = Ev(op, x, x, k, acc', FALSE, NoM)
BinOps == {"add", "sub", "mul", "div", "eq"}
RECURSIVE HashTs(_)
HashTs(ts) == IF ts = <<>> THEN 0 ELSE Head(ts).c[1] + 2 * Head(ts).c[3] + 3 * Head(ts).c[5] + 5 + HashTs(Tail(ts))
Selected == TLCGet("level") = 1 \/ HashTs(acc.ts) % ExpandMod = 0
Next == /\ Selected
        /\ \/ \E op \in Ops \cap BinOps : \E y \in Pool : Binary(op, acc, y) \/ Binary(op, y, acc)
           \/ \E op \in Ops \ BinOps : \E k \in 0..(4^NQ) : Unary(op, acc, k)
DepthBound == TLCGet("level") <= Depth
\* quick tier: every single operation, and a random eighth of the second-level states expanded again
\* (TLCGet("level") is the level of the state the constraint is evaluated on: 2 = result of one operation)
SampledSecondLevel == TLCGet("level") <= 2 \/ (TLCGet("level") = 3 /\ RandomElement(1..12) = 1)

\* ---- C03: mechanism = meaning ------------------------------------------------------------------------------
TableIsFaithful == \A a \in Letters : \A b \in Letters :
    MMul(Sigma(a), Sigma(b)) = MScale(MulOp1(a, b).c, Sigma(MulOp1(a, b).op))
ASSUME TableIsFaithful
ArithmeticIsFaithful ==
  CASE ev.op = "add" -> D(ev.res) = MAdd(D(ev.x), D(ev.y))
    [] ev.op = "sub" -> D(ev.res) = MAdd(D(ev.x), MScale(CMinus, D(ev.y)))
    [] ev.op = "mul" -> D(ev.res) = MMul(D(ev.x), D(ev.y))
    [] ev.op = "div" -> MScale(ev.y.ts[1].c, D(ev.res)) = D(ev.x)
    [] ev.op = "pow" -> D(ev.res) = MPow(D(ev.x), ev.k)
    [] ev.op = "simplify" -> D(ev.res) = D(ev.x) /\ IsSimplified(ev.res)
    [] OTHER -> TRUE
ResultTypes ==
  CASE ev.op \in {"add", "sub"} -> ev.res.t = "sum"
    [] ev.op \in {"mul"} -> ev.res.t = (IF ev.x.t = "sum" \/ ev.y.t = "sum" THEN "sum" ELSE "term")
    [] ev.op \in {"div", "pow"} -> ev.res.t = ev.x.t
    [] OTHER -> TRUE
ResultsAreSimplified == ev.op \in {"add", "sub", "simplify"} \/ (ev.op = "mul" /\ ev.res.t = "sum") => IsSimplified(ev.res)
EqIffSameMatrix == (ev.op = "eq" /\ IsSimplified(ev.x) /\ IsSimplified(ev.y)) => (ev.b <=> (D(ev.x) = D(ev.y)))
\* ---- C09 ----------------------------------------------------------------------------------------------------
SparseIsDefinition == ev.op = "sparse" => ev.m = Denote(ev.x.ts, ev.k)
HermConjIsAdjoint == ev.op = "conj" => D(ev.res) = MAdj(D(ev.x))
IsHermitianIffMatrixIs == (ev.op = "isherm" /\ IsSimplified(ev.x)) => (ev.b <=> (D(ev.x) = MAdj(D(ev.x))))
MatrixPauliRoundTrip == ev.op = "frommatrix" => D(ev.res) = MatUnit(((ev.k - 1) \div 2^NQ) + 1, ((ev.k - 1) % 2^NQ) + 1, NQ)
MatrixOfOperatorRoundTrip == ev.op = "matrixof" => D(ev.res) = D(ev.x) /\ IsSimplified(ev.res)
ReverseIsBitReversal == ev.op = "reverse" =>
    /\ Denote(ev.res.ts, ev.k) = BitRevConj(Denote(ev.x.ts, ev.k), ev.k)
    /\ Denote(ReverseV(ev.res, ev.k).ts, ev.k) = Denote(ev.x.ts, ev.k)          \* twice = identity
ExpectationIsQuadraticForm == ev.op = "expect" => ev.m[1][1] = QuadForm(SparseMech(ev.x.ts, NQ), StateK(ev.k))
\* beyond the listed clauses: a label matrix denotes the sum of its rows' strings; the value assembled from the terms' exact
\* expectation values is the real part of the operator's own expectation (linearity; like terms and their order do not matter)
FromLabelsDenotes == ev.op = "fromlabels" => D(ev.res) = D(ev.x) /\ IsSimplified(ev.res)
EvaluateIsExpectation == ev.op = "evaluate" => ev.res.ts[1].c = CRe(QuadForm(Denote(ev.x.ts, NQ), StateK(ev.k)))
\* beyond the listed clauses: the circuit of a term acts as the term's Pauli string (coefficient aside) on the term's own width
TermCircuitIsString == ev.op = "circuit" => ev.m = Denote(<<Tm(ev.x.ts[1].ops, COne)>>, ev.k)
NoOverflow == \A i \in 1..Len(acc.ts) : CSmall(acc.ts[i].c)

\* ---- pools ---------------------------------------------------------------------------------------------------
Ops2(a, b) == <<a, b>>
Ops3(a, b, c) == <<a, b, c>>
CPlusI == CAdd(COne, CI)
PoolArith2 == {
  T(Ops2("X", "I"), COne), T(Ops2("I", "Y"), CI), T(Ops2("Z", "Z"), CHalf), T(Ops2("X", "Y"), CPlusI), T(Ops2("I", "I"), CInt(2)),
  T(Ops2("Z", "I"), CZero),
  S(<<Tm(Ops2("X", "I"), COne), Tm(Ops2("X", "I"), COne)>>), S(<<Tm(Ops2("Z", "I"), COne), Tm(Ops2("Z", "I"), CMinus)>>), S(<<>>),
  S(<<Tm(Ops2("Z", "Z"), COne), Tm(Ops2("I", "X"), CI), Tm(Ops2("I", "I"), CInt(2))>>), S(<<Tm(Ops2("Y", "Y"), CNegI), Tm(Ops2("X", "Z"), CHalf)>>),
  N(CInt(2)), N(CI), N(CMinus), N(CZero), N(CHalf) }
PoolArith3 == {
  T(Ops3("X", "I", "Z"), COne), T(Ops3("I", "Y", "Y"), CI), T(Ops3("Z", "Z", "X"), CHalf), T(Ops3("I", "I", "I"), CInt(2)),
  S(<<Tm(Ops3("X", "I", "Y"), COne), Tm(Ops3("X", "I", "Y"), CI)>>), S(<<>>),
  S(<<Tm(Ops3("Z", "Z", "I"), COne), Tm(Ops3("I", "X", "Y"), CI), Tm(Ops3("I", "I", "I"), CInt(2))>>),
  N(CInt(2)), N(CI), N(CMinus) }
\* chains of operations on ONE evolving object (also through +=, -=, *=): a three-term sum, the negation of its first
\* term, its second term, a term on its third string, scalars (zero on either side)
PoolChain == {
  S(<<Tm(Ops2("X", "I"), COne), Tm(Ops2("I", "Z"), COne), Tm(Ops2("Y", "Y"), COne)>>), T(Ops2("X", "I"), CMinus), T(Ops2("I", "Z"), COne),
  T(Ops2("Y", "Y"), CI), N(CZero), N(CInt(2)) }
PoolEmptySum == {S(<<>>)}
PoolStrings == {T(o, COne) : o \in [1..NQ -> Letters]}
PoolC09_2 == { T(Ops2("Y", "I"), COne), T(Ops2("I", "Y"), CI), T(Ops2("Y", "Y"), CHalf), T(Ops2("X", "Z"), CPlusI), T(Ops2("I", "I"), CInt(2)),
  T(Ops2("I", "Z"), CMinus), S(<<>>), S(<<Tm(Ops2("Z", "Y"), COne), Tm(Ops2("I", "X"), CI), Tm(Ops2("I", "I"), CInt(2))>>),
  S(<<Tm(Ops2("Y", "I"), CNegI), Tm(Ops2("X", "Z"), CHalf)>>), S(<<Tm(Ops2("Y", "X"), COne), Tm(Ops2("Z", "I"), CMinus)>>),
  \* sums as a caller may write them: the same string more than once, NOT adjacent, later occurrences with non-real coefficients
  \* (the constructor does not simplify); Z-only sums of that kind (a diagonal operator)
  S(<<Tm(Ops2("Z", "Z"), CInt(2)), Tm(Ops2("I", "Y"), CPlusI), Tm(Ops2("Z", "Z"), CI)>>),
  S(<<Tm(Ops2("I", "Z"), COne), Tm(Ops2("Z", "Z"), CHalf), Tm(Ops2("I", "Z"), COne), Tm(Ops2("Z", "I"), CMinus), Tm(Ops2("Z", "Z"), CHalf)>>),
  S(<<Tm(Ops2("X", "I"), CI), Tm(Ops2("I", "I"), COne), Tm(Ops2("X", "I"), CNegI), Tm(Ops2("I", "I"), CI)>>) }
PoolC09_3 == PoolStrings \cup { S(<<>>), T(Ops3("I", "I", "Y"), CI), T(Ops3("Y", "I", "Y"), CPlusI),
  S(<<Tm(Ops3("Y", "I", "I"), COne), Tm(Ops3("I", "Z", "Y"), CI), Tm(Ops3("I", "I", "I"), CInt(2))>>),
  S(<<Tm(Ops3("X", "I", "Y"), CHalf), Tm(Ops3("I", "Y", "I"), CMinus)>>),
  S(<<Tm(Ops3("Z", "I", "Z"), CInt(2)), Tm(Ops3("I", "Y", "I"), CPlusI), Tm(Ops3("Z", "I", "Z"), CI)>>),
  S(<<Tm(Ops3("I", "Z", "I"), COne), Tm(Ops3("Z", "I", "Z"), CHalf), Tm(Ops3("I", "Z", "I"), COne)>>),
  S(<<Tm(Ops3("Z", "Z", "I"), COne), Tm(Ops3("I", "Z", "Z"), COne), Tm(Ops3("I", "Z", "Z"), CI), Tm(Ops3("Z", "Z", "I"), CMinus), Tm(Ops3("I", "I", "I"), CHalf)>>) }

TsJ(ts) == [i \in 1..Len(ts) |-> [ops |-> ts[i].ops, c |-> ts[i].c]]
VJ(x) == [t |-> x.t, ts |-> TsJ(x.ts)]
Emit == IF ~Emitting THEN TRUE ELSE
  PrintT(ToJson([op |-> ev'.op, x |-> VJ(ev'.x), y |-> VJ(ev'.y), k |-> ev'.k, res |-> VJ(ev'.res), b |-> ev'.b, m |-> ev'.m]))
=============================================================================
