----------------------------- MODULE RunnerTrace ----------------------------
(***************************************************************************)
(* code -> spec for C14.  A trace is the recorded call history of one real *)
(* runner object (tracer: harness/vh/trace_runner.py, one event per public *)
(* top-level call, written at its return - also on the error path).  Every *)
(* event carries the call's arguments, so validation is linear: the next   *)
(* state is computed with Runner!Step and compared field by field with what*)
(* was logged.  Each conjunct is named; a rejected event reports the names *)
(* of the conjuncts that failed.                                           *)
(***************************************************************************)
EXTENDS Runner, IOUtils
Traces == JsonDeserialize(IOEnv.TRACE_FILE)      \* sequence of [id, kind, inner, events]
VARIABLES tid, l
tvars == <<vars, tid, l>>

T == Traces[tid]
E == T.events[l]
S == Step(T.kind, T.inner, E.call, file)
Expected == [own |-> Plus(cnt.own, S.odc, S.odj), inner |-> Plus(cnt.inner, S.idc, S.idj)]

PreMatches      == E.pre = cnt                                   \* nobody touched the counters between calls
OutMatches      == (E.out = "ok") <=> (S.out = "ok")
RejectIsValueError == (S.out = "rejected") => E.exc = "ValueError"
OwnCounters     == T.kind = "trk" \/ E.post.own = Expected.own   \* exact for base-class runners and simulators
OwnMonotone     == E.post.own.c >= cnt.own.c /\ E.post.own.j >= cnt.own.j
InnerCounters   == T.kind # "trk" \/ E.post.inner = Expected.inner
ResultShape     == (S.out = "ok" /\ E.out = "ok") =>
                      /\ Len(E.res) = Len(S.res)
                      /\ \A i \in 1..Len(S.res) : E.res[i].w = S.res[i].w /\ E.res[i].n >= S.res[i].n
FileMatches     == (T.kind = "trk" /\ S.out = "ok" /\ E.out = "ok") =>
                      /\ Len(E.file) = Len(S.file)
                      /\ \A i \in 1..Len(S.file) :
                            /\ E.file[i].type = S.file[i].type /\ E.file[i].gates = S.file[i].gates
                            /\ E.file[i].w = S.file[i].w
                            /\ (S.file[i].type = "measurement" => E.file[i].shots = E.res[i].n)
                            /\ (S.file[i].type = "distribution" => E.file[i].shots = S.file[i].shots)
PassThrough     == (T.kind = "trk" /\ E.out = "ok") => E.same_object
Clauses == <<PreMatches, OutMatches, RejectIsValueError, OwnCounters, OwnMonotone, InnerCounters, ResultShape, FileMatches, PassThrough>>
Names   == <<"PreMatches", "OutMatches", "RejectIsValueError", "OwnCounters", "OwnMonotone", "InnerCounters", "ResultShape", "FileMatches", "PassThrough">>
Accepts == \A i \in 1..Len(Clauses) : Clauses[i]

TInit == /\ tid \in 1..Len(Traces) /\ l = 1
         /\ rk = <<Traces[tid].kind, Traces[tid].inner, {}>>
         /\ cnt = [own |-> Zero, inner |-> Zero] /\ file = <<>>
         /\ ev = [pid |-> tid, op |-> "new", call |-> [op |-> "new", cs |-> <<>>, ns |-> NoneN], out |-> "ok", res |-> <<>>, pre |-> [own |-> Zero, inner |-> Zero]]
\* an accepted event moves the specification state to what was LOGGED (for the tracker's own counters the
\* statement leaves freedom, so the logged value is adopted after the monotonicity conjunct has been checked)
TNext == /\ l <= Len(T.events)
         /\ IF Accepts THEN TRUE
            ELSE PrintT(ToJson([reject |-> tid, at |-> l, failed |-> {Names[i] : i \in {j \in 1..Len(Clauses) : ~Clauses[j]}},
                                expected |-> [out |-> S.out, cnt |-> Expected, res |-> S.res]]))
         /\ Accepts
         /\ cnt' = E.post /\ file' = S.file /\ l' = l + 1 /\ UNCHANGED <<tid, rk>>
         /\ ev' = [pid |-> tid, op |-> E.call.op, call |-> E.call, out |-> S.out, res |-> S.res, pre |-> cnt]
Done == PrintT(ToJson([stats |-> TLCGet("stats").diameter]))
=============================================================================
