------------------------------ MODULE LibTest -------------------------------
EXTENDS Mat, TLC, Json
VARIABLE i
H == [r \in 1..2 |-> [c \in 1..2 |-> IF r = 2 /\ c = 2 THEN CNeg(CInvSqrt2) ELSE CInvSqrt2]]
X == <<<<CZero, COne>>, <<COne, CZero>>>>
CNOT == Lift(X, <<1>>, 2)
Init == i = 0
Next == i < 8 /\ i' = i + 1
RingOK == /\ CMul(CInvSqrt2, CInvSqrt2) = CHalf
          /\ CMul(CSqrt2, CInvSqrt2) = COne
          /\ CMul(COmega(i), COmega(-i)) = COne
          /\ CAdd(CMul(CCos(i), CCos(i)), CMul(CSin(i), CSin(i))) = COne
          /\ CConj(COmega(i)) = COmega(-i)
          /\ IsUnitary(H) /\ MMul(H, MMul(X, H)) = <<<<COne, CZero>>, <<CZero, CMinus>>>>
          /\ Lift(X, <<0>>, 2) = MKron(X, MId(2)) /\ Lift(X, <<1>>, 2) = MKron(MId(2), X)
          /\ EqUpToPhase(MScale(COmega(i), H), H)
Emit == PrintT(ToJson([i |-> i, w |-> COmega(i), m |-> MScale(COmega(i), H)]))
=============================================================================
