---------------------------- MODULE UnitaryTools ----------------------------
(***************************************************************************)
(* C02 (beyond the statement): the comparison helpers of the utility       *)
(* layer, on exact unitaries of the ring.                                  *)
(*   meaning:   A and B are equal up to ONE global phase (Mat!EqUpToPhase) *)
(*   mechanism (compare_unitary): M = A^dagger B, phase = 1 / M[0][0],     *)
(*       answer = "phase * M is the identity"                              *)
(* Division-free reading of the mechanism: it is DEFINED iff M[0][0] # 0,  *)
(* and then answers  M = M[0][0] * Id.  TLC checks on every ordered pair   *)
(* of the pool: where the mechanism is defined it decides equality up to   *)
(* phase; it is undefined exactly for pairs with <0|A^dagger B|0> = 0 -    *)
(* all of them unequal - where the library divides by zero (as found:      *)
(* exported as "undefined", reported by the replay as an observation).     *)
(*   is_unitary: A^dagger A = Id;  is_identity: A = Id.                    *)
(***************************************************************************)
EXTENDS GateDefs, TLC, Json
CONSTANTS Emitting
VARIABLES a, b, done
vars == <<a, b, done>>
K0 == <<0, 0, 0>>
K1 == <<1, 0, 0>>
One == TLCEval(<< GateAt("I", K0), GateAt("X", K0), GateAt("Z", K0), GateAt("H", K0), GateAt("S", K0), GateAt("T", K0), GateAt("SX", K0),
          GateAt("RX", K1), GateAt("RZ", K1), MScale(COmega(1), GateAt("X", K0)), MScale(CI, GateAt("H", K0)), MScale(CMinus, GateAt("I", K0)),
          MScale(COmega(3), GateAt("RX", K1)) >>)
Two == TLCEval(<< MId(4), GateAt("CNOT", K0), GateAt("CZ", K0), GateAt("SWAP", K0), GateAt("ISWAP", K0), MScale(CI, GateAt("CNOT", K0)),
          MScale(COmega(5), GateAt("ISWAP", K0)) >>)
\* not unitary (for is_unitary): a scaled and a singular matrix
Bad == TLCEval(<< MScale(CHalf, GateAt("H", K0)), <<<<COne, COne>>, <<CZero, COne>>>> >>)
Pool == {<<1, i>> : i \in 1..Len(One)} \cup {<<2, i>> : i \in 1..Len(Two)}
Mx(p) == IF p[1] = 1 THEN One[p[2]] ELSE Two[p[2]]
Overlap(A, B) == MMul(MAdj(A), B)
Defined(A, B) == ~CIsZero(Overlap(A, B)[1][1])
Mech(A, B) == LET M == Overlap(A, B) IN M = MScale(M[1][1], MId(Len(M)))
Init == a \in Pool /\ b \in {p \in Pool : p[1] = a[1]} /\ done = FALSE
Next == ~done /\ done' = TRUE /\ UNCHANGED <<a, b>>
PoolIsUnitary == \A p \in Pool : IsUnitary(Mx(p))
BadIsNotUnitary == \A i \in 1..Len(Bad) : ~IsUnitary(Bad[i])
ASSUME PoolIsUnitary /\ BadIsNotUnitary
MechanismDecidesWhereDefined == Defined(Mx(a), Mx(b)) => (Mech(Mx(a), Mx(b)) <=> EqUpToPhase(Mx(a), Mx(b)))
UndefinedOnlyForUnequal == ~Defined(Mx(a), Mx(b)) => ~EqUpToPhase(Mx(a), Mx(b))
Symmetric == EqUpToPhase(Mx(a), Mx(b)) <=> EqUpToPhase(Mx(b), Mx(a))
Emit == IF ~Emitting THEN TRUE ELSE
        PrintT(ToJson([a |-> Mx(a), b |-> Mx(b), equal |-> EqUpToPhase(Mx(a), Mx(b)), defined |-> Defined(Mx(a), Mx(b)), ida |-> a, idb |-> b,
                       bad |-> IF a = <<1, 1>> /\ b = <<1, 1>> THEN Bad ELSE << >>]))
=============================================================================
