---------------------------- MODULE Wavefunction ----------------------------
(***************************************************************************)
(* C12 - a wavefunction object is normalised after every operation on it.  *)
(* A pool of live Wavefunction objects; an amplitude is either a ring      *)
(* number [t |-> "n", v |-> <<a,b,c,d,k>>] or a symbol [t |-> "s", s |-> name].*)
(* Mutating operations: element assignment (tentative write, check,        *)
(* ROLLBACK on failure).  bind returns a new object for a symbolic state   *)
(* and the same object for a numeric one.                                  *)
(***************************************************************************)
EXTENDS Mat, TLC, Json

CONSTANTS MaxObjs,     \* pool size
          Depth,       \* bound on the length of a behaviour
          NPaths,      \* path mode: number of random behaviours
          EmitAllBelow,  \* transitions leaving a state of level < EmitAllBelow are all exported, deeper ones 1 in EmitOneIn
          EmitOneIn,
          OpSet,       \* the calls offered (a subset of "new","dicke","set","bind","probs","flip","saveload")
          Emitting

VARIABLES objs,        \* sequence of amplitude vectors (the live objects, in creation order)
          ev           \* last call [pid, op, obj, args, out, res]
vars == <<objs, ev>>

Num(x) == [t |-> "n", v |-> x, s |-> ""]
Sym(n) == [t |-> "s", v |-> CZero, s |-> n]
IsNum(a) == a.t = "n"
AllNum(vec) == \A i \in 1..Len(vec) : IsNum(vec[i])
SumSq(vec) == CSumSeq([i \in 1..Len(vec) |-> IF IsNum(vec[i]) THEN CAbsSq(vec[i].v) ELSE CZero])
IsPow2(n) == \E k \in 0..6 : n = 2^k

\* order on the real subring Z[sqrt2][1/2]:  x = (p + q*sqrt2)/2^k  with p = x[1], q = x[2] = -x[4]
NonNeg(p, q) == \/ (p >= 0 /\ q >= 0)
                \/ (p >= 0 /\ q < 0 /\ p * p >= 2 * q * q)
                \/ (p < 0 /\ q >= 0 /\ 2 * q * q >= p * p)
LeqOne(x) == NonNeg(2^x[5] - x[1], -x[2])          \* x real
Dyadic(a) == a.v[2] = 0 /\ a.v[4] = 0

\* the acceptance rule of the constructor / of every mutation
Accept(vec) == /\ IsPow2(Len(vec))
               /\ IF AllNum(vec) THEN SumSq(vec) = COne ELSE LeqOne(SumSq(vec))
\* floating point cannot decide "numeric part = 1 exactly" when irrational amplitudes are involved
\* (0.7071..^2 + 0.7071..^2 = 1.0000000000000002 > 1.0): there the specification allows either outcome
Boundary(vec) == /\ IsPow2(Len(vec)) /\ ~AllNum(vec) /\ SumSq(vec) = COne
                 /\ \E i \in 1..Len(vec) : IsNum(vec[i]) /\ ~Dyadic(vec[i])
Outcomes(vec) == IF Boundary(vec) THEN {"ok", "rejected"} ELSE IF Accept(vec) THEN {"ok"} ELSE {"rejected"}

\* ---- alphabets -------------------------------------------------------------------------------------
h == CHalf
r2 == CInvSqrt2
Vals == { Num(CZero), Num(COne), Num(h), Num(CNeg(h)), Num(CMul(CI, h)), Num(r2), Num(CNeg(r2)), Num(CMul(CI, r2)),
          Sym("a"), Sym("b") }
NumVals == {x \in Vals : IsNum(x)}
InitVecs == {
   <<Num(COne), Num(CZero)>>, <<Num(r2), Num(CMul(CI, r2))>>, <<Num(h), Num(h), Num(CNeg(h)), Num(CMul(CI, h))>>,
   <<Num(r2), Num(CZero), Num(CZero), Num(r2)>>,
   <<Sym("a"), Sym("b")>>, <<Sym("a"), Num(h)>>, <<Sym("a"), Num(r2)>>, <<Num(r2), Sym("a"), Num(CZero), Sym("b")>>, <<Sym("a"), Sym("a"), Num(h), Num(h)>>,
   <<Num(r2), Num(r2), Sym("a"), Num(CZero)>>,                                   \* boundary case
   <<Num(COne), Num(COne)>>, <<Num(h), Num(h)>>, <<Num(COne), Sym("a"), Num(r2), Num(CZero)>>,   \* ill-formed: rejected
   <<Num(COne), Num(CZero), Num(CZero)>> }                                        \* not a power of two
\* identity entries = partial maps.  No chains (a -> b together with b -> value): sympy's dict substitution is not
\* simultaneous for those and the statement does not say which reading is meant.
Maps == { m \in { [a |-> x, b |-> y] : x \in NumVals \cup {Sym("a"), Sym("b")}, y \in NumVals \cup {Sym("b")} } :
             m.a = Sym("b") => m.b = Sym("b") }
Subst(vec, m) == [i \in 1..Len(vec) |-> IF IsNum(vec[i]) THEN vec[i] ELSE IF vec[i].s = "a" THEN m.a ELSE m.b]

BitRev(i, n) == LET RECURSIVE R(_, _, _)
                    R(x, k, acc) == IF k = 0 THEN acc ELSE R(x \div 2, k - 1, (acc * 2) + (x % 2))
                IN R(i, n, 0)
Log2(len) == CHOOSE k \in 0..6 : 2^k = len
Flip(vec) == LET n == Log2(Len(vec)) IN [i \in 1..Len(vec) |-> vec[BitRev(i - 1, n) + 1]]

Ev(op, o, args, out, res) == [pid |-> ev.pid, op |-> op, obj |-> o, args |-> args, out |-> out, res |-> res, either |-> FALSE]
EvB(op, o, args, out, res, vec) == [Ev(op, o, args, out, res) EXCEPT !.either = Boundary(vec)]
NoArgs == [i |-> 0, val |-> Num(CZero), map |-> [a |-> Sym("a"), b |-> Sym("b")], vec |-> <<>>]

Init == /\ objs = <<>>
        /\ \E pid \in 1..NPaths : ev = [pid |-> pid, op |-> "init", obj |-> 0, args |-> NoArgs, out |-> "ok", res |-> 0, either |-> FALSE]

New(vec) == /\ Len(objs) < MaxObjs
            /\ \E out \in Outcomes(vec) :
                 /\ objs' = IF out = "ok" THEN Append(objs, vec) ELSE objs
                 /\ ev' = EvB("new", 0, [NoArgs EXCEPT !.vec = vec], out, IF out = "ok" THEN Len(objs) + 1 ELSE 0, vec)

\* python index i in -len..len-1
SetItem(o, i, val) ==
  LET vec == objs[o]
      idx == IF i < 0 THEN i + Len(vec) + 1 ELSE i + 1
      tent == [vec EXCEPT ![idx] = val]
  IN /\ (AllNum(vec) => IsNum(val))       \* a numeric object stores complex numbers only (symbols are not assignable)
     /\ \E out \in Outcomes(tent) :
          /\ objs' = IF out = "ok" THEN [objs EXCEPT ![o] = tent] ELSE objs           \* rollback
          /\ ev' = EvB("set", o, [NoArgs EXCEPT !.i = i, !.val = val], out, o, tent)

Bind(o, m) ==
  LET vec == objs[o] IN
  IF AllNum(vec) THEN /\ objs' = objs /\ ev' = Ev("bind", o, [NoArgs EXCEPT !.map = m], "ok", o)        \* same object
  ELSE /\ Len(objs) < MaxObjs
       /\ \E out \in Outcomes(Subst(vec, m)) :
            /\ objs' = IF out = "ok" THEN Append(objs, Subst(vec, m)) ELSE objs
            /\ ev' = EvB("bind", o, [NoArgs EXCEPT !.map = m], out, IF out = "ok" THEN Len(objs) + 1 ELSE 0, Subst(vec, m))

Probs(o)    == AllNum(objs[o]) /\ objs' = objs /\ ev' = Ev("probs", o, NoArgs, "ok", o)
\* reversing the qubit order permutes the entries whatever they are: symbolic and mixed states are reversed too, and what comes back
\* is a wavefunction like any other (it can be bound, assigned to, reversed again)
FlipOp(o)   == Len(objs) < MaxObjs /\ objs' = Append(objs, Flip(objs[o])) /\ ev' = Ev("flip", o, NoArgs, "ok", Len(objs) + 1)
SaveLoad(o) == AllNum(objs[o]) /\ Len(objs) < MaxObjs /\ objs' = Append(objs, objs[o]) /\ ev' = Ev("saveload", o, NoArgs, "ok", Len(objs) + 1)

\* the Dicke constructor returns a NEW object every time it is called (checked against the definition by DickeVecsAreDicke below)
DickeVecs == { <<Num(CZero), Num(r2), Num(r2), Num(CZero)>>, <<Num(CZero), Num(COne)>>, <<Num(CZero), Num(CZero), Num(CZero), Num(COne)>> }
DickeNew(vec) == /\ Len(objs) < MaxObjs /\ objs' = Append(objs, vec)
                 /\ ev' = Ev("dicke", 0, [NoArgs EXCEPT !.vec = vec], "ok", Len(objs) + 1)
Steps == {[op |-> "new", o |-> 0, i |-> 0, val |-> Num(CZero), map |-> NoArgs.map, vec |-> v] : v \in InitVecs}
   \cup {[op |-> "dicke", o |-> 0, i |-> 0, val |-> Num(CZero), map |-> NoArgs.map, vec |-> v] : v \in DickeVecs}
   \cup {[op |-> "set", o |-> o, i |-> i, val |-> x, map |-> NoArgs.map, vec |-> <<>>] :
            o \in 1..Len(objs), i \in -4..3, x \in Vals}
   \cup {[op |-> "bind", o |-> o, i |-> 0, val |-> Num(CZero), map |-> m, vec |-> <<>>] : o \in 1..Len(objs), m \in Maps}
   \cup {[op |-> q, o |-> o, i |-> 0, val |-> Num(CZero), map |-> NoArgs.map, vec |-> <<>>] : q \in {"probs", "flip", "saveload"}, o \in 1..Len(objs)}
Do(s) == CASE s.op = "new" -> New(s.vec)
           [] s.op = "set" -> /\ s.i >= -Len(objs[s.o]) /\ s.i < Len(objs[s.o]) /\ SetItem(s.o, s.i, s.val)
           [] s.op = "bind" -> Bind(s.o, s.map)
           [] s.op = "dicke" -> DickeNew(s.vec)
           [] s.op = "probs" -> Probs(s.o)
           [] s.op = "flip" -> FlipOp(s.o)
           [] s.op = "saveload" -> SaveLoad(s.o)
Next == \E s \in {x \in Steps : x.op \in OpSet} : Do(s)
Enabled(s) == ENABLED Do(s)
PathNext == \E o \in {RandomElement({s.op : s \in {x \in Steps : x.op \in OpSet /\ Enabled(x)}})} :
            \E s \in {RandomElement({x \in Steps : x.op = o /\ Enabled(x)})} : Do(s)
DepthBound == TLCGet("level") <= Depth
PathView == <<objs, ev.pid, TLCGet("level")>>
ViewObjs == objs

\* ---- what the property promises ----------------------------------------------------------------------
EveryLiveObjectNormalised == \A o \in 1..Len(objs) : Accept(objs[o])
RejectedChangesNothing == [][ev'.out = "rejected" => objs' = objs]_vars
OnlySetMutates == [][\A o \in 1..Len(objs) : (objs'[o] # objs[o]) => (ev'.op = "set" /\ ev'.obj = o /\ ev'.out = "ok")]_vars
BindNumericIsSameObject == [][(ev'.op = "bind" /\ AllNum(objs[ev'.obj])) => (ev'.res = ev'.obj /\ objs' = objs)]_vars
ProbsSumToOne == [][ev'.op = "probs" => SumSq(objs[ev'.obj]) = COne]_vars
FlipTwiceIdentity == \A o \in 1..Len(objs) : AllNum(objs[o]) => Flip(Flip(objs[o])) = objs[o]
\* reversal commutes with substitution (entry-wise operations): bind-then-reverse = reverse-then-bind, for every map
\* (a fact about vectors, not about states: checked once, on every initial vector)
FlipCommutesWithBind == \A v \in {x \in InitVecs : \E k \in 0..6 : 2^k = Len(x)} : \A m \in Maps : Flip(Subst(v, m)) = Subst(Flip(v), m)
ASSUME FlipCommutesWithBind
\* the behaviours new -> flip -> any call on the reversed object (an ACTION_CONSTRAINT for a dedicated run; the level is the pre-state's)
SymFlipOnly == CASE TLCGet("level") = 1 -> ev'.op = "new"
                 [] TLCGet("level") = 2 -> ev'.op = "flip"
                 [] OTHER -> ev'.obj = 2
FlipKeepsNorm == \A o \in 1..Len(objs) : AllNum(objs[o]) => SumSq(Flip(objs[o])) = COne

\* ---- Dicke states: the bit trick of the constructor enumerates exactly the weight-k basis states -----------
And(x, y) == LET RECURSIVE A(_, _, _) A(p, q, w) == IF p = 0 \/ q = 0 THEN 0 ELSE (IF p % 2 = 1 /\ q % 2 = 1 THEN w ELSE 0) + A(p \div 2, q \div 2, 2 * w) IN A(x, y, 1)
Or(x, y) == x + y - And(x, y)
LowBit(x) == LET RECURSIVE L(_, _) L(p, w) == IF p % 2 = 1 THEN w ELSE L(p \div 2, 2 * w) IN L(x, 1)      \* x & -x
NextSameWeight(v) == LET t == Or(v, v - 1) + 1 IN Or(t, ((LowBit(t) \div LowBit(v)) \div 2) - 1)
BitLen(x) == LET RECURSIVE B(_) B(p) == IF p = 0 THEN 0 ELSE 1 + B(p \div 2) IN B(x)
PopCount(x) == LET RECURSIVE P(_) P(p) == IF p = 0 THEN 0 ELSE (p % 2) + P(p \div 2) IN P(x)
DickeMech(n, k) == LET RECURSIVE W(_, _) W(cur, acc) == IF BitLen(cur) > n THEN acc ELSE W(NextSameWeight(cur), acc \cup {cur}) IN
                   IF k = 0 THEN {0} ELSE W(2^k - 1, {})
DickeDef(n, k) == {i \in 0..(2^n - 1) : PopCount(i) = k}
DickeLemma == \A n \in 1..5 : \A k \in 0..n : DickeMech(n, k) = DickeDef(n, k)
ASSUME DickeLemma
DickeVecsAreDicke == \A v \in DickeVecs : \E k \in 0..Log2(Len(v)) :
   /\ {i \in 0..(Len(v) - 1) : v[i + 1] # Num(CZero)} = DickeDef(Log2(Len(v)), k)              \* support = weight-k basis states
   /\ \A i, j \in DickeDef(Log2(Len(v)), k) : v[i + 1] = v[j + 1]                            \* uniform
   /\ SumSq(v) = COne
ASSUME DickeVecsAreDicke

AmpJ(a) == IF IsNum(a) THEN [n |-> a.v] ELSE [s |-> a.s]
VecJ(vec) == [i \in 1..Len(vec) |-> AmpJ(vec[i])]
\* which deep transitions are exported is decided by a hash of the transition itself (not by TLC's random generator, whose draws
\* depend on the worker schedule): the same behaviours are replayed in every run
AmpHash(a) == IF IsNum(a) THEN a.v[1] + 2 * a.v[2] + 3 * a.v[3] + 5 * a.v[4] + 7 * a.v[5] ELSE (IF a.s = "a" THEN 11 ELSE 13)
RECURSIVE VecHash(_, _)
VecHash(vec, i) == IF i > Len(vec) THEN 0 ELSE i * AmpHash(vec[i]) + VecHash(vec, i + 1)
RECURSIVE PoolHash(_, _)
PoolHash(p, o) == IF o > Len(p) THEN 0 ELSE (17 * o) * VecHash(p[o], 1) + PoolHash(p, o + 1)
TransHash(e, p) == LET hh == PoolHash(p, 1) + 19 * e.obj + 23 * e.args.i + 29 * AmpHash(e.args.val) + 31 * AmpHash(e.args.map.a) + 37 * AmpHash(e.args.map.b) + 41 * VecHash(e.args.vec, 1)
                   IN IF hh < 0 THEN -hh ELSE hh
Emit == IF ~Emitting \/ (TLCGet("level") >= EmitAllBelow /\ ev'.op \in {"new", "set", "bind"} /\ TransHash(ev', objs) % EmitOneIn # 0) THEN TRUE ELSE
  PrintT(ToJson([pid |-> ev.pid, lvl |-> TLCGet("level"), op |-> ev'.op, obj |-> ev'.obj, out |-> ev'.out, res |-> ev'.res, either |-> ev'.either,
                 i |-> ev'.args.i, val |-> AmpJ(ev'.args.val), map |-> [a |-> AmpJ(ev'.args.map.a), b |-> AmpJ(ev'.args.map.b)],
                 vec |-> VecJ(ev'.args.vec),
                 pre |-> [o \in 1..Len(objs) |-> VecJ(objs[o])], post |-> [o \in 1..Len(objs') |-> VecJ(objs'[o])]]))
=============================================================================
