------------------------------ MODULE Tolerance ------------------------------
(***************************************************************************)
(* C12, the floating-point side of "after any sequence of element          *)
(* assignments the object is still normalised".  Wavefunction.tla works in *)
(* the exact ring and leaves the acceptance boundary nondeterministic; this *)
(* module models the TOLERANCE: probabilities are integers in units of     *)
(* 1/Unit, the creation condition is |total - Unit| <= Tol (numpy.isclose:  *)
(* 1e-5 relative + 1e-8 absolute, i.e. Tol = 100 for Unit = 10^7), within  *)
(* Band of the boundary floating point may decide either way.              *)
(*   mechanism (Local = FALSE, the library): an assignment re-checks the   *)
(*       WHOLE vector against 1 and rolls back when the check fails        *)
(*   Local = TRUE (a plausible O(1) shortcut, kept to be refuted): only    *)
(*       the changed entry is compared with the value it replaces          *)
(* StaysNormalised holds for the global check and is refuted by TLC for    *)
(* the local one: many small accepted steps drift away from 1.             *)
(***************************************************************************)
EXTENDS Integers, Sequences, TLC, Json
CONSTANTS Unit, Tol, Band, MaxOff, Scale, Local, Emitting, EmitOneIn
\* Tol is not a number this module invents: the check measures what the CONSTRUCTOR of the tree under test accepts and passes it in
\* (what the property fixes is that assignments keep the object inside the constructor's own creation condition); Scale stretches
\* the steps with it (Scale = max(1, Tol / 100))
VARIABLES p, ev
vars == <<p, ev>>
Abs(x) == IF x < 0 THEN -x ELSE x
Half == Unit \div 2
Dev(q) == Abs(q[1] + q[2] - Unit)
Deltas == {-40 * Scale, -7 * Scale, 3 * Scale, 7 * Scale, 40 * Scale}
Creatable(q) == Dev(q) <= Tol - Band                 \* the constructor certainly accepts these amplitudes
MustAccept(old, new, i) == IF Local THEN Abs(new[i] - old[i]) <= Tol - Band ELSE Dev(new) <= Tol - Band
MustReject(old, new, i) == IF Local THEN Abs(new[i] - old[i]) >= Tol + Band ELSE Dev(new) >= Tol + Band
Init == p = <<Half, Half>> /\ ev = [op |-> "init", i |-> 0, d |-> 0, out |-> "ok", either |-> FALSE]
Set(i, d) == LET new == [p EXCEPT ![i] = p[i] + d] IN
   /\ Abs(new[i] - Half) <= MaxOff
   /\ \E out \in {"ok", "rejected"} :
        /\ (IF MustAccept(p, new, i) THEN out = "ok" ELSE TRUE)
        /\ (IF MustReject(p, new, i) THEN out = "rejected" ELSE TRUE)
        /\ p' = IF out = "ok" THEN new ELSE p                            \* rollback
        /\ ev' = [op |-> "set", i |-> i, d |-> d, out |-> out, either |-> (~MustAccept(p, new, i) /\ ~MustReject(p, new, i))]
Next == \E i \in 1..2 : \E d \in Deltas : Set(i, d)
\* what the property promises: whatever was accepted, the object still satisfies the creation condition (up to the band)
StaysNormalised == Dev(p) <= Tol + Band
RejectedChangesNothing == [][ev'.out = "rejected" => p' = p]_vars
\* export: the boundary region 1 in EmitOneIn, everything else 1 in 25 * EmitOneIn (deterministic by content); EmitOneIn = 0: everything
Emit == IF ~Emitting THEN TRUE ELSE
        LET tent == [p EXCEPT ![ev'.i] = p[ev'.i] + ev'.d]
            near == Dev(tent) >= Tol - 12 * Scale /\ Dev(tent) <= Tol + 45 * Scale
            h == IF EmitOneIn = 0 THEN 0 ELSE (p[1] * 7 + p[2] * 13 + ev'.d + 3 * ev'.i) % (IF near THEN EmitOneIn ELSE 25 * EmitOneIn) IN
        IF h # 0 THEN TRUE
        ELSE PrintT(ToJson([pre |-> p, i |-> ev'.i, d |-> ev'.d, out |-> ev'.out, either |-> ev'.either, post |-> p', lvl |-> TLCGet("level")]))
ViewP == p
=============================================================================
