-------------------------------- MODULE Expr --------------------------------
(***************************************************************************)
(* C19 - translating symbolic expressions preserves their value.           *)
(* Two tree grammars with ONE node shape [h, s, p, a]:                     *)
(*   sympy's canonical trees  h in {"sym","int","rat","flt","I","add",     *)
(*        "mul","pow","fn"}  (s = name, p = <<num,den>> exact value of a   *)
(*        number, a = arguments)                                           *)
(*   the library's neutral trees  h in {"nsym","num","cnum","call"}        *)
(*        (call: s = function name)                                        *)
(* Value: both are evaluated in a test interpretation over the Gaussian    *)
(* rationals Q(i): + - * / and integer powers are exact; every other       *)
(* construct (sin, cos, exp, tan, non-integer powers, sqrt(a) = pow(a,1/2))*)
(* is a fixed polynomial stand-in of its evaluated arguments - the same on *)
(* both sides, so a translation that preserves the expression up to ring   *)
(* identities preserves the value, and one that swaps operands, drops a    *)
(* factor or renames a function does not (at generic assignments).         *)
(*   mechanism:  FromSympy - the single-dispatch translator with its four  *)
(*               special cases;  Dialect - the name -> operation table     *)
(***************************************************************************)
EXTENDS Rat, TLC, Json, FiniteSets

CONSTANTS MaxGrow, PoolSel, Emitting
VARIABLES t, d
vars == <<t, d>>

\* ---- Gaussian rationals -----------------------------------------------------------------------------
C(re, im) == [ok |-> TRUE, re |-> re, im |-> im]
Undef == [ok |-> FALSE, re |-> R(0), im |-> R(0)]
CQ(q) == C(q, R(0))
CAddQ(x, y) == IF ~x.ok \/ ~y.ok THEN Undef ELSE C(RAdd(x.re, y.re), RAdd(x.im, y.im))
CSubQ(x, y) == IF ~x.ok \/ ~y.ok THEN Undef ELSE C(RSub(x.re, y.re), RSub(x.im, y.im))
CMulQ(x, y) == IF ~x.ok \/ ~y.ok THEN Undef ELSE C(RSub(RMul(x.re, y.re), RMul(x.im, y.im)), RAdd(RMul(x.re, y.im), RMul(x.im, y.re)))
CIsZeroQ(x) == x.re[1] = 0 /\ x.im[1] = 0
CInvQ(x) == IF ~x.ok \/ CIsZeroQ(x) THEN Undef
            ELSE LET n2 == RAdd(RMul(x.re, x.re), RMul(x.im, x.im)) IN C(RDiv(x.re, n2), RNeg(RDiv(x.im, n2)))
CDivQ(x, y) == CMulQ(x, CInvQ(y))
RECURSIVE CPowInt(_, _)
CPowInt(x, n) == IF n = 0 THEN CQ(R(1)) ELSE IF n < 0 THEN CPowInt(CInvQ(x), -n) ELSE CMulQ(x, CPowInt(x, n - 1))
IsIntVal(x) == x.ok /\ x.im[1] = 0 /\ x.re[2] = 1
\* stand-ins (fixed polynomials with distinct coefficients)
Lin(a, b, cc, x) == CAddQ(CMulQ(CQ(R(a)), CMulQ(x, x)), CAddQ(CMulQ(CQ(R(b)), x), CQ(R(cc))))
FnVal(name, x) == CASE name = "sin" -> Lin(1, 3, 1, x) [] name = "cos" -> Lin(2, 5, 3, x) [] name = "exp" -> Lin(1, 7, 2, x)
                    [] name = "tan" -> Lin(3, 2, 5, x) [] OTHER -> Lin(5, 11, 7, x)
PW(b, e) == CAddQ(CMulQ(b, b), CAddQ(CMulQ(CQ(R(3)), CMulQ(e, b)), CAddQ(CMulQ(CQ(R(11)), e), CQ(R(2)))))   \* non-integer power
PowVal(b, e) == IF IsIntVal(e) /\ e.re[1] \in -4..4 THEN CPowInt(b, e.re[1]) ELSE PW(b, e)

\* ---- trees ------------------------------------------------------------------------------------------------
Node(h, s, p, a) == [h |-> h, s |-> s, p |-> p, a |-> a]
Sym(n) == Node("sym", n, R(0), <<>>)
IntN(v) == Node("int", "", R(v), <<>>)
RatN(n, dd) == Node("rat", "", <<n, dd>>, <<>>)
Flt(n, dd) == Node("flt", "", <<n, dd>>, <<>>)          \* a float with an exactly representable value
ImI == Node("I", "", R(0), <<>>)
Add(a) == Node("add", "", R(0), a)
Mul(a) == Node("mul", "", R(0), a)
Pow(b, e) == Node("pow", "", R(0), <<b, e>>)
Fn(name, x) == Node("fn", name, R(0), <<x>>)
NSym(n) == Node("nsym", n, R(0), <<>>)
Num(p) == Node("num", "", p, <<>>)
CNum == Node("cnum", "", R(0), <<>>)                     \* 1j
Call(name, a) == Node("call", name, R(0), a)

Assignments == << [x |-> R(2), y |-> <<3, 2>>], [x |-> R(-3), y |-> R(5)], [x |-> <<1, 3>>, y |-> R(-2)] >>
SymVal(name, sg) == IF name = "x" THEN CQ(sg.x) ELSE IF name = "y" THEN CQ(sg.y) ELSE CQ(R(7))
RECURSIVE FoldAdd(_), FoldMul(_)
FoldAdd(vs) == IF Len(vs) = 1 THEN vs[1] ELSE CAddQ(FoldAdd(SubSeq(vs, 1, Len(vs) - 1)), vs[Len(vs)])       \* reduce(operator.add)
FoldMul(vs) == IF Len(vs) = 1 THEN vs[1] ELSE CMulQ(FoldMul(SubSeq(vs, 1, Len(vs) - 1)), vs[Len(vs)])
SupportedFns == {"sin", "cos", "exp", "tan"}
\* value of a sympy tree
RECURSIVE EvalT(_, _)
EvalT(x, sg) ==
  CASE x.h = "sym" -> SymVal(x.s, sg)
    [] x.h \in {"int", "rat", "flt"} -> CQ(x.p)
    [] x.h = "I" -> C(R(0), R(1))
    [] x.h = "add" -> FoldAdd([i \in 1..Len(x.a) |-> EvalT(x.a[i], sg)])
    [] x.h = "mul" -> FoldMul([i \in 1..Len(x.a) |-> EvalT(x.a[i], sg)])
    [] x.h = "pow" -> PowVal(EvalT(x.a[1], sg), EvalT(x.a[2], sg))
    [] x.h = "fn" -> FnVal(x.s, EvalT(x.a[1], sg))
    [] OTHER -> Undef
\* value of a neutral tree under the sympy dialect's table (Dialect); Refused = name not in the table
Known == {"add", "mul", "div", "sub", "pow", "cos", "sin", "exp", "sqrt", "tan"}
RECURSIVE Refused(_), EvalN(_, _)
Refused(x) == x.h = "call" /\ (x.s \notin Known \/ \E i \in 1..Len(x.a) : Refused(x.a[i]))
EvalN(x, sg) ==
  CASE x.h = "nsym" -> SymVal(x.s, sg)
    [] x.h = "num" -> CQ(x.p)
    [] x.h = "cnum" -> C(R(0), R(1))
    [] x.h = "call" -> LET vs == [i \in 1..Len(x.a) |-> EvalN(x.a[i], sg)] IN
         CASE x.s = "add" -> FoldAdd(vs) [] x.s = "mul" -> FoldMul(vs)
           [] x.s = "div" -> CDivQ(vs[1], vs[2]) [] x.s = "sub" -> CSubQ(vs[1], vs[2])
           [] x.s = "pow" -> PowVal(vs[1], vs[2])
           [] x.s = "sqrt" -> PW(vs[1], CQ(<<1, 2>>))
           [] x.s \in SupportedFns -> FnVal(x.s, vs[1])
           [] OTHER -> Undef

\* ---- mechanism: expression_from_sympy ---------------------------------------------------------------------
IsMinusOne(x) == x.h \in {"int", "flt", "rat"} /\ x.p = R(-1)
IsHalf(x) == x.h \in {"rat", "flt"} /\ x.p = <<1, 2>>
\* sympy's own canonicalisation of expr * (-1) when expr = Mul(-1, rest...)
NegateMul(m) == LET rest == SubSeq(m.a, 2, Len(m.a)) IN IF Len(rest) = 1 THEN rest[1] ELSE Mul(rest)
RECURSIVE FromSympy(_)
FromSympy(x) ==
  CASE x.h = "sym" -> NSym(x.s)
    [] x.h \in {"int", "rat", "flt"} -> Num(x.p)
    [] x.h = "I" -> CNum
    [] x.h = "add" ->
         IF Len(x.a) = 2 /\ x.a[2].h = "mul" /\ IsMinusOne(x.a[2].a[1])
         THEN Call("sub", <<FromSympy(x.a[1]), FromSympy(NegateMul(x.a[2]))>>)
         ELSE Call("add", [i \in 1..Len(x.a) |-> FromSympy(x.a[i])])
    [] x.h = "mul" ->
         IF Len(x.a) = 2 /\ x.a[2].h = "pow" /\ IsMinusOne(x.a[2].a[2])
         THEN Call("div", <<FromSympy(x.a[1]), FromSympy(x.a[2].a[1])>>)
         ELSE Call("mul", [i \in 1..Len(x.a) |-> FromSympy(x.a[i])])
    [] x.h = "pow" ->
         IF IsMinusOne(x.a[2]) THEN Call("div", <<Num(R(1)), FromSympy(x.a[1])>>)
         ELSE IF IsHalf(x.a[2]) THEN Call("sqrt", <<FromSympy(x.a[1])>>)
         ELSE Call("pow", <<FromSympy(x.a[1]), FromSympy(x.a[2])>>)
    [] x.h = "fn" -> Call(x.s, <<FromSympy(x.a[1])>>)
RECURSIVE Supported(_)
Supported(x) == CASE x.h = "fn" -> x.s \in SupportedFns /\ Supported(x.a[1])
                  [] x.h \in {"add", "mul", "pow"} -> \A i \in 1..Len(x.a) : Supported(x.a[i])
                  [] x.h = "other" -> FALSE                          \* a head outside the grammar (recorded traces only)
                  [] OTHER -> TRUE

\* ---- enumeration of canonical-shaped trees ------------------------------------------------------------------
X == Sym("x")
Y == Sym("y")
PoolSeq == << X, Y, IntN(2), IntN(-1), RatN(1, 2), Flt(1, 2), ImI, Mul(<<IntN(-1), Y>>), Pow(Y, IntN(-1)), Pow(Y, RatN(1, 2)),
              Mul(<<IntN(-1), X, Y>>), Flt(-1, 1), Fn("sin", Y), Pow(X, IntN(-2)), Mul(<<IntN(2), Y>>), Fn("log", X), Add(<<X, IntN(2)>>),
              Mul(<<IntN(-2), Y>>), Fn("exp", Mul(<<IntN(-2), Y>>)), Fn("exp", Mul(<<IntN(-1), Y>>)), IntN(-2) >>
PoolAllSel == 1..Len(PoolSeq)
Pool == {PoolSeq[i] : i \in PoolSel}
Exps == {IntN(2), IntN(-1), IntN(-2), RatN(1, 2), Flt(1, 2), RatN(3, 2), Y, IntN(0)}
Init == t \in Pool /\ d = 0
Grow(n) == d < MaxGrow /\ t' = n /\ d' = d + 1
Next == \/ \E u \in Pool : Grow(Add(<<t, u>>)) \/ Grow(Add(<<u, t>>)) \/ Grow(Mul(<<t, u>>)) \/ Grow(Mul(<<u, t>>))
        \/ \E u \in Pool : \E v \in {X, IntN(2)} : Grow(Add(<<v, t, u>>)) \/ Grow(Mul(<<v, u, t>>))
        \/ \E e \in Exps : Grow(Pow(t, e))
        \/ \E u \in {X, IntN(2)} : Grow(Pow(u, t))
        \/ \E f \in SupportedFns \cup {"log"} : Grow(Fn(f, t))

\* ---- what the property promises (design level) -----------------------------------------------------------------
ValuePreserved == Supported(t) => \A i \in 1..Len(Assignments) : EvalN(FromSympy(t), Assignments[i]) = EvalT(t, Assignments[i])
UnsupportedRefused == Refused(FromSympy(t)) <=> ~Supported(t)
\* refutable variants of the special cases (TLC must find a counterexample for each): operands of `sub` swapped; reciprocal test on the FIRST factor
SubSwapped == LET bad(x) == IF x.h = "add" /\ Len(x.a) = 2 /\ x.a[2].h = "mul" /\ IsMinusOne(x.a[2].a[1])
                             THEN Call("sub", <<FromSympy(NegateMul(x.a[2])), FromSympy(x.a[1])>>) ELSE FromSympy(x) IN
              Supported(t) => EvalN(bad(t), Assignments[1]) = EvalT(t, Assignments[1])

\* ---- natural order of symbol names ---------------------------------------------------------------------------------
\* a name is a sequence of tokens: letter groups L(s) and digit groups D(n), alternating
L(str) == [dg |-> FALSE, n |-> 0, s |-> str]
D(num) == [dg |-> TRUE, n |-> num, s |-> ""]
NameSeq == << <<L("beta_"), D(2)>>, <<L("beta_"), D(10)>>, <<L("theta_"), D(1)>>, <<L("theta_"), D(2)>>, <<L("theta_"), D(1), L("_"), D(10)>>,
              <<L("theta_"), D(1), L("_"), D(2)>>, <<L("beta_"), D(10), L("_"), D(1)>>, <<L("x")>>, <<L("x"), D(3), L("y"), D(12)>>, <<L("x"), D(3), L("y"), D(5)>>,
              <<D(7), L("a")>>, <<D(12)>>, <<L("beta_"), D(10), L("_"), D(10)>>, <<L("theta_"), D(10), L("_"), D(2)>>, <<D(7), L("a"), D(100)>>, <<D(7), L("a"), D(20)>>,
              \* other separators in front of the digits: a hyphen is not a sign, a bracket not part of the number
              <<L("beta-"), D(2)>>, <<L("beta-"), D(10)>>, <<L("q["), D(2), L("]")>>, <<L("q["), D(10), L("]")>>, <<L("p."), D(3)>>, <<L("p."), D(12)>>,
              <<L("w-"), D(3), L("-"), D(20)>>, <<L("w-"), D(3), L("-"), D(4)>> >>
\* the key (re.split on digit groups): letter groups at odd positions (possibly ""), numbers at even positions
KeyOf(name) == (IF name[1].dg THEN <<L("")>> ELSE <<>>) \o name \o (IF name[Len(name)].dg THEN <<L("")>> ELSE <<>>)
KeysAlternate == \A k \in 1..Len(NameSeq) : LET key == KeyOf(NameSeq[k]) IN \A i \in 1..Len(key) : key[i].dg = (i % 2 = 0)
ASSUME KeysAlternate          \* hence two keys never compare a number with a string: keys are always comparable
\* names with the same letter groups are ordered by their numbers, numerically and lexicographically
SameShape(a, b) == Len(a) = Len(b) /\ \A i \in 1..Len(a) : a[i].dg = b[i].dg /\ (~a[i].dg => a[i].s = b[i].s)
RECURSIVE NumLess(_, _)
NumLess(a, b) == IF a = <<>> THEN FALSE
                 ELSE IF Head(a).dg /\ Head(a).n # Head(b).n THEN Head(a).n < Head(b).n ELSE NumLess(Tail(a), Tail(b))
OrderPairs == [i \in 1..Len(NameSeq) |-> [j \in 1..Len(NameSeq) |->
     IF SameShape(NameSeq[i], NameSeq[j]) THEN (IF NumLess(NameSeq[i], NameSeq[j]) THEN "lt" ELSE IF NameSeq[i] = NameSeq[j] THEN "eq" ELSE "gt") ELSE "na"]]
EmitNames == IF ~Emitting \/ d # 0 \/ t # X THEN TRUE ELSE PrintT(ToJson([names |-> NameSeq, order |-> OrderPairs]))

TreeJ(x) == x
Emit == IF ~Emitting THEN TRUE ELSE PrintT(ToJson([tree |-> t', neutral |-> FromSympy(t'), supported |-> Supported(t')]))
EmitInit == IF ~Emitting \/ d # 0 THEN TRUE ELSE PrintT(ToJson([tree |-> t, neutral |-> FromSympy(t), supported |-> Supported(t)]))
=============================================================================
