------------------------------ MODULE Laurent -------------------------------
(***************************************************************************)
(* Laurent polynomials in three unit-modulus variables (z1,z2,z3) with     *)
(* coefficients in Cyclo, and matrices of such polynomials.                *)
(* A scalar polynomial is a function from a finite set of exponent triples *)
(* <<e1,e2,e3>> to NON-ZERO ring elements (normal form), so equality of    *)
(* polynomials is equality of TLA+ values.  Monomials are linearly         *)
(* independent as functions on the torus, hence an identity between such   *)
(* polynomials IS the identity for all real angles (z_j = e^{i angle_j/2}).*)
(***************************************************************************)
EXTENDS Mat

E0 == <<0,0,0>>
EAdd(a, b) == <<a[1] + b[1], a[2] + b[2], a[3] + b[3]>>
ENeg(a) == <<-a[1], -a[2], -a[3]>>

SPGet(f, e) == IF e \in DOMAIN f THEN f[e] ELSE CZero
SPNorm(f) == TLCEval([e \in {x \in DOMAIN f : ~CIsZero(f[x])} |-> f[e]])
SPZero == SPNorm([e \in {E0} |-> CZero])
SPConst(c) == SPNorm([e \in {E0} |-> c])
SPMono(e, c) == SPNorm([x \in {e} |-> c])
SPOne == SPConst(COne)
SPAdd(f, g) == SPNorm([e \in (DOMAIN f) \cup (DOMAIN g) |-> CAdd(SPGet(f, e), SPGet(g, e))])
SPScale(c, f) == SPNorm([e \in DOMAIN f |-> CMul(c, f[e])])
SPNeg(f) == SPScale(CMinus, f)
RECURSIVE SPConv(_, _, _, _)
SPConv(f, g, e, S) ==        \* sum over a in S of f[a] * g[e - a]
  IF S = {} THEN CZero
  ELSE LET a == CHOOSE x \in S : TRUE IN CAdd(CMul(f[a], SPGet(g, EAdd(e, ENeg(a)))), SPConv(f, g, e, S \ {a}))
SPMul(f, g) == SPNorm([e \in {EAdd(a, b) : a \in DOMAIN f, b \in DOMAIN g} |-> SPConv(f, g, e, DOMAIN f)])
\* complex conjugate on the torus: conj(z^e) = z^-e
SPConj(f) == TLCEval([e \in {ENeg(x) : x \in DOMAIN f} |-> CConj(f[ENeg(e)])])
RECURSIVE SPSumOver(_, _)
SPSumOver(f, S) == IF S = {} THEN CZero ELSE LET a == CHOOSE x \in S : TRUE IN CAdd(f[a], SPSumOver(f, S \ {a}))
\* substitute monomials: exponent e becomes h(e)   (h linear, e.g. z1 -> z1*z2)
SPSubst(f, h(_)) == SPNorm([e \in {h(x) : x \in DOMAIN f} |-> SPSumOver(f, {x \in DOMAIN f : h(x) = e})])
\* z1 -> z1*z2  ("angle a + angle b"),  z1 -> z2  (the same gate at a second, independent angle)
ToProduct12(e) == <<e[1], e[1] + e[2], e[3]>>
Var1To2(e) == <<0, e[1] + e[2], e[3]>>
\* evaluate at z_j = w^(k_j)  (angle_j = k_j * pi/2):  a ring element
SPEvalW(f, k) == SPSumOver([e \in DOMAIN f |-> CMul(f[e], COmega(e[1]*k[1] + e[2]*k[2] + e[3]*k[3]))], DOMAIN f)

\* cos and sin of half the j-th angle:  z_j = e^{i angle_j/2}
Unit(j) == [i \in 1..3 |-> IF i = j THEN 1 ELSE 0]
Z(j, n) == SPMono([i \in 1..3 |-> IF i = j THEN n ELSE 0], COne)        \* z_j^n
CosH(j) == SPAdd(SPScale(CHalf, Z(j, 1)), SPScale(CHalf, Z(j, -1)))
SinH(j) == SPAdd(SPScale(CMul(CHalf, CNegI), Z(j, 1)), SPScale(CMul(CHalf, CI), Z(j, -1)))
ISP == SPConst(CI)

\* ---- matrices of polynomials -------------------------------------------------------------------
RECURSIVE SPSumSeq(_)
SPSumSeq(s) == IF s = <<>> THEN SPZero ELSE SPAdd(Head(s), SPSumSeq(Tail(s)))
PMId(n) ==  TLCEval([r \in 1..n |-> TLCEval([c \in 1..n |-> IF r = c THEN SPOne ELSE SPZero])])
PMConst(M) ==  TLCEval([r \in 1..Len(M) |-> TLCEval([c \in 1..Len(M[1]) |-> SPConst(M[r][c])])])
PMMul(A, B) ==  TLCEval([r \in 1..Len(A) |-> TLCEval([c \in 1..Len(B[1]) |-> SPSumSeq([j \in 1..Len(B) |-> SPMul(A[r][j], B[j][c])])])])
PMAdj(A) ==  TLCEval([r \in 1..Len(A[1]) |-> TLCEval([c \in 1..Len(A) |-> SPConj(A[c][r])])])
PMScale(p, A) ==  TLCEval([r \in 1..Len(A) |-> TLCEval([c \in 1..Len(A[1]) |-> SPMul(p, A[r][c])])])
PMAdd(A, B) ==  TLCEval([r \in 1..Len(A) |-> TLCEval([c \in 1..Len(A[1]) |-> SPAdd(A[r][c], B[r][c])])])
PMSubst(A, h(_)) ==  TLCEval([r \in 1..Len(A) |-> TLCEval([c \in 1..Len(A[1]) |-> SPSubst(A[r][c], h)])])
PMEvalW(A, k) ==  TLCEval([r \in 1..Len(A) |-> TLCEval([c \in 1..Len(A[1]) |-> SPEvalW(A[r][c], k)])])
PMKron(A, B) == LET n == Len(B) m == Len(B[1]) IN TLCEval([r \in 1..(Len(A) * n) |-> TLCEval([c \in 1..(Len(A[1]) * m) |->
        SPMul(A[((r-1) \div n) + 1][((c-1) \div m) + 1], B[((r-1) % n) + 1][((c-1) % m) + 1])])])
PMBlockId(d, A) == LET n == Len(A) IN TLCEval([r \in 1..(d + n) |-> TLCEval([c \in 1..(d + n) |->
        IF r <= d \/ c <= d THEN (IF r = c THEN SPOne ELSE SPZero) ELSE A[r - d][c - d]])])
PMLift(G, qs, n) ==  TLCEval([r \in 1..2^n |-> TLCEval([c \in 1..2^n |->
     IF AgreeOutside(r-1, c-1, qs, n) THEN G[SubIdx(r-1, qs, n) + 1][SubIdx(c-1, qs, n) + 1] ELSE SPZero])])
PMIsUnitary(A) == PMMul(A, PMAdj(A)) = PMId(Len(A))
\* JSON-friendly form: every entry a sequence of [e, c]
SPList(f) == LET RECURSIVE L(_)
                 L(S) == IF S = {} THEN <<>> ELSE LET a == CHOOSE x \in S : TRUE IN <<[e |-> a, c |-> f[a]]>> \o L(S \ {a})
             IN L(DOMAIN f)
PMList(A) == [r \in 1..Len(A) |-> [c \in 1..Len(A[1]) |-> SPList(A[r][c])]]
=============================================================================
