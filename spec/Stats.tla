-------------------------------- MODULE Stats -------------------------------
(***************************************************************************)
(* C10 - statistics computed from measurements are the exact sample        *)
(* statistics.  Shots: a sequence of bit tuples of width W.  Ising         *)
(* operator: a sequence of terms [sup, c] (sup a set of qubits - empty =   *)
(* constant term - c a rational coefficient).                              *)
(*   definitions:  sample means of +/-1 eigenvalues and of their products  *)
(*   mechanism:    parity of marked positions, correlation through the     *)
(*                 SYMMETRIC DIFFERENCE of supports, diagonal = c^2        *)
(***************************************************************************)
EXTENDS Rat, FiniteSets, TLC, Json

CONSTANTS W, MaxShots, Operators, Emitting
VARIABLES shots, op
vars == <<shots, op>>

Qubits == 0..(W - 1)
Tuples == [1..W -> {0, 1}]
Ones(S, t) == Cardinality({q \in S : t[q + 1] = 1})
Eig(S, t) == IF Ones(S, t) % 2 = 0 THEN 1 ELSE -1                       \* eigenvalue of prod_{q in S} Z_q on |t>
SymDiff(S, T) == (S \ T) \cup (T \ S)
N == Len(shots)

\* the lemma the mechanism rests on (with `union` or `intersection` it is false)
ProductOfEigenvaluesIsSymDiff == \A t \in Tuples : \A S \in SUBSET Qubits : \A T \in SUBSET Qubits : Eig(S, t) * Eig(T, t) = Eig(SymDiff(S, T), t)
ASSUME ProductOfEigenvaluesIsSymDiff

\* ---- definitions -----------------------------------------------------------------------------------------
RECURSIVE ISum(_)
ISum(s) == IF s = <<>> THEN 0 ELSE Head(s) + ISum(Tail(s))
MeanEig(S) == RNorm(ISum([k \in 1..N |-> Eig(S, shots[k])]), N)
MeanProd(S, T) == RNorm(ISum([k \in 1..N |-> Eig(S, shots[k]) * Eig(T, shots[k])]), N)
DefMean(i) == RMul(op[i].c, MeanEig(op[i].sup))
DefCorr(i, j) == RMul(RMul(op[i].c, op[j].c), MeanProd(op[i].sup, op[j].sup))
DefCov(i, j, den) == RDiv(RSub(DefCorr(i, j), RMul(DefMean(i), DefMean(j))), R(den))
\* ---- mechanism (Measurements.get_expectation_values) --------------------------------------------------------
ParityEven(S, t) == (ISum([q \in 1..W |-> IF (q - 1) \in S THEN t[q] ELSE 0]) + 1) % 2          \* check_parity_of_vector
FromFrequencies(S) == RNorm(ISum([k \in 1..N |-> ParityEven(S, shots[k]) * 2 - 1]), N)
MechMean(i) == RMul(op[i].c, FromFrequencies(op[i].sup))
MechCorr(i, j) == IF i = j THEN RMul(op[i].c, op[i].c)
                  ELSE RMul(RMul(op[i].c, op[j].c), FromFrequencies(SymDiff(op[i].sup, op[j].sup)))
MechCov(i, j, den) == RDiv(RSub(MechCorr(i, j), RMul(MechMean(i), MechMean(j))), R(den))
\* counts, distribution, parities
Count(t) == Cardinality({k \in 1..N : shots[k] = t})
Seen == {shots[k] : k \in 1..N}
ParityTally(S) == <<Cardinality({k \in 1..N : Eig(S, shots[k]) = 1}), Cardinality({k \in 1..N : Eig(S, shots[k]) = -1})>>
\* tallies of a PAIR of terms: shots on which the two terms have equal / different parity (definition), and the
\* mechanism |parity1 - parity2| of get_parities_from_measurements; both are the tally of the product term
PairTallyDef(S, T) == <<Cardinality({k \in 1..N : Eig(S, shots[k]) = Eig(T, shots[k])}), Cardinality({k \in 1..N : Eig(S, shots[k]) # Eig(T, shots[k])})>>

Init == shots = <<>> /\ op \in Operators
AddShot(t) == Len(shots) < MaxShots /\ shots' = Append(shots, t) /\ UNCHANGED op
Next == \E t \in Tuples : AddShot(t)

Idx == 1..Len(op)
MechanismEqualsDefinition == N >= 1 =>
   /\ \A i \in Idx : MechMean(i) = DefMean(i)
   /\ \A i \in Idx : \A j \in Idx : MechCorr(i, j) = DefCorr(i, j)
   /\ \A i \in Idx : \A j \in Idx : MechCov(i, j, N) = DefCov(i, j, N)
   /\ N >= 2 => \A i \in Idx : \A j \in Idx : MechCov(i, j, N - 1) = DefCov(i, j, N - 1)
ConstantContributesCoefficient == N >= 1 => \A i \in Idx : op[i].sup = {} => DefMean(i) = op[i].c
CountsSumToShots == ISum([k \in 1..N |-> 1]) = N /\ (N >= 1 => RSum([k \in 1..N |-> RNorm(1, N)]) = R(1))
TalliesSumToShots == \A S \in SUBSET Qubits : ParityTally(S)[1] + ParityTally(S)[2] = N
PairTallyMech(S, T) == LET diff == [k \in 1..N |-> LET d == ParityEven(S, shots[k]) - ParityEven(T, shots[k]) IN IF d < 0 THEN -d ELSE d] IN
   <<ISum([k \in 1..N |-> 1 - diff[k]]), ISum(diff)>>
PairTalliesAreProductTallies == \A S \in SUBSET Qubits : \A T \in SUBSET Qubits :
   /\ PairTallyMech(S, T) = PairTallyDef(S, T)
   /\ PairTallyDef(S, T) = ParityTally(SymDiff(S, T))                      \* NOT the union of the supports
   /\ PairTallyDef(S, T) = PairTallyDef(T, S) /\ PairTallyDef(S, S) = <<N, 0>>
MeanFromTallies == N >= 1 => \A S \in SUBSET Qubits : MeanEig(S) = RNorm(ParityTally(S)[1] - ParityTally(S)[2], N)

\* complementing every outcome multiplies the eigenvalue of a term by (-1)^|support|: the statistics of the complemented
\* histogram are determined by those of the histogram (used when one histogram buffer is refilled in place)
Compl(t) == [q \in 1..W |-> 1 - t[q]]
ComplementLaw == \A S \in SUBSET Qubits : \A k \in 1..N :
   Eig(S, Compl(shots[k])) = (IF Cardinality(S) % 2 = 0 THEN 1 ELSE -1) * Eig(S, shots[k])

\* ---- expectation values recomputed from parity tallies (get_expectation_values_from_parities) -------------------
\* value = 2*N0/N - 1; squared precision = 4p(1-p)/N when N >= 100 and 1/10 <= p <= 9/10, else the bound 1/N
ValueFromTally(t) == RNorm(t[1] - t[2], t[1] + t[2])
PrecSqFromTally(t) == LET nn == t[1] + t[2] p == RNorm(t[1], nn) IN
   IF nn >= 100 /\ RLeq(<<1, 10>>, p) /\ RLeq(p, <<9, 10>>) THEN RDiv(RMul(R(4), RMul(p, RSub(R(1), p))), R(nn)) ELSE RNorm(1, nn)
TallyValueIsMean == N >= 1 => \A S \in SUBSET Qubits : ValueFromTally(ParityTally(S)) = MeanEig(S)
\* the variance estimate never exceeds the bound used for few samples (4p(1-p) <= 1), for tallies scaled to many samples too
Scaled(t, k) == <<k * t[1], k * t[2]>>
PrecisionBounded == N >= 1 => \A S \in SUBSET Qubits : \A k \in {1, 60} : RLeq(PrecSqFromTally(Scaled(ParityTally(S), k)), RNorm(1, k * N))

\* ---- operator pools --------------------------------------------------------------------------------------------
Tm(S, c) == [sup |-> S, c |-> c]
Coefs == << <<R(1), R(-1)>>, <<R(2), <<1, 2>>>>, <<R(3), R(2)>> >>
OperatorsPairs == { <<Tm(S, Coefs[k][1]), Tm(T, Coefs[k][2])>> : S \in SUBSET Qubits, T \in SUBSET Qubits, k \in 1..3 }
OperatorsSmall == { <<Tm(S, Coefs[k][1]), Tm(T, Coefs[k][2])>> : S \in {{}, {0}, {W - 1}, Qubits}, T \in {{0}, {0, W - 1}, {}}, k \in 1..2 }
                  \cup { <<Tm({0}, R(2)), Tm({W - 1}, R(-1)), Tm({0, W - 1}, <<1, 2>>)>>,
                         <<Tm({0}, <<1, 8000>>), Tm({W - 1}, <<-1, 8000>>), Tm({0}, <<1, 8000>>)>> }    \* small coefficients: statistics of order 1e-9 are still exact

SupSeq(S) == LET RECURSIVE L(_) L(T) == IF T = {} THEN <<>> ELSE LET a == CHOOSE x \in T : \A y \in T : x <= y IN <<a>> \o L(T \ {a}) IN L(S)
SeenSeq == LET RECURSIVE L(_) L(T) == IF T = {} THEN <<>> ELSE LET a == CHOOSE x \in T : TRUE IN <<a>> \o L(T \ {a}) IN L(Seen)
Emit == IF ~Emitting THEN TRUE ELSE LET sh == shots' nn == Len(shots') IN
  PrintT(ToJson([shots |-> sh, op |-> [i \in Idx |-> [sup |-> SupSeq(op[i].sup), c |-> op[i].c]]]))
\* the statistics are exported from the state they belong to
EmitStats == IF ~Emitting \/ N = 0 THEN TRUE ELSE
  PrintT(ToJson([stats |-> shots, op |-> [i \in Idx |-> [sup |-> SupSeq(op[i].sup), c |-> op[i].c]],
                 means |-> [i \in Idx |-> DefMean(i)],
                 corr |-> [i \in Idx |-> [j \in Idx |-> DefCorr(i, j)]],
                 cov |-> [i \in Idx |-> [j \in Idx |-> DefCov(i, j, N)]],
                 covb |-> IF N >= 2 THEN [i \in Idx |-> [j \in Idx |-> DefCov(i, j, N - 1)]] ELSE <<>>,
                 counts |-> [k \in 1..Len(SeenSeq) |-> [t |-> SeenSeq[k], n |-> Count(SeenSeq[k])]],
                 tallies |-> [i \in Idx |-> ParityTally(op[i].sup)],
                 pairtallies |-> [i \in Idx |-> [j \in Idx |-> PairTallyDef(op[i].sup, op[j].sup)]],
                 fromtally |-> [i \in Idx |-> [v |-> ValueFromTally(ParityTally(op[i].sup)), p1 |-> PrecSqFromTally(ParityTally(op[i].sup)),
                                                p60 |-> PrecSqFromTally(Scaled(ParityTally(op[i].sup), 60))]]]))
=============================================================================
