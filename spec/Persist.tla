------------------------------- MODULE Persist -------------------------------
(***************************************************************************)
(* C11 - operators and result artefacts survive dict, file and text round  *)
(* trips.  Every artefact kind has a transcription of its to-document and  *)
(* from-document mechanisms (which keys are optional, the {real[, imag]}   *)
(* array dictionaries with the TRUTHINESS test on "imag" / "correlations", *)
(* tuples stored as lists and restored) and a value equality.              *)
(* Numbers are small integers standing for distinct floats; a coefficient  *)
(* is [cls, re, im] with cls in int / float / complex.                     *)
(* Operator text: Repr produces tokens (coefficient literal, then Pauli    *)
(* factors or the bare "I" of a constant term; "0*I" for the empty sum);   *)
(* Parse transcribes the parser (AcceptBareI: as repaired; FALSE: as found)*)
(***************************************************************************)
EXTENDS Integers, Sequences, FiniteSets, TLC, Json

CONSTANTS AcceptBareI, OptionalFrameMeas, Emitting
VARIABLES art, via
vars == <<art, via>>

\* ---- arrays <-> {real[, imag]} ---------------------------------------------------------------------------
Arr(cx, items) == [cx |-> cx, items |-> items]                     \* items: sequence of <<re, im>>; rows of a matrix are nested Arrs in `frames`
Reals(a) == [i \in 1..Len(a.items) |-> a.items[i][1]]
Imags(a) == [i \in 1..Len(a.items) |-> a.items[i][2]]
ArrToDict(a) == [real |-> Reals(a), hasImag |-> a.cx, imag |-> IF a.cx THEN Imags(a) ELSE <<>>]
ArrFromDict(dd) == IF dd.hasImag /\ dd.imag # <<>>                  \* dictionary.get("imag") is truthy: present and non-empty
                   THEN Arr(TRUE, [i \in 1..Len(dd.real) |-> <<dd.real[i], dd.imag[i]>>])
                   ELSE Arr(FALSE, [i \in 1..Len(dd.real) |-> <<dd.real[i], 0>>])
ArrEq(a, b) == a.items = b.items                                     \* equality by value (a real array equals the complex array with zero imaginary parts)
ArrRoundTrip(a) == ArrEq(ArrFromDict(ArrToDict(a)), a)
Arrays == { Arr(FALSE, <<>>), Arr(TRUE, <<>>), Arr(FALSE, <<<<1, 0>>, <<-2, 0>>>>), Arr(TRUE, <<<<1, 3>>, <<0, -1>>>>), Arr(TRUE, <<<<1, 0>>, <<2, 0>>>>),
            Arr(FALSE, <<<<0, 0>>>>), Arr(TRUE, <<<<0, 5>>>>) }
ASSUME ArraysSurvive == \A a \in Arrays : ArrRoundTrip(a)

\* ---- optional lists of frames (None and [] are one abstract value: "no frames") ------------------------------
Frames(present, fs) == [present |-> present, fs |-> fs]
FramesToDoc(f) == IF f.present /\ f.fs # <<>> THEN [has |-> TRUE, ds |-> [i \in 1..Len(f.fs) |-> ArrToDict(f.fs[i])]] ELSE [has |-> FALSE, ds |-> <<>>]
FramesFromDoc(dd) == IF dd.has /\ dd.ds # <<>> THEN Frames(TRUE, [i \in 1..Len(dd.ds) |-> ArrFromDict(dd.ds[i])]) ELSE Frames(FALSE, <<>>)
FramesEq(f, g) == LET nf == IF f.present THEN f.fs ELSE <<>> ng == IF g.present THEN g.fs ELSE <<>> IN
                  Len(nf) = Len(ng) /\ \A i \in 1..Len(nf) : ArrEq(nf[i], ng[i])
FrameChoices == { Frames(FALSE, <<>>), Frames(TRUE, <<>>), Frames(TRUE, <<Arr(FALSE, <<<<1, 0>>, <<0, 0>>>>)>>),
                  Frames(TRUE, <<Arr(TRUE, <<<<1, 2>>, <<0, -1>>>>), Arr(FALSE, <<<<3, 0>>, <<4, 0>>>>)>>) }

\* ---- operators -------------------------------------------------------------------------------------------------------
Coef(cls, re, im) == [cls |-> cls, re |-> re, im |-> im]
Term(ops, c) == [ops |-> ops, c |-> c]                              \* ops: set of <<qubit, letter>>
OpKey(tm) == tm.ops
\* canonical form = the matrix (Pauli strings are linearly independent): ops-set |-> summed coefficient, zero sums dropped
KeysOf(op) == {op[i].ops : i \in 1..Len(op)}
RECURSIVE SumRe(_, _, _), SumIm(_, _, _)
SumRe(op, k, i) == IF i > Len(op) THEN 0 ELSE (IF op[i].ops = k THEN op[i].c.re ELSE 0) + SumRe(op, k, i + 1)
SumIm(op, k, i) == IF i > Len(op) THEN 0 ELSE (IF op[i].ops = k THEN op[i].c.im ELSE 0) + SumIm(op, k, i + 1)
Canon(op) == [k \in {kk \in KeysOf(op) : SumRe(op, kk, 1) # 0 \/ SumIm(op, kk, 1) # 0} |-> <<SumRe(op, k, 1), SumIm(op, k, 1)>>]
IsSimplified(op) == /\ \A i, j \in 1..Len(op) : i # j => op[i].ops # op[j].ops
                    /\ \A i \in 1..Len(op) : op[i].c.re # 0 \/ op[i].c.im # 0
\* to dict: complex coefficients carry "imag", others do not; from dict: real + i*imag when imag is truthy (non-zero); terms are ADDED one by one (like terms merge)
CoefToDoc(c) == [real |-> c.re, hasImag |-> c.cls = "complex", imag |-> IF c.cls = "complex" THEN c.im ELSE 0]
CoefFromDoc(dd) == IF dd.hasImag /\ dd.imag # 0 THEN Coef("complex", dd.real, dd.imag) ELSE Coef("float", dd.real, 0)
RECURSIVE Merge(_, _)
Merge(acc, tm) ==             \* PauliSum += term: merge with the like term (first position), drop it when the sum vanishes
  IF \E i \in 1..Len(acc) : acc[i].ops = tm.ops
  THEN LET i == CHOOSE j \in 1..Len(acc) : acc[j].ops = tm.ops
           re == acc[i].c.re + tm.c.re im == acc[i].c.im + tm.c.im IN
       IF re = 0 /\ im = 0 THEN SubSeq(acc, 1, i - 1) \o SubSeq(acc, i + 1, Len(acc))
       ELSE [acc EXCEPT ![i] = Term(tm.ops, Coef(IF im # 0 THEN "complex" ELSE "float", re, im))]
  ELSE IF tm.c.re = 0 /\ tm.c.im = 0 THEN acc ELSE Append(acc, tm)
RECURSIVE FoldMerge(_, _)
FoldMerge(acc, ts) == IF ts = <<>> THEN acc ELSE FoldMerge(Merge(acc, Head(ts)), Tail(ts))
OpDictRoundTrip(op) == FoldMerge(<<>>, [i \in 1..Len(op) |-> Term(op[i].ops, CoefFromDoc(CoefToDoc(op[i].c)))])
SameTerms(a, b) == Len(a) = Len(b) /\ \A i \in 1..Len(a) : a[i].ops = b[i].ops /\ a[i].c.re = b[i].c.re /\ a[i].c.im = b[i].c.im
\* text
BareI == <<-1, "I">>
ReprTerm(tm) == [coef |-> tm.c, factors |-> IF tm.ops = {} THEN {BareI} ELSE tm.ops]       \* a constant term prints the bare token I
Repr(op) == IF op = <<>> THEN <<ReprTerm(Term({}, Coef("int", 0, 0)))>> ELSE [i \in 1..Len(op) |-> ReprTerm(op[i])]
ParseTerm(tt) == IF tt.factors = {BareI} THEN (IF AcceptBareI THEN [ok |-> TRUE, tm |-> Term({}, tt.coef)] ELSE [ok |-> FALSE, tm |-> Term({}, tt.coef)])
                 ELSE [ok |-> TRUE, tm |-> Term(tt.factors, tt.coef)]
Parse(text) == LET ps == [i \in 1..Len(text) |-> ParseTerm(text[i])] IN
               [ok |-> \A i \in 1..Len(ps) : ps[i].ok, op |-> [i \in 1..Len(ps) |-> ps[i].tm]]
OpA == {<<0, "X">>, <<1, "Z">>}
OpB == {<<12, "Y">>}
Operators == { <<>>, <<Term(OpA, Coef("float", 2, 0))>>, <<Term({}, Coef("float", 2, 0))>>, <<Term(OpA, Coef("int", -3, 0)), Term(OpB, Coef("complex", 1, 2))>>,
               <<Term(OpB, Coef("complex", 0, -2)), Term({}, Coef("complex", 1, -1)), Term(OpA, Coef("float", 1, 0))>>,
               <<Term(OpA, Coef("float", 1, 0)), Term(OpB, Coef("float", 2, 0)), Term(OpA, Coef("complex", -1, 3))>>,       \* like terms
               <<Term(OpA, Coef("float", 1, 0)), Term(OpA, Coef("float", -1, 0))>>,                                          \* cancels
               <<Term(OpB, Coef("complex", 5, 0))>>,                                                                          \* complex type, zero imaginary part
               <<Term(OpB, Coef("float", 0, 0)), Term(OpA, Coef("int", 4, 0))>> }                                              \* a zero coefficient

\* ---- artefacts ------------------------------------------------------------------------------------------------------------
A(kind, v) == [kind |-> kind, v |-> v]
ExpVals == {[values |-> a, corr |-> c, cov |-> k] : a \in {Arr(FALSE, <<<<1, 0>>, <<-2, 0>>>>), Arr(TRUE, <<<<1, 3>>, <<0, -1>>>>), Arr(FALSE, <<>>)}, c \in FrameChoices, k \in FrameChoices}
Parities == {[values |-> Arr(FALSE, <<<<3, 0>>, <<1, 0>>>>), corr |-> c] : c \in FrameChoices}
ValEsts == {[value |-> 5, hasPrec |-> hp, prec |-> IF hp THEN 1 ELSE 0] : hp \in BOOLEAN}
MeasSets == { <<>>, <<<<0, 1>>>>, <<<<0, 1>>, <<1, 1>>, <<0, 1>>>>, <<<<1>>, <<0>>>> }
Layouts == { <<>>, <<<< <<0, 1>>, <<2, 3>> >>, << <<1, 2>> >>>>, <<<<>>>> }
Conns == { <<>>, << <<0, 1>>, <<1, 2>> >> }
Nmeas == {[k |-> 7, nterms |-> 3, hasFrames |-> hf, frames |-> IF hf THEN Arr(FALSE, <<<<2, 0>>, <<5, 0>>>>) ELSE Arr(FALSE, <<>>)] : hf \in BOOLEAN}
Artefacts == {A("operator", o) : o \in Operators} \cup {A("expvals", e) : e \in ExpVals} \cup {A("parities", p) : p \in Parities}
        \cup {A("valest", x) : x \in ValEsts} \cup {A("meas", m) : m \in MeasSets} \cup {A("layers", l) : l \in Layouts}
        \cup {A("connectivity", cc) : cc \in Conns} \cup {A("nmeas", nn) : nn \in Nmeas} \cup {A("array", a) : a \in Arrays}
Vias(kind) == IF kind = "operator" THEN {"dict", "json", "path", "handle", "set", "text"} ELSE IF kind = "array" THEN {"dict"} ELSE IF kind = "nmeas" THEN {"path"} ELSE {"path", "handle"}
Init == art \in Artefacts /\ via = "none"
Next == via = "none" /\ \E w \in Vias(art.kind) : via' = w /\ UNCHANGED art

\* ---- what the property promises ----------------------------------------------------------------------------------------------
LoadAfterSaveEqual ==
  CASE art.kind = "expvals" -> /\ ArrRoundTrip(art.v.values) /\ FramesEq(FramesFromDoc(FramesToDoc(art.v.corr)), art.v.corr) /\ FramesEq(FramesFromDoc(FramesToDoc(art.v.cov)), art.v.cov)
    [] art.kind = "parities" -> ArrRoundTrip(art.v.values) /\ FramesEq(FramesFromDoc(FramesToDoc(art.v.corr)), art.v.corr)
    [] art.kind = "array" -> ArrRoundTrip(art.v)
    [] art.kind = "nmeas" -> (art.v.hasFrames \/ OptionalFrameMeas) /\ ArrRoundTrip(art.v.frames)        \* a save without frames must be loadable
    [] OTHER -> TRUE                                                    \* lists of lists: tuples <-> lists is the identity on the abstract value
OpDictRoundTripDenotes == art.kind = "operator" => Canon(OpDictRoundTrip(art.v)) = Canon(art.v)
OpDictRoundTripExact == (art.kind = "operator" /\ IsSimplified(art.v)) => SameTerms(OpDictRoundTrip(art.v), art.v)
ReprParseDenotes == art.kind = "operator" => LET r == Parse(Repr(art.v)) IN r.ok /\ Canon(r.op) = Canon(art.v)

SetSeq2(S) == LET RECURSIVE L(_) L(T) == IF T = {} THEN <<>> ELSE LET x == CHOOSE y \in T : TRUE IN <<x>> \o L(T \ {x}) IN L(S)
OpJ(op) == [i \in 1..Len(op) |-> [ops |-> SetSeq2(op[i].ops), cls |-> op[i].c.cls, re |-> op[i].c.re, im |-> op[i].c.im]]
ArtJ == IF art.kind = "operator" THEN [kind |-> art.kind, v |-> OpJ(art.v), simplified |-> IsSimplified(art.v), back |-> OpJ(OpDictRoundTrip(art.v))]
        ELSE [kind |-> art.kind, v |-> art.v, simplified |-> TRUE, back |-> <<>>]
Emit == IF ~Emitting THEN TRUE ELSE PrintT(ToJson([via |-> via', art |-> ArtJ]))
=============================================================================
