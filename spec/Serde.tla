-------------------------------- MODULE Serde --------------------------------
(***************************************************************************)
(* C05 - circuits survive JSON serialisation unchanged in structure and    *)
(* meaning.  A gate is a tree [k, name, ps, n, e, a]:                      *)
(*   k = "builtin" / "custom": a base gate `name` with parameters ps       *)
(*   k = "ctrl" (n controls) / "dag" / "pow" (exponent e) / "exp": wrapper *)
(*       around a[1]                                                       *)
(* Gate NAMES are token sequences (wrapped name + "_Dagger", + "^" e,      *)
(* "Control", "Exponential"); the deserialiser is driven by the name only. *)
(* A parameter is abstract: an identifier plus the set of symbols it       *)
(* mentions; the textual layer (str / sympify with a symbol table) is      *)
(* modelled by what it can resolve: a symbol name reads back as that       *)
(* symbol iff it is in the table handed to the parser, or it is a plain    *)
(* identifier sympy does not know (gamma, beta, S, ... and name[index] are *)
(* NOT plain).                                                             *)
(*   mechanism:  ToDict / CollectDefs (Deep: wrapped custom gates are      *)
(*               looked into; not Deep: as found) / FromDict with the      *)
(*               dispatch ORDER built-in name -> wrapper patterns ->       *)
(*               custom definitions, and the custom instance's symbol      *)
(*               table (FullTable: formals + serialised free symbols for   *)
(*               every parameter; not FullTable: as found - formals for the*)
(*               first parameter only, nothing for the others)             *)
(***************************************************************************)
EXTENDS Integers, Sequences, FiniteSets, TLC, Json

CONSTANTS MaxOps, MaxWrap, Bases, Deep, FullTable, Emitting,
          CtrlOnly          \* restrict the wrappers to the two controlled ones (deep nestings of ONE wrapper kind, several per circuit)
VARIABLES circ, n
vars == <<circ, n>>

\* ---- parameters --------------------------------------------------------------------------------------
Par(id, syms) == [id |-> id, syms |-> syms]
PInt == Par("int", {})
PFloat == Par("float", {})
PTheta == Par("theta", {"theta"})
PGamma == Par("gamma", {"gamma"})                     \* a symbol whose name sympy knows as a function
PIdx == Par("x[3]", {"x[3]"})                         \* indexed symbol
PExpr == Par("0.25*theta + beta", {"theta", "beta"})  \* float coefficient, one shadowing name
PMix == Par("x[3] + 2*y", {"x[3]", "y"})              \* indexed and plain symbols with different base names
\* element names of two parameter vectors of which one is a textual suffix of the other (eta / theta, a / alpha); a symbol called
\* pi next to the constant pi (both print as "pi"); an indexed w[2] next to a plain w_2; a negation, a rational and a power
PEta1 == Par("eta[1]", {"eta[1]"})
PTheta1 == Par("theta[1]", {"theta[1]"})
PAlphaA == Par("a[0]*alpha[0]", {"a[0]", "alpha[0]"})
PPiConst == Par("pi", {})
PPiSym == Par("Symbol(pi)", {"pi"})
PW2Idx == Par("w[2]", {"w[2]"})
PW2Plain == Par("w_2", {"w_2"})
PNeg == Par("-theta", {"theta"})
PRat == Par("1/3", {})
PSq == Par("theta**2 - phi/3", {"theta", "phi"})
PlainNames == {"theta", "y", "a", "b", "w_2", "phi"}
Wrong == Par("WRONG", {})
\* what the textual round trip returns for parameter p when the parser is given `table`
ReadBack(p, table) == IF \A s \in p.syms : s \in table \/ s \in PlainNames THEN p ELSE Wrong

\* ---- gates -----------------------------------------------------------------------------------------------
G(k, name, ps, nn, e, a) == [k |-> k, name |-> name, ps |-> ps, n |-> nn, e |-> e, a |-> a]
Builtin(name, ps) == G("builtin", name, ps, 0, "", <<>>)
Custom(name, ps) == G("custom", name, ps, 0, "", <<>>)
Ctrl(x, nn) == G("ctrl", "", <<>>, nn, "", <<x>>)
Dag(x) == G("dag", "", <<>>, 0, "", <<x>>)
Pow(x, e) == G("pow", "", <<>>, 0, e, <<x>>)
Exp(x) == G("exp", "", <<>>, 0, "", <<x>>)
Sub(x) == x.a[1]
BuiltinNames == {"X", "RX", "U3", "CNOT"}
\* custom definitions: name, formal parameters, the symbols its stored matrix mentions
Def(name, formals) == [name |-> name, formals |-> formals]
DefOf(name) == IF name = "G0" THEN Def("G0", <<>>) ELSE Def("G2", <<"a", "b">>)
RECURSIVE NameOf(_), BaseOf(_), Depth(_), NQ(_)
NameOf(x) == CASE x.k \in {"builtin", "custom"} -> <<x.name>>
               [] x.k = "ctrl" -> <<"Control">>
               [] x.k = "dag" -> NameOf(Sub(x)) \o <<"_Dagger">>
               [] x.k = "exp" -> <<"Exponential">>
               [] x.k = "pow" -> NameOf(Sub(x)) \o <<"^", x.e>>
BaseOf(x) == IF x.k \in {"builtin", "custom"} THEN x ELSE BaseOf(Sub(x))
Depth(x) == IF x.k \in {"builtin", "custom"} THEN 0 ELSE 1 + Depth(Sub(x))
NQ(x) == CASE x.k = "builtin" -> (IF x.name = "CNOT" THEN 2 ELSE 1) [] x.k = "custom" -> 1 [] x.k = "ctrl" -> NQ(Sub(x)) + x.n [] OTHER -> NQ(Sub(x))
ParamsOf(x) == BaseOf(x).ps
FreeOf(x) == UNION {ParamsOf(x)[j].syms : j \in 1..Len(ParamsOf(x))}
HasFree(x) == FreeOf(x) # {}

\* ---- serialisation -------------------------------------------------------------------------------------------
\* one dictionary shape for all kinds; absent keys are empty
D(name, ps, free, wrapped, nn, e) == [name |-> name, ps |-> ps, free |-> free, wrapped |-> wrapped, n |-> nn, e |-> e]
RECURSIVE ToDict(_)
ToDict(x) == CASE x.k \in {"builtin", "custom"} -> D(NameOf(x), x.ps, FreeOf(x), <<>>, 0, "")
               [] x.k = "ctrl" -> D(NameOf(x), <<>>, {}, <<ToDict(Sub(x))>>, x.n, "")
               [] x.k = "pow" -> D(NameOf(x), <<>>, {}, <<ToDict(Sub(x))>>, 0, x.e)
               [] OTHER -> D(NameOf(x), <<>>, {}, <<ToDict(Sub(x))>>, 0, "")
\* the definitions a circuit carries: de-duplicated by name
UsesCustomTop(x) == x.k = "custom"
CollectDefs(c) == {DefOf(BaseOf(c[i].g).name) : i \in {j \in 1..Len(c) : IF Deep THEN BaseOf(c[j].g).k = "custom" ELSE UsesCustomTop(c[j].g)}}
CircToDict(c, nq) == [n |-> nq, ops |-> [i \in 1..Len(c) |-> [gate |-> ToDict(c[i].g), qs |-> c[i].qs]], defs |-> CollectDefs(c)]

\* ---- deserialisation: name-driven dispatch, in this order ------------------------------------------------------
Failed == G("FAILED", "", <<>>, 0, "", <<>>)
IsFailed(x) == x.k = "FAILED"
Last(s) == s[Len(s)]
HasTok(s, tok) == \E i \in 1..Len(s) : s[i] = tok
RECURSIVE FromDict(_, _)
FromDict(d, defs) ==
  IF Len(d.name) = 1 /\ d.name[1] \in BuiltinNames
  THEN Builtin(d.name[1], [j \in 1..Len(d.ps) |-> ReadBack(d.ps[j], d.free)])                              \* 1. built-in lookup
  ELSE IF d.name = <<"Control">> THEN LET w == FromDict(d.wrapped[1], defs) IN IF IsFailed(w) THEN Failed ELSE Ctrl(w, d.n)      \* 2. wrapper patterns
  ELSE IF Last(d.name) = "_Dagger" THEN LET w == FromDict(d.wrapped[1], defs) IN IF IsFailed(w) THEN Failed ELSE Dag(w)
  ELSE IF d.name = <<"Exponential">> THEN LET w == FromDict(d.wrapped[1], defs) IN IF IsFailed(w) THEN Failed ELSE Exp(w)
  ELSE IF HasTok(d.name, "^") THEN LET w == FromDict(d.wrapped[1], defs) IN IF IsFailed(w) THEN Failed ELSE Pow(w, d.e)
  ELSE IF Len(d.name) = 1 /\ \E df \in defs : df.name = d.name[1]                                           \* 3. custom definitions
       THEN LET df == CHOOSE x \in defs : x.name = d.name[1]
                formals == {df.formals[i] : i \in 1..Len(df.formals)}
                table(j) == IF FullTable THEN formals \cup d.free ELSE IF j = 1 THEN formals ELSE {}
            IN Custom(d.name[1], [j \in 1..Len(d.ps) |-> ReadBack(d.ps[j], table(j))])
       ELSE Failed
CircFromDict(cd) == [n |-> cd.n, ops |-> [i \in 1..Len(cd.ops) |-> [g |-> FromDict(cd.ops[i].gate, cd.defs), qs |-> cd.ops[i].qs]]]

\* ---- enumeration -----------------------------------------------------------------------------------------------------
BaseSeq == << Builtin("X", <<>>), Builtin("RX", <<PTheta>>), Builtin("RX", <<PFloat>>), Builtin("U3", <<PGamma, PInt, PIdx>>), Builtin("RX", <<PExpr>>),
              Builtin("RX", <<PMix>>), Custom("G0", <<>>), Custom("G2", <<PTheta, PFloat>>), Custom("G2", <<PGamma, PIdx>>), Custom("G2", <<PInt, PExpr>>),
              Builtin("CNOT", <<>>), Custom("G2", <<PTheta, PTheta>>),
              Builtin("U3", <<PEta1, PTheta1, PAlphaA>>), Builtin("RX", <<PPiConst>>), Builtin("RX", <<PPiSym>>), Builtin("U3", <<PW2Idx, PW2Plain, PFloat>>),
              Builtin("U3", <<PNeg, PRat, PSq>>), Custom("G2", <<PPiSym, PPiConst>>), Custom("G2", <<PTheta1, PEta1>>) >>
Wrappers(x) == IF CtrlOnly THEN {Ctrl(x, 1), Ctrl(x, 2)} ELSE {Ctrl(x, 1), Ctrl(x, 2), Dag(x), Exp(x), Pow(x, "2"), Pow(x, "-1"), Pow(x, "0.5")}
RECURSIVE Trees(_)
Trees(dd) == IF dd = 0 THEN {BaseSeq[i] : i \in Bases}
             ELSE LET prev == Trees(dd - 1) IN prev \cup UNION {Wrappers(x) : x \in {y \in prev : Depth(y) = dd - 1}}
\* power / exponential cannot be built over gates with free symbols (refused by the constructors)
RECURSIVE ConstructibleR(_)
ConstructibleR(x) == x.k \in {"builtin", "custom"} \/ (ConstructibleR(Sub(x)) /\ (x.k \in {"pow", "exp"} => ~HasFree(x)))
GateSet == {x \in Trees(MaxWrap) : ConstructibleR(x) /\ NQ(x) <= 5}
Init == circ = <<>> /\ n \in {0, 4}
QsFor(x) == [i \in 1..NQ(x) |-> NQ(x) - i]                       \* a descending tuple: the order of indices matters
Append1(x) == /\ Len(circ) < MaxOps
              /\ circ' = Append(circ, [g |-> x, qs |-> QsFor(x)])
              /\ n' = IF n = 0 THEN NQ(x) ELSE n
Next == \E x \in GateSet : Append1(x)

\* ---- what the property promises ------------------------------------------------------------------------------------------
RoundTripIsIdentity == LET back == CircFromDict(CircToDict(circ, n)) IN back.n = n /\ back.ops = circ
DefsSuffice == \A i \in 1..Len(circ) : BaseOf(circ[i].g).k = "custom" => \E df \in CollectDefs(circ) : df.name = BaseOf(circ[i].g).name
\* the wrapper patterns can never claim a built-in or custom name, and at most one pattern matches a wrapper's name - under the precondition
\* that custom names avoid built-in names and the marker tokens
NamePatternsDisjoint == \A i \in 1..Len(circ) : LET nm == NameOf(circ[i].g) k == circ[i].g.k IN
   /\ (k \in {"builtin", "custom"}) => ~(nm = <<"Control">> \/ Last(nm) = "_Dagger" \/ nm = <<"Exponential">> \/ HasTok(nm, "^"))
   /\ (k = "ctrl") <=> (nm = <<"Control">>)
   /\ (k = "dag") <=> (Last(nm) = "_Dagger" /\ nm # <<"Control">>)
   /\ (k = "exp") <=> (nm = <<"Exponential">>)
   /\ (k = "pow") <=> (HasTok(nm, "^") /\ Last(nm) # "_Dagger" /\ nm # <<"Exponential">> /\ nm # <<"Control">>)

RECURSIVE TreeJ(_)
TreeJ(x) == IF x.k \in {"builtin", "custom"} THEN [k |-> x.k, name |-> x.name, ps |-> [j \in 1..Len(x.ps) |-> x.ps[j].id]]
            ELSE [k |-> x.k, n |-> x.n, e |-> x.e, a |-> TreeJ(Sub(x))]
Emit == IF ~Emitting THEN TRUE ELSE
  PrintT(ToJson([n |-> n', ops |-> [i \in 1..Len(circ') |-> [g |-> TreeJ(circ'[i].g), qs |-> circ'[i].qs, name |-> NameOf(circ'[i].g)]],
                 defs |-> {df.name : df \in CollectDefs(circ')}]))
=============================================================================
