----------------------------- MODULE Estimation -----------------------------
(***************************************************************************)
(* C15 - estimation returns one correctly weighted result per task, in     *)
(* task order.  A task list is built by appending tasks drawn from a pool  *)
(* of templates; the coefficient of every term is multiplied by the task's *)
(* position, so a result written back at the wrong index is visible.       *)
(* Circuits prepare computational basis states (X on the qubits of `ones`),*)
(* so every Z-type term has the exact value coefficient * eigenvalue       *)
(* whatever the number of shots.                                           *)
(*   mechanism: partition into measured / non-measured, evaluation of the  *)
(*              non-measured ones, write-back by index lists               *)
(*   meaning:   Required(task) defined directly per task                   *)
(***************************************************************************)
EXTENDS Integers, Sequences, FiniteSets, TLC, Json

CONSTANTS MaxTasks, Emitting
VARIABLES tasks, res
vars == <<tasks, res>>

\* a term: [sup (set of qubits; {} = constant term), c (integer coefficient)]
Tm(S, c) == [sup |-> S, c |-> c]
\* templates: kind, operator (sequence of terms; t = "term" for a bare PauliTerm, "sum" otherwise), ones (qubits set to 1), shots, width
Templates == <<
  [name |-> "meas-term",  t |-> "term", op |-> <<Tm({0}, 1)>>,                      ones |-> {0},    shots |-> 3, w |-> 1],
  [name |-> "meas-sum",   t |-> "sum",  op |-> <<Tm({0, 1}, 2), Tm({1}, -1)>>,      ones |-> {1},    shots |-> 1, w |-> 2],
  [name |-> "meas-const", t |-> "sum",  op |-> <<Tm({2}, 1), Tm({}, 5), Tm({0, 2}, 3)>>, ones |-> {0, 2}, shots |-> 7, w |-> 3],
  [name |-> "const-term", t |-> "term", op |-> <<Tm({}, 4)>>,                       ones |-> {},     shots |-> 5, w |-> 1],
  [name |-> "const-sum2", t |-> "sum",  op |-> <<Tm({}, 2), Tm({}, 3)>>,            ones |-> {0},    shots |-> 2, w |-> 1],
  [name |-> "const-empty", t |-> "sum", op |-> <<>>,                                ones |-> {},     shots |-> 4, w |-> 1],
  [name |-> "const-zero-shots", t |-> "term", op |-> <<Tm({}, 6)>>,                 ones |-> {},     shots |-> 0, w |-> 1],
  [name |-> "zero-shots", t |-> "sum",  op |-> <<Tm({0}, 2), Tm({1}, 1)>>,          ones |-> {0},    shots |-> 0, w |-> 2],
  \* an operator is a LIST of terms: the same support may occur twice with different coefficients, constants may repeat
  [name |-> "meas-dup",   t |-> "sum",  op |-> <<Tm({0}, 2), Tm({1}, 1), Tm({0}, 3)>>, ones |-> {0},  shots |-> 2, w |-> 2],
  [name |-> "meas-2const", t |-> "sum", op |-> <<Tm({}, 1), Tm({0, 1}, 1), Tm({}, 2)>>, ones |-> {1}, shots |-> 3, w |-> 2],
  \* a zero-shot task whose NON-constant operator carries an identity term: it yields zero, not its offset
  [name |-> "zero-shots-offset", t |-> "sum", op |-> <<Tm({0}, 2), Tm({1, 2}, 3), Tm({}, -1)>>, ones |-> {2}, shots |-> 0, w |-> 3] >>
Scaled(tpl, p) == [tpl EXCEPT !.op = [i \in 1..Len(tpl.op) |-> Tm(tpl.op[i].sup, tpl.op[i].c * p)]]

IsConstant(task) == \A i \in 1..Len(task.op) : task.op[i].sup = {}          \* also the empty sum
RECURSIVE ISum(_)
ISum(s) == IF s = <<>> THEN 0 ELSE Head(s) + ISum(Tail(s))
Eig(S, ones) == IF Cardinality(S \cap ones) % 2 = 0 THEN 1 ELSE -1

\* ---- meaning: what each task must yield -------------------------------------------------------------------
Required(task) ==
  IF IsConstant(task) THEN <<ISum([i \in 1..Len(task.op) |-> task.op[i].c])>>       \* exactly its constant, as one value
  ELSE IF task.shots = 0 THEN <<0>>                                                  \* non-constant zero-shot task
  ELSE [i \in 1..Len(task.op) |-> task.op[i].c * Eig(task.op[i].sup, task.ones)]     \* one value per term, coefficient included

\* ---- mechanism --------------------------------------------------------------------------------------------
RECURSIVE Select(_, _, _)
Select(ts, i, want) == IF i > Len(ts) THEN <<>>
                       ELSE (IF (IsConstant(ts[i]) \/ ts[i].shots = 0) = want THEN <<i>> ELSE <<>>) \o Select(ts, i + 1, want)
NotMeasured(ts) == Select(ts, 1, TRUE)
Measured(ts) == Select(ts, 1, FALSE)
EvalNonMeasured(task) == IF IsConstant(task) THEN <<ISum([i \in 1..Len(task.op) |-> task.op[i].c])>> ELSE <<0>>
EvalMeasured(task) == [i \in 1..Len(task.op) |-> task.op[i].c * Eig(task.op[i].sup, task.ones)]
WriteBack(ts) ==
  LET nm == NotMeasured(ts) me == Measured(ts) IN
  [p \in 1..Len(ts) |->
     IF \E k \in 1..Len(nm) : nm[k] = p THEN EvalNonMeasured(ts[p]) ELSE EvalMeasured(ts[p])]

Init == tasks = <<>> /\ res = <<>>
AppendTask(k) == /\ Len(tasks) < MaxTasks
                 /\ tasks' = Append(tasks, Scaled(Templates[k], Len(tasks) + 1))
                 /\ res' = WriteBack(tasks')
Next == \E k \in 1..Len(Templates) : AppendTask(k)

OneResultPerTaskInPlace == Len(res) = Len(tasks) /\ \A p \in 1..Len(tasks) : res[p] = Required(tasks[p])
PartitionIsExact == LET nm == NotMeasured(tasks) me == Measured(tasks) IN
   /\ Len(nm) + Len(me) = Len(tasks)
   /\ {nm[k] : k \in 1..Len(nm)} \cup {me[k] : k \in 1..Len(me)} = 1..Len(tasks)
   /\ \A k \in 1..(Len(nm) - 1) : nm[k] < nm[k + 1]
   /\ \A k \in 1..(Len(me) - 1) : me[k] < me[k + 1]
ConstantYieldsConstant == \A p \in 1..Len(tasks) : IsConstant(tasks[p]) => res[p] = <<ISum([i \in 1..Len(tasks[p].op) |-> tasks[p].op[i].c])>>
ZeroShotYieldsZero == \A p \in 1..Len(tasks) : (~IsConstant(tasks[p]) /\ tasks[p].shots = 0) => res[p] = <<0>>

SetSeq(S) == LET RECURSIVE L(_) L(T) == IF T = {} THEN <<>> ELSE LET a == CHOOSE x \in T : \A y \in T : x <= y IN <<a>> \o L(T \ {a}) IN L(S)
TaskJ(t) == [name |-> t.name, t |-> t.t, op |-> [i \in 1..Len(t.op) |-> [sup |-> SetSeq(t.op[i].sup), c |-> t.op[i].c]], ones |-> SetSeq(t.ones), shots |-> t.shots, w |-> t.w]
Emit == IF ~Emitting THEN TRUE ELSE
  PrintT(ToJson([tasks |-> [p \in 1..Len(tasks') |-> TaskJ(tasks'[p])], res |-> res',
                 notmeasured |-> NotMeasured(tasks'), measured |-> Measured(tasks')]))
=============================================================================
