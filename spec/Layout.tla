------------------------------- MODULE Layout --------------------------------
(***************************************************************************)
(* Beyond the listed properties (reported under C11, which persists these  *)
(* objects): circuit layers and connectivity.  A layering of a             *)
(* connectivity is a sequence of layers such that every connection lies in *)
(* exactly one layer and no qubit is used twice inside a layer (the gates  *)
(* of a layer can be applied in parallel).                                 *)
(*   mechanism:  NearestNeighbour(n) - the chain builder (even / odd pairs)*)
(*   meaning:    IsLayering, ChainConnectivity                             *)
(* The two-dimensional "sycamore" builder is not transcribed: its OUTPUT is *)
(* recorded and judged by the same predicates (LayoutTrace).               *)
(***************************************************************************)
EXTENDS Integers, Sequences, FiniteSets, TLC, Json

CONSTANTS MaxN
VARIABLES n
SeqRange(s) == {s[i] : i \in 1..Len(s)}
Flat(ls) == LET RECURSIVE F(_) F(x) == IF x = <<>> THEN <<>> ELSE Head(x) \o F(Tail(x)) IN F(ls)
NoQubitTwiceInLayer(layers) == \A l \in 1..Len(layers) : \A i, j \in 1..Len(layers[l]) : i # j =>
      SeqRange(layers[l][i]) \cap SeqRange(layers[l][j]) = {}
LayersPartition(conn, layers) ==
   /\ SeqRange(Flat(layers)) = SeqRange(conn)                                       \* every connection is in a layer, nothing else is
   /\ Len(Flat(layers)) = Cardinality(SeqRange(Flat(layers)))                       \* no connection in two layers (or twice in one)
   /\ Len(conn) = Cardinality(SeqRange(conn))                                       \* no connection listed twice
IsLayering(conn, layers) == LayersPartition(conn, layers) /\ NoQubitTwiceInLayer(layers)
\* the two-dimensional patterns use every connection in several layers: a covering by parallel layers, not a partition
IsCovering(conn, layers) == SeqRange(Flat(layers)) = SeqRange(conn) /\ Len(conn) = Cardinality(SeqRange(conn)) /\ NoQubitTwiceInLayer(layers)
\* mechanism: the chain builder
Evens(nn) == LET RECURSIVE E(_) E(i) == IF i >= nn - 1 THEN <<>> ELSE <<<<i, i + 1>>>> \o E(i + 2) IN E(0)
Odds(nn) == LET RECURSIVE O(_) O(i) == IF i >= nn - 1 THEN <<>> ELSE <<<<i, i + 1>>>> \o O(i + 2) IN O(1)
NearestNeighbour(nn) == [conn |-> Evens(nn) \o Odds(nn), layers |-> <<Evens(nn), Odds(nn)>>]
\* meaning of "nearest-neighbour connectivity of a chain"
ChainConnectivity(nn) == {<<i, i + 1>> : i \in 0..(nn - 2)}
Init == n = 0
Next == n < MaxN /\ n' = n + 1
ChainIsLayered == LET r == NearestNeighbour(n) IN IsLayering(r.conn, r.layers) /\ SeqRange(r.conn) = ChainConnectivity(n)
Emit == PrintT(ToJson([n |-> n', conn |-> NearestNeighbour(n').conn, layers |-> NearestNeighbour(n').layers]))
=============================================================================
