------------------------------ MODULE Modifiers -----------------------------
(***************************************************************************)
(* C07 - gate modifiers (dagger, controlled, power, exp) mean what they say*)
(* A gate is a tree [k, g, n, e, a]:                                       *)
(*   k = "base": entry g of the base alphabet                              *)
(*   k = "ctrl": n controls on a[1];  "dag": adjoint of a[1];              *)
(*   k = "pow": a[1] to the exponent e = <<num, den>>;  "exp": e^{a[1]}    *)
(* The code's re-association rules are transcribed (DaggerOf, ControlledOf,*)
(* PowerOf, ExpOf, ReplaceParamsOf); Sem is the meaning in the exact ring  *)
(* for trees without exp / fractional powers ("ring trees").  The other    *)
(* trees are enumerated here and their laws judged on the implementation's *)
(* floats by the conformance layer.                                        *)
(***************************************************************************)
EXTENDS GateDefs, TLC, Json

CONSTANTS MaxDepth,     \* number of modifiers applied
          MaxQubits,    \* widest gate
          MaxNonRing,   \* exp / fractional powers allowed per chain
          Bases,        \* set of base alphabet indices
          Emitting
VARIABLES t,            \* current tree (as the code would build it)
          chain,        \* the modifiers applied so far
          ev, gm
vars == <<t, chain, ev, gm>>
ViewNoGm == <<t, chain, ev>>

K0 == <<0, 0, 0>>
A1 == MMul(GateAt("T", K0), MMul(GateAt("H", K0), GateAt("S", K0)))                         \* custom, not normal-looking, non-hermitian
A2 == MMul(MKron(GateAt("T", K0), GateAt("H", K0)), MMul(GateAt("CNOT", K0), MKron(GateAt("S", K0), GateAt("RX", <<1, 0, 0>>))))
BEntry(name, k, np, nq, herm, custom) == [name |-> name, k |-> k, np |-> np, nq |-> nq, herm |-> herm, custom |-> custom]
Base == << BEntry("X", K0, 0, 1, TRUE, FALSE), BEntry("S", K0, 0, 1, FALSE, FALSE), BEntry("T", K0, 0, 1, FALSE, FALSE),
           BEntry("SX", K0, 0, 1, FALSE, FALSE), BEntry("RX", <<1, 0, 0>>, 1, 1, FALSE, FALSE), BEntry("PHASE", <<1, 0, 0>>, 1, 1, FALSE, FALSE),
           BEntry("U3", <<1, 1, 2>>, 3, 1, FALSE, FALSE), BEntry("CNOT", K0, 0, 2, TRUE, FALSE), BEntry("ISWAP", K0, 0, 2, FALSE, FALSE),
           BEntry("A1", K0, 0, 1, FALSE, TRUE), BEntry("A2", K0, 0, 2, FALSE, TRUE), BEntry("H", K0, 0, 1, TRUE, FALSE),
           BEntry("GPi", <<1, 0, 0>>, 1, 1, TRUE, FALSE), BEntry("XX", <<1, 0, 0>>, 1, 2, FALSE, FALSE),
           BEntry("I", K0, 0, 1, TRUE, FALSE),
           BEntry("XY", <<1, 0, 0>>, 1, 2, FALSE, FALSE), BEntry("CPHASE", <<1, 0, 0>>, 1, 2, FALSE, FALSE), BEntry("YY", <<1, 0, 0>>, 1, 2, FALSE, FALSE),     \* complex-symmetric but NOT hermitian
           BEntry("MS", <<1, 0, 0>>, 2, 2, FALSE, FALSE),    \* two parameters, degenerate spectrum
           \* a PARAMETRIC custom gate P(a) = diag(1, e^{ia}) instantiated where it happens to be self-adjoint (a = 0): the flag of
           \* a gate family must not be decided by the value of one instance
           BEntry("PC", K0, 1, 1, FALSE, TRUE),
           \* the matrix A1 once more, handed over with EXACT algebraic entries ((-1)^(1/4), sqrt 2: complex numbers written without
           \* the imaginary unit) instead of floating-point ones
           BEntry("A1x", K0, 0, 1, FALSE, TRUE) >>
BaseMat(g) == IF Base[g].custom THEN (IF Base[g].name \in {"A1", "A1x"} THEN A1 ELSE IF Base[g].name = "A2" THEN A2 ELSE GateAt("PHASE", Base[g].k)) ELSE GateAt(Base[g].name, Base[g].k)
GMTab == TLCEval([g \in 1..Len(Base) |-> BaseMat(g)])
\* replacing the parameters: the same gate at other grid angles (k2)
AltK(g) == IF Base[g].np = 0 THEN K0 ELSE IF Base[g].np = 3 THEN <<3, 2, 1>> ELSE <<3, 0, 0>>
GMAlt == TLCEval([g \in 1..Len(Base) |-> IF Base[g].np = 0 THEN BaseMat(g) ELSE GateAt(IF Base[g].custom THEN "PHASE" ELSE Base[g].name, AltK(g))])

One == <<1, 1>>
Leaf(g, alt) == [k |-> "base", g |-> g, n |-> IF alt THEN 1 ELSE 0, e |-> One, a |-> <<>>]     \* n = 1 marks "built with the new parameters"
Ctrl(x, n) == [k |-> "ctrl", g |-> 0, n |-> n, e |-> One, a |-> <<x>>]
Dag(x) == [k |-> "dag", g |-> 0, n |-> 0, e |-> One, a |-> <<x>>]
Pow(x, e) == [k |-> "pow", g |-> 0, n |-> 0, e |-> e, a |-> <<x>>]
Exp(x) == [k |-> "exp", g |-> 0, n |-> 0, e |-> One, a |-> <<x>>]
Sub(x) == x.a[1]

\* ---- transcription of the re-association rules (_gates.py) --------------------------------------------------
RECURSIVE DaggerOf(_), ControlledOf(_, _), PowerOf(_, _)
PowerOf(x, e) == IF x.k = "ctrl" THEN Ctrl(PowerOf(Sub(x), e), x.n) ELSE Pow(x, e)
ExpOf(x) == Exp(x)
DaggerOf(x) ==
  CASE x.k = "base" -> IF Base[x.g].herm THEN x ELSE Dag(x)
    [] x.k = "ctrl" -> Ctrl(DaggerOf(Sub(x)), x.n)
    [] x.k = "dag"  -> Sub(x)
    [] x.k = "pow"  -> PowerOf(DaggerOf(Sub(x)), x.e)
    [] x.k = "exp"  -> ExpOf(DaggerOf(Sub(x)))
ControlledOf(x, c) ==
  CASE x.k = "base" -> Ctrl(x, c)
    [] x.k = "ctrl" -> Ctrl(Sub(x), x.n + c)
    [] x.k = "dag"  -> DaggerOf(ControlledOf(Sub(x), c))
    [] x.k = "pow"  -> PowerOf(ControlledOf(Sub(x), c), x.e)
    [] x.k = "exp"  -> Ctrl(x, c)
RECURSIVE ReplaceParamsOf(_)
ReplaceParamsOf(x) ==                 \* replace_params(new params), new params = the alphabet's alternative angles
  CASE x.k = "base" -> Leaf(x.g, TRUE)
    [] x.k = "ctrl" -> ControlledOf(ReplaceParamsOf(Sub(x)), x.n)
    [] x.k = "dag"  -> DaggerOf(ReplaceParamsOf(Sub(x)))
    [] x.k = "pow"  -> PowerOf(ReplaceParamsOf(Sub(x)), x.e)
    [] x.k = "exp"  -> ExpOf(ReplaceParamsOf(Sub(x)))
ApplyMod(x, m) == CASE m.m = "dagger" -> DaggerOf(x) [] m.m = "controlled" -> ControlledOf(x, m.c)
                    [] m.m = "power" -> PowerOf(x, m.e) [] m.m = "exp" -> ExpOf(x)
RECURSIVE Build(_, _)
Build(x, ch) == IF ch = <<>> THEN x ELSE Build(ApplyMod(x, Head(ch)), Tail(ch))

\* ---- meaning ---------------------------------------------------------------------------------------------------
IsInt(e) == e[2] = 1
RECURSIVE IsRing(_), NQ(_), BaseOf(_), Sem(_)
IsRing(x) == CASE x.k = "base" -> TRUE [] x.k = "exp" -> FALSE [] x.k = "pow" -> IsInt(x.e) /\ IsRing(Sub(x)) [] OTHER -> IsRing(Sub(x))
NQ(x) == CASE x.k = "base" -> Base[x.g].nq [] x.k = "ctrl" -> NQ(Sub(x)) + x.n [] OTHER -> NQ(Sub(x))
BaseOf(x) == IF x.k = "base" THEN x ELSE BaseOf(Sub(x))
Sem(x) ==
  CASE x.k = "base" -> IF x.n = 1 THEN gm.alt[x.g] ELSE gm.std[x.g]
    [] x.k = "ctrl" -> LET s == Sem(Sub(x)) IN MBlockId(Len(s) * (2^x.n - 1), s)
    [] x.k = "dag"  -> MAdj(Sem(Sub(x)))
    [] x.k = "pow"  -> MPow(Sem(Sub(x)), x.e[1])
NonRing(ch) == Cardinality({i \in 1..Len(ch) : ch[i].m = "exp" \/ (ch[i].m = "power" /\ ~IsInt(ch[i].e))})

Mods == {[m |-> "dagger", c |-> 0, e |-> One], [m |-> "exp", c |-> 0, e |-> One]}
   \cup {[m |-> "controlled", c |-> c, e |-> One] : c \in 1..2}
   \cup {[m |-> "power", c |-> 0, e |-> e] : e \in {<<-2, 1>>, <<-1, 1>>, <<0, 1>>, <<2, 1>>, <<3, 1>>, <<1, 2>>, <<1, 3>>}}
NoMod == [m |-> "none", c |-> 0, e |-> One]
Init == /\ gm = [std |-> GMTab, alt |-> GMAlt] /\ \E g \in Bases : t = Leaf(g, FALSE) /\ chain = <<>> /\ ev = [mod |-> NoMod, pre |-> Leaf(1, FALSE)]
Apply(m) == /\ Len(chain) < MaxDepth
            /\ NonRing(Append(chain, m)) <= MaxNonRing
            /\ NQ(ApplyMod(t, m)) <= MaxQubits
            /\ t' = ApplyMod(t, m) /\ chain' = Append(chain, m) /\ ev' = [mod |-> m, pre |-> t] /\ UNCHANGED gm
Next == \E m \in Mods : Apply(m)

\* ---- what the property promises -----------------------------------------------------------------------------------
Pre == ev.pre
Applies == ev.mod.m # "none"
DaggerIsAdjoint == (Applies /\ ev.mod.m = "dagger" /\ IsRing(t) /\ IsRing(Pre)) => Sem(t) = MAdj(Sem(Pre))
ControlledIsBlock == (Applies /\ ev.mod.m = "controlled" /\ IsRing(t) /\ IsRing(Pre)) =>
    Sem(t) = MBlockId(2^NQ(Pre) * (2^ev.mod.c - 1), Sem(Pre))
IntegerPowerIsProduct == (Applies /\ ev.mod.m = "power" /\ IsInt(ev.mod.e) /\ IsRing(Pre)) => Sem(t) = MPow(Sem(Pre), ev.mod.e[1])
NumQubitsImplied == Applies => NQ(t) = NQ(Pre) + (IF ev.mod.m = "controlled" THEN ev.mod.c ELSE 0)
ParamsPreserved == BaseOf(t) = BaseOf(Build(Leaf(BaseOf(t).g, FALSE), <<>>))       \* the base gate (hence its parameters) is never altered
ChainIsWhatWasBuilt == t = Build(Leaf(BaseOf(t).g, FALSE), chain)
ReplaceParamsCommutes == ReplaceParamsOf(t) = Build(Leaf(BaseOf(t).g, TRUE), chain)
UnitaryWhenRing == IsRing(t) => IsUnitary(Sem(t))

RECURSIVE TreeJ(_)
TreeJ(x) == IF x.k = "base" THEN [k |-> "base", name |-> Base[x.g].name, kk |-> IF x.n = 1 THEN AltK(x.g) ELSE Base[x.g].k, np |-> Base[x.g].np, custom |-> Base[x.g].custom, g |-> x.g]
            ELSE [k |-> x.k, n |-> x.n, e |-> x.e, a |-> TreeJ(Sub(x))]
Emit == IF ~Emitting THEN TRUE ELSE
  PrintT(ToJson([base |-> TreeJ(Leaf(BaseOf(t').g, FALSE)), chain |-> chain', tree |-> TreeJ(t'), pre |-> TreeJ(t), mod |-> ev'.mod,
                 nq |-> NQ(t'), ring |-> IsRing(t'), sem |-> IF IsRing(t') THEN Sem(t') ELSE <<>>,
                 replaced |-> TreeJ(ReplaceParamsOf(t')), custom |-> IF Base[BaseOf(t').g].custom THEN gm.std[BaseOf(t').g] ELSE <<>>]))
BasesQuick == {1, 2, 5, 7, 8, 10}
BasesAll == 1..Len(Base)
=============================================================================
