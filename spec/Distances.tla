------------------------------ MODULE Distances ------------------------------
(***************************************************************************)
(* C17, distance laws on pairs of distributions with DIFFERENT supports    *)
(* and different insertion orders.                                         *)
(* A distribution is built the way a caller builds a dictionary: outcomes  *)
(* (integers 0..2^W-1, read as W-bit strings) are inserted one after the   *)
(* other, the k-th inserted outcome of p gets raw weight k, of q raw weight*)
(* |q| + 1 - k; the constructor normalises.                                *)
(*   meaning:   MMD(p, q) = sum over x, y of (P(x)-Q(x)) K(|x-y|) (P(y)-Q(y))*)
(*              over the union of the supports, for ANY kernel table K     *)
(*   mechanism: the library walks the union in some iteration order (here: *)
(*              p's insertion order, then q's new outcomes), builds the    *)
(*              value vectors and the kernel matrix in THAT order          *)
(* TLC checks for an arbitrary rational kernel table K(|x-y|) that        *)
(* mechanism = meaning whatever the order, symmetry and zero on the        *)
(* diagonal; for the exact Gaussian kernel with exp(-1/(2 sigma)) = 1/2    *)
(* (K(d) = 2^-(d^2), representable for W <= 2) also non-negativity.        *)
(* Every generated pair is exported and built in the real code with the    *)
(* same insertion orders; the floating-point laws are judged there.        *)
(***************************************************************************)
EXTENDS Rat, FiniteSets, TLC, Json

CONSTANTS W,          \* width of the outcomes
          MaxKeys,    \* bound on the support size of each distribution
          Emitting
VARIABLES p, q, phase       \* insertion sequences of distinct outcomes; phase "p" -> "q" -> "done"
vars == <<p, q, phase>>

Range(s) == {s[i] : i \in 1..Len(s)}
AbsI(x) == IF x < 0 THEN -x ELSE x
Pos(s, x) == CHOOSE i \in 1..Len(s) : s[i] = x
RawP(x) == IF x \in Range(p) THEN Pos(p, x) ELSE 0
RawQ(x) == IF x \in Range(q) THEN Len(q) + 1 - Pos(q, x) ELSE 0
Tri(n) == (n * (n + 1)) \div 2
PP(x) == RNorm(RawP(x), Tri(Len(p)))
QQ(x) == RNorm(RawQ(x), Tri(Len(q)))

KAny(d) == <<1 + ((d * d) % 7), 8>>          \* an arbitrary table of |x-y| with small denominators (TLC integers are 32-bit)
KGauss(d) == <<1, 2 ^ (d * d)>>

\* ---- meaning -------------------------------------------------------------------------------------------------
RECURSIVE SumOver(_, _)
SumOver(S, f) == IF S = {} THEN R(0) ELSE LET x == CHOOSE y \in S : TRUE IN RAdd(f[x], SumOver(S \ {x}, f))
MMDDef(P, Q, U, gauss) ==
  LET diff == [x \in U |-> RSub(P[x], Q[x])]
      row == [x \in U |-> SumOver(U, [y \in U |-> RMul(IF gauss THEN KGauss(AbsI(x - y)) ELSE KAny(AbsI(x - y)), diff[y])])]
  IN SumOver(U, [x \in U |-> RMul(diff[x], row[x])])
\* ---- mechanism: vectors and matrix in one iteration order of the union ---------------------------------------
MMDMech(P, Q, order, gauss) ==
  LET n == Len(order)
      tv == [i \in 1..n |-> P[order[i]]]
      mv == [i \in 1..n |-> Q[order[i]]]
      kern == [i \in 1..n |-> [j \in 1..n |-> IF gauss THEN KGauss(AbsI(order[i] - order[j])) ELSE KAny(AbsI(order[i] - order[j]))]]
      diff == [i \in 1..n |-> RSub(tv[i], mv[i])]
      kd == [i \in 1..n |-> RSum([j \in 1..n |-> RMul(kern[i][j], diff[j])])]
  IN RSum([i \in 1..n |-> RMul(diff[i], kd[i])])

Union == Range(p) \cup Range(q)
PF == [x \in Union |-> PP(x)]
QF == [x \in Union |-> QQ(x)]
SelectSeq2(s, S) == LET RECURSIVE F(_) F(t) == IF t = <<>> THEN <<>> ELSE (IF Head(t) \in S THEN <<Head(t)>> ELSE <<>>) \o F(Tail(t)) IN F(s)
OrderPQ == p \o SelectSeq2(q, Union \ Range(p))
OrderQP == q \o SelectSeq2(p, Union \ Range(q))

Init == p = <<>> /\ q = <<>> /\ phase = "p"
AddP(x) == phase = "p" /\ Len(p) < MaxKeys /\ x \notin Range(p) /\ p' = Append(p, x) /\ UNCHANGED <<q, phase>>
TurnQ == phase = "p" /\ p # <<>> /\ phase' = "q" /\ UNCHANGED <<p, q>>
AddQ(x) == phase = "q" /\ Len(q) < MaxKeys /\ x \notin Range(q) /\ q' = Append(q, x) /\ UNCHANGED <<p, phase>>
Done == phase = "q" /\ q # <<>> /\ phase' = "done" /\ UNCHANGED <<p, q>>
Next == \/ \E x \in 0..(2 ^ W - 1) : AddP(x) \/ AddQ(x)
        \/ TurnQ \/ Done

Complete == phase = "done"
Gaussian == W <= 2
OrderIrrelevant == Complete => /\ MMDMech(PF, QF, OrderPQ, FALSE) = MMDDef(PF, QF, Union, FALSE)
                               /\ MMDMech(PF, QF, OrderQP, FALSE) = MMDDef(PF, QF, Union, FALSE)
Symmetric == Complete => MMDMech(PF, QF, OrderPQ, FALSE) = MMDMech(QF, PF, OrderQP, FALSE)
ZeroOnDiagonal == Complete => MMDMech(PF, PF, OrderPQ, FALSE) = R(0)
NonNegativeGaussian == (Complete /\ Gaussian) => RLeq(R(0), MMDMech(PF, QF, OrderPQ, TRUE))
Normalised == Complete => SumOver(Union, PF) = R(1) /\ SumOver(Union, QF) = R(1)

Bits(x) == [i \in 1..W |-> (x \div (2 ^ (W - i))) % 2]
Emit == IF ~Emitting \/ phase' # "done" THEN TRUE ELSE
  PrintT(ToJson([w |-> W, p |-> [i \in 1..Len(p) |-> [k |-> Bits(p[i]), raw |-> RawP(p[i])]],
                 q |-> [i \in 1..Len(q) |-> [k |-> Bits(q[i]), raw |-> RawQ(q[i])]],
                 gauss |-> IF Gaussian THEN MMDMech(PF, QF, OrderPQ, TRUE) ELSE <<-1, 1>>]))
=============================================================================
