------------------------------ MODULE StatsTrace ----------------------------
(***************************************************************************)
(* code -> spec for C10: sample sets actually returned by the simulator    *)
(* together with the statistics the library computed from them; every      *)
(* recorded line must equal the specification's sample statistics          *)
(* (rationals recovered from the floats by the recorder).                  *)
(***************************************************************************)
EXTENDS Stats, IOUtils
Trace == ndJsonDeserialize(IOEnv.TRACE_FILE)
VARIABLE l
E == Trace[l]
OpOf(e) == [i \in 1..Len(e.op) |-> [sup |-> {e.op[i].sup[k] : k \in 1..Len(e.op[i].sup)}, c |-> e.op[i].c]]
\* the line's shots and operator are loaded into the specification state, then the definitions are evaluated
Loaded == shots = E.shots /\ op = OpOf(E)
\* the verdict is total: a recorded result of the wrong SHAPE (a row per distinct support instead of a row per term, a
\* frame of another size) is a rejection with a named clause, never an evaluation error
IsSq(m) == Len(m) = Len(op) /\ \A i \in 1..Len(m) : Len(m[i]) = Len(op)
MeansMatch == Len(E.means) = Len(op) /\ \A i \in Idx : E.means[i] = DefMean(i)
CorrMatch == IsSq(E.corr) /\ \A i \in Idx : \A j \in Idx : E.corr[i][j] = DefCorr(i, j)
CovMatch == IsSq(E.cov) /\ \A i \in Idx : \A j \in Idx : E.cov[i][j] = DefCov(i, j, N)
TalliesMatch == Len(E.tallies) = Len(op) /\ \A i \in Idx : E.tallies[i] = ParityTally(op[i].sup)
CountsMatch == /\ \A k \in 1..Len(E.counts) : Count(E.counts[k].t) = E.counts[k].n
               /\ ISum([k \in 1..Len(E.counts) |-> E.counts[k].n]) = N
Names == <<"MeansMatch", "CorrMatch", "CovMatch", "TalliesMatch", "CountsMatch">>
Clauses == <<MeansMatch, CorrMatch, CovMatch, TalliesMatch, CountsMatch>>
TInit == l = 1 /\ shots = Trace[1].shots /\ op = OpOf(Trace[1])
TNext == /\ l <= Len(Trace)
         /\ IF \A i \in 1..5 : Clauses[i] THEN TRUE ELSE PrintT(ToJson([reject |-> l, failed |-> {Names[i] : i \in {j \in 1..5 : ~Clauses[j]}}]))
         /\ l' = l + 1
         /\ IF l + 1 <= Len(Trace) THEN shots' = Trace[l + 1].shots /\ op' = OpOf(Trace[l + 1]) ELSE UNCHANGED <<shots, op>>
=============================================================================
