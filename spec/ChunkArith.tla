---------------------------- MODULE ChunkArith ----------------------------
(***************************************************************************)
(* C13, the arithmetic core of _expand_sample_size and of the batch        *)
(* splitter, for ALL sizes n and maxima m in 1..Big (not only the small    *)
(* box TLC enumerates in Shots.tla): k = ceil(n / m) pieces; k pieces of m *)
(* if m divides n, else k - 1 pieces of m and one of n % m.                *)
(* Checked symbolically by Apalache (SMT) through MC_ChunkArith.tla with   *)
(* Big = 10^6.  Ceiling = TRUE is the mechanism as found; with             *)
(* Ceiling = FALSE (floor division) the invariant is refuted - the         *)
(* vacuity guard of the check.                                             *)
(***************************************************************************)
EXTENDS Integers
CONSTANTS
  \* @type: Int;
  Big,
  \* @type: Bool;
  Ceiling
VARIABLES
  \* @type: Int;
  n,
  \* @type: Int;
  m
Init == n \in 1..Big /\ m \in 1..Big
Next == UNCHANGED <<n, m>>
K == IF Ceiling THEN (n + m - 1) \div m ELSE n \div m
R == n % m
Total == IF R = 0 THEN K * m ELSE (K - 1) * m + R
ChunkOK == /\ K >= 1                                          \* at least one piece
           /\ Total = n                                       \* nothing lost, nothing invented
           /\ (R # 0 => (R >= 1 /\ R <= m))                   \* the odd piece lies within 1..m
           /\ K * m >= n /\ (K - 1) * m < n                   \* K is the ceiling: no piece could be spared
=============================================================================
