-------------------------------- MODULE Bits --------------------------------
(***************************************************************************)
(* Growth (reported under C04): the bit / bitstring / tuple conventions of *)
(* the utility layer, which every view of C04 is built from.               *)
(*   meaning:   Bit(i, q, n) - bit q of an n-bit index, qubit 0 = most     *)
(*              significant (the convention of Mat.tla / Views.tla)        *)
(*   mechanism: transcriptions of utils.dec2bin (digits of bin() padded on *)
(*              the left), utils.bin2dec (running power of two from the    *)
(*              right end), measurements.convert_bitstring_to_int (string  *)
(*              reversed, parsed base 2), the Ising +/-1 recoding, the     *)
(*              ordered list of bitstrings, bitstring_to_tuple (reversal)  *)
(*              and tuple_to_bitstring (no reversal), and the transposition*)
(*              trick of wavefunction._get_ordering                        *)
(* One state per (length, number); TLC checks mechanism = meaning and the  *)
(* round-trip laws in every state, and exports every state for replay.     *)
(***************************************************************************)
EXTENDS Integers, Sequences, FiniteSets, TLC, Json

CONSTANTS MaxLen, Emitting
VARIABLES len, num
vars == <<len, num>>

Bit(i, q, n) == (i \div (2 ^ (n - 1 - q))) % 2
Rev(s) == [q \in 1..Len(s) |-> s[Len(s) + 1 - q]]
RECURSIVE SumSeq(_)
SumSeq(s) == IF s = <<>> THEN 0 ELSE Head(s) + SumSeq(Tail(s))

\* ---- meaning ------------------------------------------------------------------------------------------
BitsMSB(x, L) == [q \in 1..L |-> Bit(x, q - 1, L)]                      \* position q-1 holds bit q-1, most significant first
ValueMSB(s) == SumSeq([q \in 1..Len(s) |-> s[q] * 2 ^ (Len(s) - q)])
ValueLSB(s) == SumSeq([q \in 1..Len(s) |-> s[q] * 2 ^ (q - 1)])         \* first element least significant

\* ---- mechanisms ----------------------------------------------------------------------------------------
RECURSIVE Digits(_)
Digits(x) == IF x < 2 THEN <<x>> ELSE Digits(x \div 2) \o <<x % 2>>     \* bin(x)[2:]
Dec2Bin(x, L) == LET d == Digits(x) IN IF Len(d) < L THEN [i \in 1..(L - Len(d)) |-> 0] \o d ELSE d
RECURSIVE B2D(_, _, _, _)
B2D(s, i, dec, coeff) == IF i >= Len(s) THEN dec ELSE B2D(s, i + 1, dec + coeff * s[Len(s) - i], coeff * 2)
Bin2Dec(s) == B2D(s, 0, 0, 1)
BitstringToInt(s) == ValueMSB(Rev(s))                                    \* int("".join(reversed), 2)
ToIsing(x, L) == [q \in 1..L |-> Dec2Bin(x, L)[q] * 2 - 1]
FromIsing(s) == Bin2Dec([q \in 1..Len(s) |-> (s[q] + 1) \div 2])
OrderedBitstrings(L) == [i \in 1..(2 ^ L) |-> Dec2Bin(i - 1, L)]         \* "{0:b}" padded with "0" on the left
BitstringToTuple(s) == Rev(s)
TupleToBitstring(t) == t
\* _get_ordering: arange(2^L).reshape(L*[2]).transpose(L-1..0).reshape(2^L): entry at multi-index (b_1..b_L) of the
\* result is the entry of the original at (b_L..b_1)
FlipOrdering(L) == [i \in 1..(2 ^ L) |-> ValueMSB(Rev(BitsMSB(i - 1, L)))]

\* ---- state machine: every (length, number) ------------------------------------------------------------------
Init == len = 1 /\ num = 0
NextNumber == num + 1 < 2 ^ len /\ num' = num + 1 /\ len' = len
NextLength == num + 1 = 2 ^ len /\ len < MaxLen /\ len' = len + 1 /\ num' = 0
Next == NextNumber \/ NextLength

\* ---- invariants -----------------------------------------------------------------------------------------------
Dec2BinIsMSB == Dec2Bin(num, len) = BitsMSB(num, len) /\ Len(Dec2Bin(num, len)) = len
Bin2DecIsMSB == Bin2Dec(BitsMSB(num, len)) = num /\ Bin2Dec(BitsMSB(num, len)) = ValueMSB(BitsMSB(num, len))
RoundTrips == /\ Bin2Dec(Dec2Bin(num, len)) = num
              /\ FromIsing(ToIsing(num, len)) = num
              /\ BitstringToInt(Rev(BitsMSB(num, len))) = num            \* little endian reads the reversed string
              /\ BitstringToInt(BitsMSB(num, len)) = ValueLSB(BitsMSB(num, len))
              /\ BitstringToTuple(BitstringToTuple(BitsMSB(num, len))) = BitsMSB(num, len)
IsingIsSigned == \A q \in 1..len : ToIsing(num, len)[q] = (IF Bit(num, q - 1, len) = 1 THEN 1 ELSE -1)
OrderedIsAscending == num # 0 \/ LET o == OrderedBitstrings(len) IN
   /\ Len(o) = 2 ^ len
   /\ \A i \in 1..Len(o) : Len(o[i]) = len /\ ValueMSB(o[i]) = i - 1
FlipIsBitReversal == num # 0 \/ LET f == FlipOrdering(len) IN
   /\ \A i \in 1..(2 ^ len) : \A q \in 0..(len - 1) : Bit(f[i], q, len) = Bit(i - 1, len - 1 - q, len)
   /\ \A i \in 1..(2 ^ len) : f[f[i] + 1] = i - 1                        \* an involution

Rec(L, x) == [len |-> L, num |-> x, msb |-> BitsMSB(x, L), ising |-> ToIsing(x, L),
              le |-> BitstringToInt(BitsMSB(x, L)),
              ordered |-> IF x = 0 THEN OrderedBitstrings(L) ELSE <<>>,
              flip |-> IF x = 0 THEN FlipOrdering(L) ELSE <<>>]
Emit == IF ~Emitting THEN TRUE ELSE PrintT(ToJson(Rec(len', num')))
\* the initial state has no incoming transition: exported from an invariant
EmitInit == IF Emitting /\ len = 1 /\ num = 0 THEN PrintT(ToJson(Rec(1, 0))) ELSE TRUE
=============================================================================
