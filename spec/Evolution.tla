------------------------------ MODULE Evolution -----------------------------
(***************************************************************************)
(* C16 - time-evolution circuits implement exp(-i t H) term by term, and   *)
(* its derivative.  Everything is a Laurent polynomial in                  *)
(*      z_k = e^{i (t/n) c_k}        (k = position of the term in H)       *)
(* i.e. the central rotation of term k is RZ(angle_k) with                 *)
(* angle_k/2 = (t/n) c_k.  Identities between such polynomials hold for    *)
(* every real t and every real coefficient c_k (independent variables).    *)
(***************************************************************************)
EXTENDS GateDefs, TLC, Json

CONSTANTS NQ,                     \* register width
          Cases,                  \* "terms" | "sums" | "derivs"
          Hams,                   \* Hamiltonians (sequences of Pauli strings) explored for sums / derivatives
          MaxSteps,
          RepeatedUsesFullTime,   \* TRUE = the derivative construction as originally implemented (defect F6)
          GuardUsesAbs,           \* FALSE = the imaginary-part guard as originally implemented (defect F5)
          Emitting
VARIABLES cs                      \* the current case [kind, ham (sequence of strings), steps]
vars == <<cs>>

Letters == {"I", "X", "Y", "Z"}
K0 == <<0, 0, 0>>
Cst(name, k) == PMConst(GateAt(name, k))
HP == Cst("H", K0)
RXp == Cst("RX", <<1, 0, 0>>)              \* RX(pi/2)
RXm == Cst("RX", <<3, 0, 0>>)              \* RX(-pi/2) = RX(3 pi/2) up to ... exactly: RX(-pi/2) = -RX(3pi/2); use the adjoint below
CNOTp == Cst("CNOT", K0)
SigmaP(o) == CASE o = "I" -> PMId(2) [] o = "X" -> PMConst(GateAt("X", K0)) [] o = "Y" -> PMConst(GateAt("Y", K0)) [] o = "Z" -> PMConst(GateAt("Z", K0))
RECURSIVE StringP(_, _)
StringP(ops, q) == IF q > NQ THEN PMId(1) ELSE PMKron(SigmaP(ops[q]), StringP(ops, q + 1))          \* qubit 0 leftmost
Support(ops) == LET RECURSIVE L(_) L(q) == IF q > NQ THEN <<>> ELSE (IF ops[q] # "I" THEN <<q - 1>> ELSE <<>>) \o L(q + 1) IN L(1)

\* ---- mechanism: time_evolution_for_term ------------------------------------------------------------------
\* operations as [m (2x2 or 4x4 polynomial matrix), qs]; the circuit is applied left to right
BasisChange(ops) == LET RECURSIVE L(_) L(q) == IF q > NQ THEN <<>> ELSE
                         (IF ops[q] = "X" THEN <<[m |-> HP, qs |-> <<q - 1>>]>> ELSE IF ops[q] = "Y" THEN <<[m |-> RXp, qs |-> <<q - 1>>]>> ELSE <<>>) \o L(q + 1) IN L(1)
Ladder(sup) == [i \in 1..(Len(sup) - 1) |-> [m |-> CNOTp, qs |-> <<sup[i], sup[i + 1]>>]]
InverseOps(seq) == [i \in 1..Len(seq) |-> [m |-> PMAdj(seq[Len(seq) + 1 - i].m), qs |-> seq[Len(seq) + 1 - i].qs]]   \* reversed, each gate's dagger
RZslot(k) == <<<<Z(k, -1), SPZero>>, <<SPZero, Z(k, 1)>>>>
TermOps(ops, k) == LET sup == Support(ops) IN
  IF sup = <<>> THEN <<>>
  ELSE BasisChange(ops) \o Ladder(sup) \o <<[m |-> RZslot(k), qs |-> <<sup[Len(sup)]>>]>> \o InverseOps(Ladder(sup)) \o InverseOps(BasisChange(ops))
RECURSIVE UOfOps(_)
UOfOps(seq) == IF seq = <<>> THEN PMId(2^NQ) ELSE PMMul(UOfOps(Tail(seq)), PMLift(Head(seq).m, Head(seq).qs, NQ))     \* first operation rightmost
\* ---- meaning -----------------------------------------------------------------------------------------------
\* exp(-i (t/n) c P) = cos(angle/2) I - i sin(angle/2) P   with angle/2 = (t/n) c
ExpTerm(ops, k) == IF Support(ops) = <<>> THEN PMId(2^NQ)
                   ELSE PMAdd(PMScale(CosH(k), PMId(2^NQ)), PMScale(SPMul(SPConst(CNegI), SinH(k)), StringP(ops, 1)))
TermCircuitIsExponential == cs.kind = "term" => UOfOps(TermOps(cs.ham[1], 1)) = ExpTerm(cs.ham[1], 1)
ConstantGivesEmptyCircuit == cs.kind = "term" => (Support(cs.ham[1]) = <<>> => TermOps(cs.ham[1], 1) = <<>>)

\* ---- sums: the steps x terms loop ---------------------------------------------------------------------------
RECURSIVE StepOps(_, _)
StepOps(ham, k) == IF k > Len(ham) THEN <<>> ELSE TermOps(ham[k], k) \o StepOps(ham, k + 1)       \* terms in listed order
RECURSIVE Repeat(_, _)
Repeat(seq, n) == IF n = 0 THEN <<>> ELSE seq \o Repeat(seq, n - 1)
EvolveOps(ham, n) == Repeat(StepOps(ham, 1), n)
RECURSIVE StepExp(_, _)
StepExp(ham, k) == IF k > Len(ham) THEN PMId(2^NQ) ELSE PMMul(StepExp(ham, k + 1), ExpTerm(ham[k], k))   \* later terms to the left
RECURSIVE PowP(_, _)
PowP(A, n) == IF n = 0 THEN PMId(Len(A)) ELSE PMMul(A, PowP(A, n - 1))
SumIsOrderedProductOfSteps == cs.kind = "sum" => UOfOps(EvolveOps(cs.ham, cs.steps)) = PowP(StepExp(cs.ham, 1), cs.steps)

\* ---- derivatives ---------------------------------------------------------------------------------------------
\* shifting the time of ONE occurrence of term k by +-pi/(4 r) multiplies that occurrence's z_k by w^(+-1)
ScaleVar(f, k, s) == SPNorm([e \in DOMAIN f |-> CMul(f[e], COmega(s * e[k]))])
PMScaleVar(A, k, s) == TLCEval([r \in 1..Len(A) |-> TLCEval([c \in 1..Len(A[1]) |-> ScaleVar(A[r][c], k, s)])])
\* full-time step used by the defective construction: z_k -> z_k^n in every term
PowVar(f, n) == SPNorm([e \in {<<x[1] * n, x[2] * n, x[3] * n>> : x \in DOMAIN f} |-> f[CHOOSE x \in DOMAIN f : <<x[1] * n, x[2] * n, x[3] * n>> = e]])
PMPowVar(A, n) == TLCEval([r \in 1..Len(A) |-> TLCEval([c \in 1..Len(A[1]) |-> PowVar(A[r][c], n)])])
ShiftedStep(ham, k, s) ==      \* one Trotter step with term k's occurrence shifted
  LET RECURSIVE L(_) L(j) == IF j > Len(ham) THEN PMId(2^NQ) ELSE PMMul(L(j + 1), IF j = k THEN PMScaleVar(ExpTerm(ham[j], j), j, s) ELSE ExpTerm(ham[j], j)) IN L(1)
PlainStep(ham, n) == IF RepeatedUsesFullTime /\ n > 1 THEN PMPowVar(StepExp(ham, 1), n) ELSE StepExp(ham, 1)
DerivCircuit(ham, n, pos, k, s) ==     \* steps 1..n, the step at `pos` replaced by the shifted one (first step rightmost)
  LET RECURSIVE L(_) L(j) == IF j > n THEN PMId(2^NQ) ELSE PMMul(L(j + 1), IF j = pos THEN ShiftedStep(ham, k, s) ELSE PlainStep(ham, n)) IN L(1)
Conj(U, O) == PMMul(PMAdj(U), PMMul(O, U))
RECURSIVE PMSum(_, _)
PMSum(seq, d) == IF seq = <<>> THEN PMConst(MZero(d)) ELSE PMAdd(Head(seq), PMSum(Tail(seq), d))
\* sum over positions of [ (+1) W+^dag O W+  +  (-1) W-^dag O W- ]  for term k  (the common factor c_k/n is divided out)
ShiftSum(ham, n, k, O) == PMSum([pos \in 1..n |-> PMAdd(Conj(DerivCircuit(ham, n, pos, k, 1), O), PMScale(SPConst(CMinus), Conj(DerivCircuit(ham, n, pos, k, -1), O)))], 2^NQ)
\* d/dt of a monomial z_k^e (z_k = e^{i t c_k/n}) is (i c_k/n) e z_k^e:  i * (z_k d/dz_k)
DerivVar(f, k) == SPNorm([e \in DOMAIN f |-> CMul(f[e], CMul(CI, CInt(e[k])))])
PMDerivVar(A, k) == TLCEval([r \in 1..Len(A) |-> TLCEval([c \in 1..Len(A[1]) |-> DerivVar(A[r][c], k)])])
ObsStrings == [1..NQ -> Letters]
ParameterShiftIsDerivative == cs.kind = "deriv" =>
   \A k \in 1..Len(cs.ham) : \A o \in ObsStrings :
      ShiftSum(cs.ham, cs.steps, k, StringP(o, 1)) = PMDerivVar(Conj(PowP(StepExp(cs.ham, 1), cs.steps), StringP(o, 1)), k)

\* ---- the imaginary-part guard ---------------------------------------------------------------------------------
\* coefficient classes: imaginary part in {-1, 0, 1} (times something far above the 1e-9 threshold)
GuardRejects(im) == IF GuardUsesAbs THEN (im > 0 \/ im < 0) ELSE im > 0
ImaginaryCoefficientRejected == \A im \in {-1, 0, 1} : GuardRejects(im) <=> (im # 0)

Init == \/ /\ Cases = "terms" /\ \E o \in [1..NQ -> Letters] : cs = [kind |-> "term", ham |-> <<o>>, steps |-> 1]
        \/ /\ Cases = "sums" /\ \E h \in Hams : \E n \in 1..MaxSteps : cs = [kind |-> "sum", ham |-> h, steps |-> n]
        \/ /\ Cases = "derivs" /\ \E h \in Hams : \E n \in 1..MaxSteps : cs = [kind |-> "deriv", ham |-> h, steps |-> n]
Next == cs.kind # "done" /\ cs' = [cs EXCEPT !.kind = "done"]
\* (the invariants are evaluated on the initial states, which the workers share; one closing transition per case)

O2(a, b) == <<a, b>>
Hams2 == { <<O2("X", "I")>>, <<O2("Z", "Z"), O2("X", "I")>>, <<O2("Z", "I"), O2("I", "Z")>>, <<O2("X", "Y"), O2("Y", "Z")>>,
           <<O2("Z", "I"), O2("I", "I"), O2("Y", "X")>> }
Hams2Big == Hams2 \cup { <<O2("X", "Y"), O2("Z", "I"), O2("Y", "Z")>>, <<O2("X", "X"), O2("X", "X")>> }
Hams1 == { <<<<"X">>>>, <<<<"Z">>, <<"Y">>>>, <<<<"X">>, <<"Z">>, <<"X">>>> }

EmitInv == IF ~Emitting \/ cs.kind = "done" THEN TRUE ELSE
  PrintT(ToJson([kind |-> cs.kind, ham |-> cs.ham, steps |-> cs.steps, nq |-> NQ,
                 poly |-> IF cs.kind = "term" THEN PMList(ExpTerm(cs.ham[1], 1)) ELSE <<>>]))
=============================================================================
