-------------------------------- MODULE Views -------------------------------
(***************************************************************************)
(* C04 - every view of a simulated state agrees on which qubit is which.   *)
(* From a generated program the specification derives, by the documented   *)
(* conventions, every view: amplitudes, exact distribution keyed by bit    *)
(* tuples (qubit 0 first), support, count strings, exact expectation of    *)
(* Z-type operators (quadratic form with the tensor-product matrix, qubit 0*)
(* leftmost) and the eigenvalue average under the exact distribution.      *)
(* The library's two reversals (reversed-bitstring keys of                 *)
(* get_outcome_probs, bitstring_to_tuple reversing again) are transcribed. *)
(***************************************************************************)
EXTENDS GateDefs, TLC, Json

CONSTANTS MaxQ, MaxLen, Mode, Emitting       \* Mode: "basis" (all X-subset circuits) | "super" | "perm"
VARIABLES prog, n, psi, ev, gm
vars == <<prog, n, psi, ev, gm>>
ViewNoGm == <<prog, n, psi, ev>>

K0 == <<0, 0, 0>>
GNames == <<"X", "H", "RY", "S", "CNOT", "CRY", "CCX">>    \* CRY = RY(pi/2).controlled(1): parametric, two qubits, not symmetric; CCX = X.controlled(2)
GK(name) == IF name \in {"RY", "CRY"} THEN <<1, 0, 0>> ELSE K0
GMTab == TLCEval([i \in 1..Len(GNames) |-> IF GNames[i] = "CRY" THEN MBlockId(2, GateAt("RY", <<1, 0, 0>>))
                                           ELSE IF GNames[i] = "CCX" THEN MBlockId(6, GateAt("X", K0)) ELSE GateAt(GNames[i], GK(GNames[i]))])
GIdx(name) == CHOOSE i \in 1..Len(GNames) : GNames[i] = name
GM(name) == gm[GIdx(name)]
Step(name, qs) == [name |-> name, k |-> GK(name), qs |-> qs]

Ket0(nq) == [i \in 1..2^nq |-> IF i = 1 THEN COne ELSE CZero]
Init == /\ gm = GMTab /\ prog = <<>> /\ n \in 1..MaxQ /\ psi = Ket0(n) /\ ev = "new"
LastX == IF prog = <<>> THEN -1 ELSE prog[Len(prog)].qs[1]
AppendG(name, qs) == /\ prog' = prog \o <<Step(name, qs)>> /\ psi' = MApply(Lift(GM(name), qs, n), psi)
                    /\ ev' = "append" /\ UNCHANGED <<n, gm>>
HasCCX == \E i \in 1..Len(prog) : prog[i].name = "CCX"
Next == \/ /\ Mode = "basis" /\ \E q \in 0..(n - 1) : q > LastX /\ AppendG("X", <<q>>)
        \* "perm": a basis state is prepared, then ONE three-qubit gate on an arbitrary ordered triple acts on it
        \/ /\ Mode = "perm" /\ ~HasCCX
           /\ \/ \E q \in 0..(n - 1) : q > LastX /\ AppendG("X", <<q>>)
              \/ \E q \in 0..(n - 1) : \E r \in 0..(n - 1) : \E t \in 0..(n - 1) : q # r /\ q # t /\ r # t /\ AppendG("CCX", <<q, r, t>>)
        \/ /\ Mode = "super" /\ Len(prog) < MaxLen
           /\ \/ \E name \in {"X", "H", "RY", "S"} : \E q \in 0..(n - 1) : AppendG(name, <<q>>)
              \/ \E name \in {"CNOT", "CRY"} : \E q \in 0..(n - 1) : \E r \in 0..(n - 1) : q # r /\ AppendG(name, <<q, r>>)
              \* a three-qubit gate on EVERY ordered triple (the cyclic ones are the permutations that are not involutions)
              \/ \E q \in 0..(n - 1) : \E r \in 0..(n - 1) : \E t \in 0..(n - 1) : q # r /\ q # t /\ r # t /\ AppendG("CCX", <<q, r, t>>)

\* ---- views, by the documented conventions ---------------------------------------------------------------
Prob(i) == CAbsSq(psi[i + 1])
TupleMSB(i) == [q \in 1..n |-> Bit(i, q - 1, n)]                       \* position q-1 of the tuple = qubit q-1
CountString(t) == t                                                     \* tuple_to_bitstring joins the tuple in order
Support == {i \in 0..(2^n - 1) : ~CIsZero(Prob(i))}
\* ---- mechanism of the library's sampler -------------------------------------------------------------------
Rev(s) == [q \in 1..Len(s) |-> s[Len(s) + 1 - q]]
BinaryMSB(i) == [q \in 1..n |-> Bit(i, q - 1, n)]                       \* format(i, "0nb")
OutcomeKey(i) == Rev(BinaryMSB(i))                                     \* get_outcome_probs: [::-1]
BitstringToTuple(s) == Rev(s)                                          \* utils.bitstring_to_tuple: [::-1] again
SampledTupleBranchFew(i) == BitstringToTuple(OutcomeKey(i))            \* choice on strings, convert afterwards
SampledTupleBranchMany(i) == BitstringToTuple(OutcomeKey(i))           \* convert all keys first, choice on tuples
ConventionsCompose == \A i \in 0..(2^n - 1) : SampledTupleBranchFew(i) = TupleMSB(i) /\ SampledTupleBranchMany(i) = TupleMSB(i)
\* ---- Z-type operators ------------------------------------------------------------------------------------------
ZMat == <<<<COne, CZero>>, <<CZero, CMinus>>>>
I2 == MId(2)
RECURSIVE ZString(_, _)
ZString(S, q) == IF q > n THEN <<<<COne>>>> ELSE MKron(IF (q - 1) \in S THEN ZMat ELSE I2, ZString(S, q + 1))   \* qubit 0 leftmost
QuadForm(M, v) == CSumSeq([i \in 1..Len(v) |-> CMul(CConj(v[i]), MApply(M, v)[i])])
ExactZ(S) == QuadForm(ZString(S, 1), psi)
Eigen(i, S) == IF (CHOOSE k \in 0..n : k = Cardinality({q \in S : Bit(i, q, n) = 1})) % 2 = 0 THEN COne ELSE CMinus
EigAvg(S) == CSumSeq([j \in 1..2^n |-> CMul(Prob(j - 1), Eigen(j - 1, S))])
ExactEqualsEigenvalueAverage == \A S \in SUBSET (0..(n - 1)) : ExactZ(S) = EigAvg(S)
Normalised == CSumSeq([j \in 1..2^n |-> Prob(j - 1)]) = COne
SupportIsNonzeroProb == Support # {} /\ \A i \in 0..(2^n - 1) : (i \in Support) <=> ~CIsZero(Prob(i))

SubsetsSeq == LET RECURSIVE L(_) L(SS) == IF SS = {} THEN <<>> ELSE LET a == CHOOSE x \in SS : TRUE IN <<a>> \o L(SS \ {a}) IN L(SUBSET (0..(n - 1)))
SetSeq(S) == LET RECURSIVE L(_) L(T) == IF T = {} THEN <<>> ELSE LET a == CHOOSE x \in T : \A y \in T : x <= y IN <<a>> \o L(T \ {a}) IN L(S)
Emit == IF ~Emitting THEN TRUE ELSE
  LET p2 == psi' IN
  PrintT(ToJson([prog |-> prog', n |-> n, psi |-> p2,
                 probs |-> [j \in 1..2^n |-> CAbsSq(p2[j])],
                 tuples |-> [j \in 1..2^n |-> TupleMSB(j - 1)]]))
\* the Z expectations are exported from the state itself (they refer to psi of the current state)
EmitZ == IF ~Emitting \/ ev = "new" THEN TRUE ELSE
  PrintT(ToJson([zfor |-> prog, n |-> n, z |-> [k \in 1..Len(SubsetsSeq) |-> [S |-> SetSeq(SubsetsSeq[k]), v |-> ExactZ(SubsetsSeq[k])]]]))
=============================================================================
