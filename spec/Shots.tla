-------------------------------- MODULE Shots -------------------------------
(***************************************************************************)
(* C13 - splitting, batching and recombining shots never loses or invents  *)
(* a shot.  Integers only.  A request list goes through the pipeline       *)
(*   Submit -> Expand -> RunAll -> Combine          (expand/run/combine)   *)
(*   Submit -> Batch                                 (batching)            *)
(* The mechanism of the code (ceil-division + remainder branch, islice     *)
(* regrouping, max per batch) is transcribed; the invariants state what    *)
(* the property promises, independently of the mechanism.                  *)
(***************************************************************************)
EXTENDS Integers, Sequences, FiniteSets, TLC, Json

CONSTANTS MaxLen,      \* longest request list
          MaxN,        \* largest per-circuit sample count
          MaxMax,      \* largest maximum sample size / batch size
          Emitting     \* BOOLEAN: print one JSON record per transition

VARIABLES ph,          \* "idle" | "submitted" | "expanded" | "ran" | "combined" | "batched"
          ns,          \* requested sample counts, one per circuit (circuits are identified by their position)
          mx,          \* maximum sample size (expansion) or maximum batch size (batching)
          owners,      \* expanded circuit list: owners[i] = position of the original circuit of copy i
          chunks,      \* expanded sample counts, one per copy
          mult,        \* multiplicities, one per original circuit
          runs,        \* runs[i] = <<copy index i, number of shots delivered>>  (shots are labelled by the copy)
          comb,        \* comb[j] = sequence of <<copy, shots>> merged for original circuit j
          batches      \* sequence of [circs |-> sequence of positions, n |-> samples requested for the batch]
vars == <<ph, ns, mx, owners, chunks, mult, runs, comb, batches>>

RECURSIVE Sum(_)
Sum(s) == IF s = <<>> THEN 0 ELSE Head(s) + Sum(Tail(s))
RECURSIVE Flat(_)
Flat(ss) == IF ss = <<>> THEN <<>> ELSE Head(ss) \o Flat(Tail(ss))
Rep(x, k) == [i \in 1..k |-> x]
Max2(a, b) == IF a >= b THEN a ELSE b
RECURSIVE MaxSeq(_)
MaxSeq(s) == IF Len(s) = 1 THEN s[1] ELSE Max2(Head(s), MaxSeq(Tail(s)))
SeqsUpTo(S, n) == UNION {[1..k -> S] : k \in 0..n}

\* ---- mechanism, transcribed from circuits/_itertools.py -------------------------------------
CeilDiv(n, m) == (n + m - 1) \div m
ExpandOne(n, m) ==                     \* _expand_sample_size
  LET q == CeilDiv(n, m) IN
  [new |-> IF n % m = 0 THEN Rep(m, q) ELSE Rep(m, q - 1) \o <<n % m>>, multi |-> q]
ExpandAll(nn, m) ==
  LET parts == [j \in 1..Len(nn) |-> ExpandOne(nn[j], m)] IN
  [chunks |-> Flat([j \in 1..Len(nn) |-> parts[j].new]),
   mult   |-> [j \in 1..Len(nn) |-> parts[j].multi],
   owners |-> Flat([j \in 1..Len(nn) |-> Rep(j, parts[j].multi)])]
\* islice regrouping of combine_measurement_counts / combine_bitstrings
RECURSIVE Regroup(_, _)
Regroup(items, mu) == IF mu = <<>> THEN <<>>
                      ELSE <<SubSeq(items, 1, Head(mu))>> \o Regroup(SubSeq(items, Head(mu) + 1, Len(items)), Tail(mu))
\* split_into_batches: chunks of mx consecutive circuits, samples = max of the chunk
RECURSIVE BatchesOf(_, _, _)
BatchesOf(pos, nn, m) ==
  IF pos = <<>> THEN <<>>
  ELSE LET k == IF Len(pos) < m THEN Len(pos) ELSE m IN
       <<[circs |-> SubSeq(pos, 1, k), n |-> MaxSeq(SubSeq(nn, 1, k))]>>
          \o BatchesOf(SubSeq(pos, k + 1, Len(pos)), SubSeq(nn, k + 1, Len(nn)), m)

\* ---- actions -------------------------------------------------------------------------------
Init == /\ ph = "idle" /\ ns = <<>> /\ mx = 0 /\ owners = <<>> /\ chunks = <<>> /\ mult = <<>>
        /\ runs = <<>> /\ comb = <<>> /\ batches = <<>>

Submit == /\ ph = "idle"
          /\ ns' \in SeqsUpTo(1..MaxN, MaxLen)
          /\ mx' \in 1..MaxMax
          /\ ph' = "submitted"
          /\ UNCHANGED <<owners, chunks, mult, runs, comb, batches>>

Expand == /\ ph = "submitted"
          /\ LET e == ExpandAll(ns, mx) IN chunks' = e.chunks /\ mult' = e.mult /\ owners' = e.owners
          /\ ph' = "expanded"
          /\ UNCHANGED <<ns, mx, runs, comb, batches>>

\* an honest runner: copy i delivers exactly the chunks[i] shots it was asked for, all labelled i
RunAll == /\ ph = "expanded"
          /\ runs' = [i \in 1..Len(chunks) |-> <<i, chunks[i]>>]
          /\ ph' = "ran"
          /\ UNCHANGED <<ns, mx, owners, chunks, mult, comb, batches>>

Combine == /\ ph = "ran"
           /\ comb' = Regroup(runs, mult)
           /\ ph' = "combined"
           /\ UNCHANGED <<ns, mx, owners, chunks, mult, runs, batches>>

Batch == /\ ph = "submitted"
         /\ batches' = BatchesOf([j \in 1..Len(ns) |-> j], ns, mx)
         /\ ph' = "batched"
         /\ UNCHANGED <<ns, mx, owners, chunks, mult, runs, comb>>

Next == Submit \/ Expand \/ RunAll \/ Combine \/ Batch

\* ---- what the property promises ----------------------------------------------------------------
Expanded == ph \in {"expanded", "ran", "combined"}
ChunksWithinBounds == Expanded => \A i \in 1..Len(chunks) : chunks[i] >= 1 /\ chunks[i] <= mx
ChunksSumToRequest == Expanded =>
   \A j \in 1..Len(ns) : Sum([i \in 1..Len(chunks) |-> IF owners[i] = j THEN chunks[i] ELSE 0]) = ns[j]
MultiplicitiesMatch == Expanded =>
   /\ Len(mult) = Len(ns) /\ Len(owners) = Len(chunks) /\ Sum(mult) = Len(chunks)
   /\ \A j \in 1..Len(ns) : mult[j] = Cardinality({i \in 1..Len(owners) : owners[i] = j})
   /\ \A i \in 1..(Len(owners) - 1) : owners[i] <= owners[i + 1]          \* originals in order, copies adjacent
ExpandRunCombineConserves == ph = "combined" =>
   /\ Len(comb) = Len(ns)
   /\ \A j \in 1..Len(ns) : Sum([t \in 1..Len(comb[j]) |-> comb[j][t][2]]) = ns[j]
   /\ \A j \in 1..Len(ns) : \A t \in 1..Len(comb[j]) : owners[comb[j][t][1]] = j   \* no foreign shot
   /\ Flat(comb) = runs                                                        \* every copy exactly once, in order
BatchesCoverInOrder == ph = "batched" => Flat([b \in 1..Len(batches) |-> batches[b].circs]) = [j \in 1..Len(ns) |-> j]
BatchSizeBounded == ph = "batched" => \A b \in 1..Len(batches) : Len(batches[b].circs) >= 1 /\ Len(batches[b].circs) <= mx
BatchSamplesSuffice == ph = "batched" =>
   \A b \in 1..Len(batches) : \A t \in 1..Len(batches[b].circs) : batches[b].n >= ns[batches[b].circs[t]]

\* ---- relational specifications of the two rounding helpers (allowed sets) ------------------------
\* scale_and_discretize(weights, total): integers summing to total, each within one of its share w*total/W
ScaleAllowed(w, total, r) ==
  LET W == Sum(w) IN
  /\ Len(r) = Len(w) /\ Sum(r) = total
  /\ \A i \in 1..Len(w) : r[i] >= 0 /\ (r[i] - 1) * W < w[i] * total /\ w[i] * total < (r[i] + 1) * W
\* mechanism: floor, then +1 on the (total - sum of floors) largest remainders, ties in any order
FloorShare(w, total) == [i \in 1..Len(w) |-> (w[i] * total) \div Sum(w)]
Remainder(w, total)  == [i \in 1..Len(w) |-> (w[i] * total) % Sum(w)]
ScaleMechanism(w, total) ==
  LET f == FloorShare(w, total) rm == Remainder(w, total) d == total - Sum(f) IN
  { [i \in 1..Len(w) |-> f[i] + (IF i \in T THEN 1 ELSE 0)] :
      T \in {T \in SUBSET (1..Len(w)) : /\ Cardinality(T) = d
                                         /\ \A i \in T : \A j \in (1..Len(w)) \ T : rm[i] >= rm[j]} }
\* the design lemma: whatever the tie-break, floor + largest remainders lands in the allowed set
ScaleMechanismSound(w, total) == /\ ScaleMechanism(w, total) # {}
                                 /\ \A r \in ScaleMechanism(w, total) : ScaleAllowed(w, total, r)
ScaleLemma == \A k \in 1..MaxLen : \A w \in [1..k -> 1..MaxMax] : \A total \in 0..MaxN : ScaleMechanismSound(w, total)
\* get_measurements_representing_distribution(dist, N): exactly N shots, all on the support
\* (dist: sequence of weights, outcome i has probability dist[i]/Sum(dist)); result: shots per outcome
RepresentAllowed(dist, N, r) ==
  /\ Len(r) = Len(dist) /\ Sum(r) = N /\ \A i \in 1..Len(dist) : r[i] >= 0 /\ (dist[i] = 0 => r[i] = 0)

ASSUME ScaleLemma

\* ---- behaviour export --------------------------------------------------------------------------
Emit == IF ~Emitting THEN TRUE ELSE
  CASE ph' = "expanded" -> PrintT(ToJson([k |-> "expand", ns |-> ns, mx |-> mx, chunks |-> chunks', mult |-> mult', owners |-> owners']))
    [] ph' = "combined" -> PrintT(ToJson([k |-> "combine", ns |-> ns, mx |-> mx, runs |-> runs, mult |-> mult, comb |-> comb']))
    [] ph' = "batched"  -> PrintT(ToJson([k |-> "batch", ns |-> ns, mx |-> mx, batches |-> batches']))
    [] OTHER -> TRUE
=============================================================================
