----------------------------- MODULE CircuitSem -----------------------------
(***************************************************************************)
(* C01 - a circuit acts as the ordered product of its gates on the named   *)
(* qubits (qubit 0 = most significant bit).                                *)
(*   meaning:    Mat!Lift  (defined by index bits)                         *)
(*   mechanism:  LiftMech  (shift to smallest index, permutation making the*)
(*               active qubits adjacent, G (x) I, conjugation by the       *)
(*               permutation matrix, identity padding) - _lift_matrix      *)
(* A program is a sequence of steps [g, qs, ph]: g > 0 an entry of the gate*)
(* alphabet on the ordered tuple qs; g = 0 a phase-only operation with     *)
(* angles ph[j] * pi/4 on the whole register.                              *)
(* The simulator base class is modelled by SplitRuns / Threaded: maximal   *)
(* native / non-native runs, state threaded through them.                  *)
(***************************************************************************)
EXTENDS GateDefs, TLC, Json

CONSTANTS MaxQ,       \* widest register
          MaxLen,     \* longest program
          Alphabet,   \* set of alphabet indices offered to AppendGate
          Mode,       \* "programs" | "lift"
          Emitting

VARIABLES prog, n, U, psi, ev,
          gm       \* the alphabet's exact matrices, computed once in Init (TLC does not cache definitions built from RECURSIVE operators)
vars == <<prog, n, U, psi, ev, gm>>
ViewNoGm == <<prog, n, U, psi, ev>>

\* ---- the gate alphabet -------------------------------------------------------------------------------
K0 == <<0, 0, 0>>
TM1 == GateAt("T", K0)
HM1 == GateAt("H", K0)
SM1 == GateAt("S", K0)
CNOTm == GateAt("CNOT", K0)
A2 == MMul(MKron(TM1, HM1), MMul(CNOTm, MKron(SM1, GateAt("RX", <<1, 0, 0>>))))          \* no qubit-permutation symmetry
A3 == LET a2 == TLCEval(A2) IN MMul(Lift(a2, <<0, 2>>, 3), MMul(Lift(MMul(TM1, HM1), <<1>>, 3), Lift(CNOTm, <<2, 1>>, 3)))
\* a four-qubit gate without any qubit-permutation symmetry (a controlled-controlled-CNOT is symmetric in its three controls)
A4 == LET a2 == TLCEval(A2) a3 == TLCEval(A3) IN MMul(Lift(a3, <<0, 3, 1>>, 4), Lift(a2, <<2, 0>>, 4))
Entry(name, k, ar, kind, nc) == [name |-> name, k |-> k, ar |-> ar, kind |-> kind, nc |-> nc]
Gate == <<
  Entry("H", K0, 1, "builtin", 0), Entry("T", K0, 1, "builtin", 0), Entry("RX", <<1, 0, 0>>, 1, "builtin", 0), Entry("SX", K0, 1, "builtin", 0),
  Entry("CNOT", K0, 2, "builtin", 0), Entry("ISWAP", K0, 2, "builtin", 0), Entry("XX", <<1, 0, 0>>, 2, "builtin", 0), Entry("A2", K0, 2, "custom", 0),
  Entry("X", K0, 3, "ctrl", 2), Entry("A3", K0, 3, "custom", 0),
  Entry("CNOT", K0, 4, "ctrl", 2),
  Entry("U3", <<1, 1, 2>>, 1, "builtin", 0), Entry("Y", K0, 1, "builtin", 0), Entry("RZ", <<3, 0, 0>>, 1, "builtin", 0), Entry("GPi2", <<1, 0, 0>>, 1, "builtin", 0),
  Entry("SWAP", K0, 2, "builtin", 0), Entry("CZ", K0, 2, "builtin", 0), Entry("XY", <<1, 0, 0>>, 2, "builtin", 0), Entry("MS", <<1, 2, 0>>, 2, "builtin", 0),
  Entry("S", K0, 2, "ctrl", 1), Entry("CPHASE", <<1, 0, 0>>, 2, "builtin", 0),
  Entry("T", K0, 2, "ctrl", 1), Entry("Y", K0, 3, "ctrl", 2),
  Entry("A4", K0, 4, "custom", 0),
  Entry("RZ", <<1, 0, 0>>, 2, "ctrl", 1) >>     \* a DIAGONAL two-qubit gate whose diagonal changes under bit reversal (c-S, CZ, ZZ do not)      \* wrapped gates that differ ONLY in the wrapped gate (same wrapper, arity, parameters)
GMCompute(g) == LET e == Gate[g] IN
  CASE e.kind = "builtin" -> GateAt(e.name, e.k)
    [] e.kind = "ctrl" -> LET b == GateAt(e.name, e.k) IN MBlockId(Len(b) * (2^e.nc - 1), b)
    [] e.kind = "custom" -> IF e.name = "A2" THEN A2 ELSE IF e.name = "A3" THEN A3 ELSE A4
GMTab == TLCEval([g \in 1..Len(Gate) |-> GMCompute(g)])
GM(g) == gm[g]
AlphabetQuick == {1, 2, 3, 5, 6, 8, 9, 10, 20, 22, 23, 25}
AlphabetAll == 1..Len(Gate)

\* ---- mechanism: _lift_matrix ----------------------------------------------------------------------------
MinOf(s) == CHOOSE x \in SeqRange(s) : \A y \in SeqRange(s) : x <= y
MaxOf(s) == CHOOSE x \in SeqRange(s) : \A y \in SeqRange(s) : x >= y
RECURSIVE Others(_, _, _)
Others(i, m, used) == IF i >= m THEN <<>> ELSE (IF i \in used THEN <<>> ELSE <<i>>) \o Others(i + 1, m, used)
IdxOfBits(bits) == LET m == Len(bits) RECURSIVE F(_) F(t) == IF t > m THEN 0 ELSE bits[t] * 2^(m - t) + F(t + 1) IN F(1)
PermMatrix(perm) ==                       \* _permutation_matrix: column i = basis vector of _permute(bits(i), perm)
  LET m == Len(perm) IN
  [r \in 1..2^m |-> [c \in 1..2^m |->
      IF r - 1 = IdxOfBits([t \in 1..m |-> Bit(c - 1, perm[t], m)]) THEN COne ELSE CZero]]
LiftMech(M, qs, nq) ==
  LET smallest == MinOf(qs)  largest == MaxOf(qs)
      shifted == [t \in 1..Len(qs) |-> qs[t] - smallest]
      m == largest - smallest + 1
      perm == shifted \o Others(0, m, SeqRange(shifted))
      P == PermMatrix(perm)
      innerGate == MKron(M, MId(2^(m - Len(qs))))
      inner == MMul(MTr(P), MMul(innerGate, P))
  IN MKron(MKron(MId(2^smallest), inner), MId(2^(nq - largest - 1)))

\* ---- programs ---------------------------------------------------------------------------------------------
GStep(g, qs) == [g |-> g, qs |-> qs, ph |-> <<>>]
PStep(ks) == [g |-> 0, qs |-> <<>>, ph |-> ks]
PhaseDiag(ks) == [r \in 1..Len(ks) |-> [c \in 1..Len(ks) |-> IF r = c THEN COmega(ks[r]) ELSE CZero]]
StepMatDef(s, nq) == IF s.g = 0 THEN PhaseDiag(s.ph) ELSE Lift(GM(s.g), s.qs, nq)          \* meaning
StepMatMech(s, nq) == IF s.g = 0 THEN PhaseDiag(s.ph) ELSE LiftMech(GM(s.g), s.qs, nq)     \* mechanism
RECURSIVE ProdDef(_, _)
ProdDef(p, nq) == IF p = <<>> THEN MId(2^nq) ELSE MMul(ProdDef(Tail(p), nq), StepMatDef(Head(p), nq))     \* first step rightmost
Tuples(k, nq) == {t \in [1..k -> 0..(nq - 1)] : \A i, j \in 1..k : i # j => t[i] # t[j]}
StepWidth(s) == IF s.g = 0 THEN 0 ELSE MaxOf(s.qs) + 1
HasPhase(p) == \E i \in 1..Len(p) : p[i].g = 0
\* start vector (|0..0> + i |10..0>)/sqrt2 - the family is closed under widening the register by |0> qubits
PadVec(v, m, nq) == IF nq = m THEN v ELSE [i \in 1..2^nq |-> IF (i - 1) % 2^(nq - m) = 0 THEN v[((i - 1) \div 2^(nq - m)) + 1] ELSE CZero]   \* new qubits in |0>

Psi0(nq) == PadVec(<<CInvSqrt2, CMul(CI, CInvSqrt2)>>, 1, nq)
Ev(op, arg) == [op |-> op, arg |-> arg]
InitPrograms == /\ Mode = "programs" /\ gm = GMTab /\ prog = <<>> /\ n \in 1..MaxQ /\ U = MId(2^n) /\ psi = Psi0(n) /\ ev = Ev("new", <<>>)
\* append one gate operation; the register grows when the tuple reaches beyond it (circuit + operation)
AppendGate(g, qs) ==
  LET nn == IF MaxOf(qs) + 1 > n THEN MaxOf(qs) + 1 ELSE n IN
  /\ Len(prog) < MaxLen
  /\ (nn > n => ~HasPhase(prog))                     \* a phase operation fixes the register width it was built for
  /\ prog' = Append(prog, GStep(g, qs)) /\ n' = nn
  /\ U' = MMul(LiftMech(GM(g), qs, nn), Pad(U, n, nn))
  /\ psi' = MApply(LiftMech(GM(g), qs, nn), PadVec(psi, n, nn))
  /\ ev' = Ev("append", <<g>>)
AppendPhase(ks) ==
  /\ Len(prog) < MaxLen /\ Len(ks) = 2^n
  /\ prog' = Append(prog, PStep(ks)) /\ n' = n
  /\ U' = MMul(PhaseDiag(ks), U) /\ psi' = MApply(PhaseDiag(ks), psi)
  /\ ev' = Ev("phase", ks)
\* concatenation with a second, independently built circuit (its own width, possibly larger or smaller)
Seconds == { [p |-> <<GStep(5, <<1, 0>>), GStep(2, <<0>>)>>, n |-> 2], [p |-> <<GStep(1, <<0>>)>>, n |-> 3],
             [p |-> <<>>, n |-> 2], [p |-> <<GStep(8, <<2, 0>>)>>, n |-> 3], [p |-> <<GStep(3, <<0>>)>>, n |-> 1] }
UOf(cc) == ProdDef(cc.p, cc.n)
Concat(c2) ==
  LET nn == IF c2.n > n THEN c2.n ELSE n IN
  /\ Len(prog) + Len(c2.p) <= MaxLen + 1 /\ nn <= MaxQ /\ Len(prog) >= 1
  /\ (HasPhase(prog) => c2.n <= n)          \* a phase operation lists one phase per basis state of ITS register: the width must not grow
  /\ prog' = prog \o c2.p /\ n' = nn
  /\ U' = MMul(Pad(UOf(c2), c2.n, nn), Pad(U, n, nn))
  /\ psi' = MApply(Pad(UOf(c2), c2.n, nn), PadVec(psi, n, nn))
  /\ ev' = Ev("concat", <<c2.n, Len(c2.p)>>)
PhaseChoices == {[i \in 1..2^n |-> (3 * i + 1) % 8], [i \in 1..2^n |-> IF i = 1 THEN 0 ELSE IF i % 2 = 0 THEN 5 ELSE 2]}
NextPrograms ==
  \/ \E g \in Alphabet : \E qs \in Tuples(Gate[g].ar, MaxQ) : AppendGate(g, qs)
  \/ \E ks \in PhaseChoices : AppendPhase(ks)
  \/ \E c2 \in Seconds : Concat(c2)

\* "lift" mode: one state per (gate, ordered tuple, width) - the mechanism against the definition, arity 1..4
\* (one initial state per gate and width, so that the workers share the cases)
InitLift == /\ Mode = "lift" /\ gm = GMTab /\ prog = <<>> /\ n \in 1..MaxQ /\ U = MId(2) /\ psi = Psi0(1) /\ \E g \in Alphabet : ev = Ev("liftinit", <<g>>)
NextLift == /\ prog = <<>>
            /\ \E g \in {ev.arg[1]} : \E nq \in {n} : \E qs \in Tuples(Gate[g].ar, nq) :
                 /\ prog' = <<GStep(g, qs)>> /\ n' = nq /\ U' = LiftMech(GM(g), qs, nq) /\ psi' = Psi0(1) /\ ev' = Ev("lift", <<g>>)
Init == InitPrograms \/ InitLift
Next == /\ UNCHANGED gm
        /\ (Mode = "programs" /\ NextPrograms) \/ (Mode = "lift" /\ NextLift)

\* ---- the simulator base class: split into maximal native / non-native runs, thread the state -----------------
Class(s) == IF s.g = 0 THEN "ph" ELSE IF Gate[s.g].ar = 1 THEN "a1" ELSE IF Gate[s.g].ar = 2 THEN "a2" ELSE "a3"
IsNat(s, Ntv) == Class(s) \in Ntv
RECURSIVE SplitRuns(_, _)
SplitRuns(p, Ntv) ==            \* itertools.groupby on the predicate
  IF p = <<>> THEN <<>>
  ELSE LET b == IsNat(p[1], Ntv)
           RECURSIVE Take(_) Take(i) == IF i <= Len(p) /\ IsNat(p[i], Ntv) = b THEN Take(i + 1) ELSE i - 1
           k == Take(1)
       IN <<[nat |-> b, ops |-> SubSeq(p, 1, k)]>> \o SplitRuns(SubSeq(p, k + 1, Len(p)), Ntv)
RECURSIVE Threaded(_, _, _)
Threaded(runs, v, nq) ==
  IF runs = <<>> THEN v
  ELSE LET r == Head(runs) IN
       IF r.nat THEN Threaded(Tail(runs), MApply(ProdDef(r.ops, nq), v), nq)            \* handed to the native engine as one circuit
       ELSE LET RECURSIVE Each(_, _) Each(ops, w) == IF ops = <<>> THEN w ELSE Each(Tail(ops), MApply(StepMatDef(Head(ops), nq), w))
            IN Threaded(Tail(runs), Each(r.ops, v), nq)
RECURSIVE FlatRuns(_)
FlatRuns(runs) == IF runs = <<>> THEN <<>> ELSE Head(runs).ops \o FlatRuns(Tail(runs))
NativeSeqs == << <<"ph", "a1", "a2", "a3">>, <<>>, <<"ph">>, <<"a1">>, <<"a2", "a3">>, <<"a1", "ph">> >>
NativeChoices == {SeqRange(NativeSeqs[i]) : i \in 1..Len(NativeSeqs)}

\* ---- what the property promises -------------------------------------------------------------------------------
LiftMechanismIsDefinition == (ev.op = "lift") => U = Lift(GM(prog[1].g), prog[1].qs, n)
UnitaryIsOrderedProduct == (Mode = "programs") => U = ProdDef(prog, n)
UIsUnitary == ev.op # "liftinit" => IsUnitary(U)
StepwiseEqualsWhole == (Mode = "programs") => psi = MApply(U, Psi0(n))
WidthIsMax == (Mode = "programs" /\ ev.op = "append") => n >= StepWidth(prog[Len(prog)])
SplitIsPartition == (Mode = "programs") => \A Ntv \in NativeChoices :
   LET runs == SplitRuns(prog, Ntv) IN
   /\ FlatRuns(runs) = prog
   /\ \A i \in 1..Len(runs) : Len(runs[i].ops) >= 1 /\ \A j \in 1..Len(runs[i].ops) : IsNat(runs[i].ops[j], Ntv) = runs[i].nat
   /\ \A i \in 1..(Len(runs) - 1) : runs[i].nat # runs[i + 1].nat
NativeSplitIrrelevant == (Mode = "programs") => \A Ntv \in NativeChoices :
   Threaded(SplitRuns(prog, Ntv), Psi0(n), n) = MApply(ProdDef(prog, n), Psi0(n))
NoOverflow == MSmall(U)

StepJ(s) == [g |-> s.g, qs |-> s.qs, ph |-> s.ph,
             name |-> IF s.g = 0 THEN "phase" ELSE Gate[s.g].name, k |-> IF s.g = 0 THEN K0 ELSE Gate[s.g].k,
             kind |-> IF s.g = 0 THEN "phase" ELSE Gate[s.g].kind, nc |-> IF s.g = 0 THEN 0 ELSE Gate[s.g].nc,
             m |-> IF s.g # 0 /\ Gate[s.g].kind = "custom" THEN GM(s.g) ELSE <<>>]
Emit == IF ~Emitting THEN TRUE ELSE
  PrintT(ToJson([op |-> ev'.op, arg |-> ev'.arg, pre |-> [i \in 1..Len(prog) |-> StepJ(prog[i])], pren |-> n,
                 prog |-> [i \in 1..Len(prog') |-> StepJ(prog'[i])], n |-> n', U |-> U',
                 segs |-> [i \in 1..Len(NativeSeqs) |-> [nat |-> NativeSeqs[i], runs |-> [j \in 1..Len(SplitRuns(prog', SeqRange(NativeSeqs[i]))) |->
                              [nat |-> SplitRuns(prog', SeqRange(NativeSeqs[i]))[j].nat, len |-> Len(SplitRuns(prog', SeqRange(NativeSeqs[i]))[j].ops)]]]]]))
CustomJ == PrintT(ToJson([custom |-> [A2 |-> A2, A3 |-> A3]]))
=============================================================================
