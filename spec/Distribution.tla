---------------------------- MODULE Distribution ----------------------------
(***************************************************************************)
(* C17 - outcome distributions stay normalised; marginals are fibre sums.  *)
(* A distribution is a function from outcome tuples (sequences over 0..2,  *)
(* all of one length) to rational weights.  Pool of live objects; a        *)
(* constructor that normalises / rejects, the marginal on an ordered list  *)
(* of distinct qubits, save+load, and distance observations on pairs.      *)
(***************************************************************************)
EXTENDS Rat, FiniteSets, TLC, Json

CONSTANTS MaxObjs, Depth, Emitting
VARIABLES objs,    \* sequence of [d (function key -> weight), norm (was built with normalisation on / is normalised)]
          ev
vars == <<objs, ev>>

Keys(d) == DOMAIN d
RECURSIVE RSumSet(_, _)
RSumSet(d, S) == IF S = {} THEN R(0) ELSE LET k == CHOOSE x \in S : TRUE IN RAdd(d[k], RSumSet(d, S \ {k}))
Total(d) == RSumSet(d, Keys(d))
WellFormed(d) == /\ Keys(d) # {}
                 /\ \A k \in Keys(d) : RLeq(R(0), d[k])
                 /\ \A k1 \in Keys(d) : \A k2 \in Keys(d) : Len(k1) = Len(k2)
Normalise(d) == [k \in Keys(d) |-> RDiv(d[k], Total(d))]
Width(d) == Len(CHOOSE k \in Keys(d) : TRUE)

\* ---- raw inputs offered to the constructor (dictionaries; some ill-formed) ----------------------------------
D1(a, b) == (<<0>> :> a) @@ (<<1>> :> b)
D2(a, b, c, d) == (<<0, 0>> :> a) @@ (<<0, 1>> :> b) @@ (<<1, 0>> :> c) @@ (<<1, 1>> :> d)
Inputs == {
  D1(<<1, 2>>, <<1, 2>>), D1(R(1), R(3)), D1(R(0), R(2)),
  D1(<<1, 2>>, <<5000001, 10000000>>),                                               \* total 1 + 1e-7: not normalised, must be rescaled
  D2(<<1, 4>>, <<1, 4>>, <<1, 4>>, <<1, 4>>), D2(R(1), R(2), R(3), R(0)), D2(<<1, 8>>, <<3, 8>>, <<1, 2>>, R(0)),
  (<<0, 2>> :> R(1)) @@ (<<2, 1>> :> R(1)) @@ (<<1, 1>> :> R(2)),                  \* non-bit outcomes
  \* three qubits, no symmetry under any permutation of them: the six orders of the full list and the orders of its sublists all differ
  (<<0, 0, 1>> :> <<1, 2>>) @@ (<<0, 1, 0>> :> <<3, 10>>) @@ (<<0, 1, 1>> :> <<1, 5>>),
  (<<0, 1>> :> <<1, 2>>) @@ (<<1, 0>> :> <<1, 2>>),                                 \* missing keys
  D1(R(0), R(0)),                                                                    \* all-zero: cannot be normalised
  D1(R(-1), R(2)),                                                                   \* negative weight
  (<<0>> :> R(1)) @@ (<<0, 1>> :> R(1)),                                             \* unequal key lengths
  << >> }                                                                            \* empty
IsZeroTotal(d) == Keys(d) # {} /\ Total(d) = R(0)

\* ---- mechanism of subdistribution: walk the keys, accumulate under the projected key ------------------------
Project(k, qs) == [i \in 1..Len(qs) |-> k[qs[i] + 1]]
RECURSIVE Accumulate(_, _, _, _)
Accumulate(d, todo, qs, acc) ==
  IF todo = {} THEN acc
  ELSE LET k == CHOOSE x \in todo : TRUE
           nk == Project(k, qs)
           cur == IF nk \in DOMAIN acc THEN acc[nk] ELSE R(0)
       IN Accumulate(d, todo \ {k}, qs, [x \in (DOMAIN acc) \cup {nk} |-> IF x = nk THEN RAdd(cur, d[k]) ELSE acc[x]])
MarginalMech(d, qs) == Accumulate(d, Keys(d), qs, << >>)
\* ---- meaning: the marginal ------------------------------------------------------------------------------------
Fibre(d, qs, nk) == {k \in Keys(d) : Project(k, qs) = nk}
MarginalDef(d, qs) == [nk \in {Project(k, qs) : k \in Keys(d)} |-> RSumSet(d, Fibre(d, qs, nk))]
QubitLists(w) == {qs \in UNION {[1..m -> 0..(w - 1)] : m \in 1..w} : \A i, j \in 1..Len(qs) : i # j => qs[i] # qs[j]}

Ev(op, o, o2, qs, nrm, out, res) == [op |-> op, o |-> o, o2 |-> o2, qs |-> qs, nrm |-> nrm, out |-> out, res |-> res, inp |-> << >>]
Init == objs = <<>> /\ ev = Ev("init", 0, 0, <<>>, TRUE, "ok", 0)
New(inp, nrm) ==
  /\ Len(objs) < MaxObjs
  /\ IF ~WellFormed(inp) \/ (nrm /\ IsZeroTotal(inp))
     THEN objs' = objs /\ ev' = [Ev("new", 0, 0, <<>>, nrm, "rejected", 0) EXCEPT !.inp = inp]
     ELSE /\ objs' = Append(objs, [d |-> IF nrm THEN Normalise(inp) ELSE inp, norm |-> nrm \/ Total(inp) = R(1)])
          /\ ev' = [Ev("new", 0, 0, <<>>, nrm, "ok", Len(objs) + 1) EXCEPT !.inp = inp]
Marginal(o, qs) ==
  /\ Len(objs) < MaxObjs
  /\ objs' = Append(objs, [d |-> MarginalMech(objs[o].d, qs), norm |-> objs[o].norm])
  /\ ev' = [Ev("marginal", o, 0, qs, TRUE, "ok", Len(objs) + 1) EXCEPT !.inp = << >>]
SaveLoad(o) ==
  /\ Len(objs) < MaxObjs /\ objs[o].norm
  /\ objs' = Append(objs, objs[o])
  /\ ev' = [Ev("saveload", o, 0, <<>>, TRUE, "ok", Len(objs) + 1) EXCEPT !.inp = << >>]
BitKeys(d) == \A k \in Keys(d) : \A i \in 1..Len(k) : k[i] \in {0, 1}
Distance(o1, o2) ==
  /\ objs[o1].norm /\ objs[o2].norm /\ Width(objs[o1].d) = Width(objs[o2].d) /\ BitKeys(objs[o1].d) /\ BitKeys(objs[o2].d)
  /\ objs' = objs
  /\ ev' = [Ev("distance", o1, o2, <<>>, TRUE, "ok", 0) EXCEPT !.inp = << >>]
Next == \/ \E inp \in Inputs : \E nrm \in BOOLEAN : New(inp, nrm)
        \/ \E o \in 1..Len(objs) : \E qs \in QubitLists(Width(objs[o].d)) : Marginal(o, qs)
        \/ \E o \in 1..Len(objs) : SaveLoad(o)
        \/ \E o1 \in 1..Len(objs) : \E o2 \in 1..Len(objs) : Distance(o1, o2)
DepthBound == TLCGet("level") <= Depth
ViewObjs == objs

\* ---- what the property promises -----------------------------------------------------------------------------------
NormalisedSumsToOne == \A o \in 1..Len(objs) : objs[o].norm => (Total(objs[o].d) = R(1) /\ \A k \in Keys(objs[o].d) : RLeq(R(0), objs[o].d[k]))
EveryObjectWellFormed == \A o \in 1..Len(objs) : WellFormed(objs[o].d)
SameProportions == [][(ev'.op = "new" /\ ev'.out = "ok" /\ ev'.nrm) =>
     LET d == objs'[ev'.res].d IN Keys(d) = Keys(ev'.inp) /\ \A k \in Keys(d) : RMul(d[k], Total(ev'.inp)) = ev'.inp[k]]_vars
RejectsIllFormed == [][ev'.op = "new" => ((ev'.out = "rejected") <=> (~WellFormed(ev'.inp) \/ (ev'.nrm /\ IsZeroTotal(ev'.inp))))]_vars
MarginalIsSumOverFibres == [][ev'.op = "marginal" => objs'[ev'.res].d = MarginalDef(objs[ev'.o].d, ev'.qs)]_vars
SourceUnchanged == [][\A o \in 1..Len(objs) : objs'[o] = objs[o]]_vars
SaveLoadSame == [][ev'.op = "saveload" => objs'[ev'.res] = objs[ev'.o]]_vars

DJ(d) == LET RECURSIVE L(_) L(S) == IF S = {} THEN <<>> ELSE LET k == CHOOSE x \in S : TRUE IN <<[k |-> k, p |-> d[k]]>> \o L(S \ {k}) IN L(Keys(d))
ObjsJ(os) == [o \in 1..Len(os) |-> [d |-> DJ(os[o].d), norm |-> os[o].norm]]
Emit == IF ~Emitting THEN TRUE ELSE
  PrintT(ToJson([op |-> ev'.op, o |-> ev'.o, o2 |-> ev'.o2, qs |-> ev'.qs, nrm |-> ev'.nrm, out |-> ev'.out, res |-> ev'.res,
                 inp |-> DJ(ev'.inp), pre |-> ObjsJ(objs), post |-> ObjsJ(objs')]))
=============================================================================
