------------------------------- MODULE Targets -------------------------------
(***************************************************************************)
(* Growth (reported under C17, beyond its statement): the target           *)
(* distributions the library can generate.                                 *)
(*  - bars and stripes on an r x c grid (row-major flattening):            *)
(*      meaning    a picture is a pattern iff all its rows are equal or    *)
(*                 all its columns are equal                               *)
(*      mechanism  every row-vector repeated r times, every column-vector  *)
(*                 repeated c times, duplicates removed; the count formula *)
(*                 2 + sum over both dimensions d of sum_{k=1}^{d-1} C(d,k)*)
(*      TLC        mechanism = meaning, count = 2^r + 2^c - 2, the target  *)
(*                 distribution is uniform on the patterns                 *)
(*  - thermal states of a nearest-neighbour Ising chain with INTEGER       *)
(*    fields h and couplings J at the temperature where e^(1/T) = 2, so    *)
(*    every Boltzmann factor is a power of two and the distribution is     *)
(*    exact in rationals:  weight(s) = 2^(-sum h_i s_i - sum J_i s_i s_i+1)*)
(*    with s_i = 2 b_i - 1 and b the binary digits of the index, most      *)
(*    significant first (the sign convention is the library's)             *)
(*      TLC        probabilities sum to one; the ratio of two              *)
(*                 probabilities is 2^(difference of exponents); flipping  *)
(*                 all fields and reading the bitwise complement gives the *)
(*                 same distribution                                       *)
(***************************************************************************)
EXTENDS Rat, FiniteSets, TLC, Json

CONSTANTS MaxDim,     \* bars and stripes: rows, columns in 1..MaxDim
          MaxSpins,   \* thermal: spins in 1..MaxSpins
          Emitting
VARIABLES kind, r, c, h, J
vars == <<kind, r, c, h, J>>

\* ---- bars and stripes ----------------------------------------------------------------------------------------------
Pics(rr, cc) == [1..(rr * cc) -> {0, 1}]
At(p, i, j, cc) == p[(i - 1) * cc + j]
RowsEqual(p, rr, cc) == \A i \in 1..rr : \A j \in 1..cc : At(p, i, j, cc) = At(p, 1, j, cc)
ColsEqual(p, rr, cc) == \A i \in 1..rr : \A j \in 1..cc : At(p, i, j, cc) = At(p, i, 1, cc)
BASDef(rr, cc) == {p \in Pics(rr, cc) : RowsEqual(p, rr, cc) \/ ColsEqual(p, rr, cc)}
BASMech(rr, cc) == {[k \in 1..(rr * cc) |-> v[((k - 1) % cc) + 1]] : v \in [1..cc -> {0, 1}]}          \* np.repeat([h], nrows, 0)
             \cup {[k \in 1..(rr * cc) |-> v[((k - 1) \div cc) + 1]] : v \in [1..rr -> {0, 1}]}         \* np.repeat([h], ncols, 1)
RECURSIVE Fact(_)
Fact(n) == IF n <= 1 THEN 1 ELSE n * Fact(n - 1)
Choose(n, k) == Fact(n) \div (Fact(n - k) * Fact(k))
RECURSIVE SumTo(_, _)
SumTo(d, k) == IF k >= d THEN 0 ELSE Choose(d, k) + SumTo(d, k + 1)
CountMech(rr, cc) == 2 + SumTo(rr, 1) + SumTo(cc, 1)
BASOk == kind = "bas" => /\ BASMech(r, c) = BASDef(r, c)
                         /\ Cardinality(BASDef(r, c)) = 2 ^ r + 2 ^ c - 2
                         /\ CountMech(r, c) = Cardinality(BASDef(r, c))

\* ---- thermal target -----------------------------------------------------------------------------------------------------
Bit(i, q, n) == (i \div (2 ^ (n - 1 - q))) % 2
Spin(i, q, n) == 2 * Bit(i, q, n) - 1
RECURSIVE ISum(_)
ISum(s) == IF s = <<>> THEN 0 ELSE Head(s) + ISum(Tail(s))
Expo(i, hh, jj, n) == - ISum([q \in 1..n |-> Spin(i, q - 1, n) * hh[q]])
                      - ISum([q \in 1..(n - 1) |-> Spin(i, q - 1, n) * Spin(i, q, n) * jj[q]])
Pow2(e) == IF e >= 0 THEN <<2 ^ e, 1>> ELSE <<1, 2 ^ (-e)>>
Z(hh, jj, n) == RSum([i \in 1..(2 ^ n) |-> Pow2(Expo(i - 1, hh, jj, n))])
Prob(i, hh, jj, n) == RDiv(Pow2(Expo(i, hh, jj, n)), Z(hh, jj, n))
Compl(i, n) == 2 ^ n - 1 - i
ThermalOk == kind = "thermal" => LET n == Len(h) IN
   /\ RSum([i \in 1..(2 ^ n) |-> Prob(i - 1, h, J, n)]) = R(1)
   /\ \A i \in 0..(2 ^ n - 1) : \A k \in 0..(2 ^ n - 1) :
        RMul(Prob(i, h, J, n), Pow2(Expo(k, h, J, n))) = RMul(Prob(k, h, J, n), Pow2(Expo(i, h, J, n)))
   /\ \A i \in 0..(2 ^ n - 1) : Prob(i, h, J, n) = Prob(Compl(i, n), [q \in 1..n |-> -h[q]], J, n)

\* ---- one state per instance -----------------------------------------------------------------------------------------------
Init == kind = "init" /\ r = 0 /\ c = 0 /\ h = <<>> /\ J = <<>>
PickBAS == kind = "init" /\ kind' = "bas" /\ r' \in 1..MaxDim /\ c' \in 1..MaxDim /\ UNCHANGED <<h, J>>
PickThermal == kind = "init" /\ kind' = "thermal" /\ \E n \in 1..MaxSpins : h' \in [1..n -> -1..1] /\ J' \in [1..(n - 1) -> -1..1] /\ UNCHANGED <<r, c>>
Next == PickBAS \/ PickThermal

SetSeq(S) == LET RECURSIVE L(_) L(T) == IF T = {} THEN <<>> ELSE LET a == CHOOSE x \in T : TRUE IN <<a>> \o L(T \ {a}) IN L(S)
Emit == IF ~Emitting THEN TRUE ELSE
  IF kind' = "bas" THEN PrintT(ToJson([kind |-> "bas", r |-> r', c |-> c', patterns |-> SetSeq(BASDef(r', c')), count |-> Cardinality(BASDef(r', c'))]))
  ELSE PrintT(ToJson([kind |-> "thermal", h |-> h', J |-> J', probs |-> [i \in 1..(2 ^ Len(h')) |-> Prob(i - 1, h', J', Len(h'))],
                      expo |-> [i \in 1..(2 ^ Len(h')) |-> Expo(i - 1, h', J', Len(h'))]]))
=============================================================================
