-------------------------------- MODULE Gates -------------------------------
(***************************************************************************)
(* C02 - the 27 built-in gates as matrices of Laurent polynomials in       *)
(* z_j = e^{i param_j / 2}.  TLC checks, as POLYNOMIAL IDENTITIES (i.e.    *)
(* for all real parameter values): dimension, unitarity, soundness of the  *)
(* self-adjoint flag, the additive group law of the one-parameter gates    *)
(* and the fixed relations.  A one-variable state machine walks the table  *)
(* so that coverage shows every row visited; every row is exported and     *)
(* compared with the implementation's matrix factory.                      *)
(***************************************************************************)
EXTENDS GateDefs, TLC, Json

VARIABLE g          \* index into Names
CONSTANT Emitting

Init == g = 1
Next == g < Len(Table) /\ g' = g + 1

G == Table[g]
AllRowsVisited == Len(Table) = 27
PolyOfIsTable == PolyOf(G.name) = G.poly          \* the by-name dispatch used by GateAt agrees with the table row
Dimension == /\ Len(G.poly) = 2^G.nq /\ \A r \in 1..Len(G.poly) : Len(G.poly[r]) = 2^G.nq
UnitaryForAllParams == PMIsUnitary(G.poly)
HermitianFlagSound == G.herm => PMAdj(G.poly) = G.poly
\* exactly the flagged gates are self-adjoint for all parameters (the converse is informative, not required)
HermitianFlagExact == G.herm <=> (PMAdj(G.poly) = G.poly)
GroupLaw == G.name \in GroupGates =>
   /\ PMMul(G.poly, PMSubst(G.poly, Var1To2)) = PMSubst(G.poly, ToProduct12)     \* M(a) M(b) = M(a+b)
   /\ PMEvalW(G.poly, <<0,0,0>>) = MId(2^G.nq)                                   \* M(0) = identity
ParamsOnlyWhereDeclared ==      \* a gate with np parameters mentions only z_1..z_np
   \A r \in 1..Len(G.poly) : \A cc \in 1..Len(G.poly) : \A e \in DOMAIN G.poly[r][cc] : \A j \in 1..3 : j > G.np => e[j] = 0
\* fixed relations (checked once, in the first state)
P(n) == ByName(n).poly
Unit2(r, cc) == PMConst([i \in 1..2 |-> [j \in 1..2 |-> IF i = r /\ j = cc THEN COne ELSE CZero]])
FixedRelations == g = 1 =>
   /\ PMMul(P("S"), P("S")) = P("Z")
   /\ PMMul(P("T"), P("T")) = P("S")
   /\ PMMul(P("SX"), P("SX")) = P("X")
   /\ PMMul(P("H"), PMMul(P("Z"), P("H"))) = P("X")
   /\ P("CNOT") = PMBlockId(2, P("X"))
   /\ P("CZ") = PMBlockId(2, P("Z"))
   /\ \A r \in 1..2 : \A cc \in 1..2 :                                   \* SWAP exchanges the two qubits
        PMMul(P("SWAP"), PMMul(PMLift(Unit2(r, cc), <<0>>, 2), P("SWAP"))) = PMLift(Unit2(r, cc), <<1>>, 2)
   /\ P("Delay") = PMId(2)
   /\ PMEvalW(P("U3"), <<0,0,0>>) = MId(2)

Emit == IF ~Emitting THEN TRUE ELSE
  PrintT(ToJson([name |-> G.name, nq |-> G.nq, np |-> G.np, herm |-> G.herm, poly |-> PMList(G.poly)]))
EmitInv == Emit
=============================================================================
