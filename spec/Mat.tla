-------------------------------- MODULE Mat ---------------------------------
(***************************************************************************)
(* Matrices and vectors over Cyclo.  A matrix is a sequence of rows, a row *)
(* is a sequence of ring elements (1-based, row/column r stands for basis  *)
(* index r-1).  Qubit 0 is the MOST significant bit of a basis index.      *)
(* Every constructor is wrapped in TLCEval: TLC builds function values     *)
(* lazily and would otherwise re-evaluate a matrix entry on every access,  *)
(* which is exponential in the nesting depth of matrix expressions.        *)
(***************************************************************************)
EXTENDS Cyclo, FiniteSets, TLC

Dim(M) == Len(M)

RECURSIVE CSumSeq(_)
CSumSeq(s) == IF s = <<>> THEN CZero ELSE CAdd(Head(s), CSumSeq(Tail(s)))

MId(n)   == TLCEval( [r \in 1..n |-> TLCEval([c \in 1..n |-> IF r = c THEN COne ELSE CZero])])
MZero(n) == TLCEval( [r \in 1..n |-> TLCEval([c \in 1..n |-> CZero])])
MMul(A, B) == TLCEval( [r \in 1..Len(A) |-> TLCEval([c \in 1..Len(B[1]) |->
                  CSumSeq([j \in 1..Len(B) |-> CMul(A[r][j], B[j][c])])])])
MAdd(A, B) == TLCEval( [r \in 1..Len(A) |-> TLCEval([c \in 1..Len(A[1]) |-> CAdd(A[r][c], B[r][c])])])
MScale(s, A) == TLCEval( [r \in 1..Len(A) |-> TLCEval([c \in 1..Len(A[1]) |-> CMul(s, A[r][c])])])
MAdj(A)  == TLCEval( [r \in 1..Len(A[1]) |-> TLCEval([c \in 1..Len(A) |-> CConj(A[c][r])])])
MTr(A)   == TLCEval( [r \in 1..Len(A[1]) |-> TLCEval([c \in 1..Len(A) |-> A[c][r]])])
MKron(A, B) == LET n == Len(B) m == Len(B[1]) IN
   TLCEval([r \in 1..(Len(A) * n) |-> TLCEval([c \in 1..(Len(A[1]) * m) |->
        CMul(A[((r-1) \div n) + 1][((c-1) \div m) + 1], B[((r-1) % n) + 1][((c-1) % m) + 1])])])
MApply(A, v) == TLCEval( [r \in 1..Len(A) |-> CSumSeq([j \in 1..Len(v) |-> CMul(A[r][j], v[j])])])
IsUnitary(A) == MMul(A, MAdj(A)) = MId(Len(A))
RECURSIVE MPow(_, _)
MPow(A, e) == IF e = 0 THEN MId(Len(A)) ELSE IF e < 0 THEN MPow(MAdj(A), -e) ELSE MMul(A, MPow(A, e - 1))
\* block matrix diag(I_{d}, A)
MBlockId(d, A) == LET n == Len(A) IN
   TLCEval([r \in 1..(d + n) |-> TLCEval([c \in 1..(d + n) |->
        IF r <= d \/ c <= d THEN (IF r = c THEN COne ELSE CZero) ELSE A[r - d][c - d]])])
MSmall(A) == \A r \in 1..Len(A) : \A c \in 1..Len(A[r]) : CSmall(A[r][c])
VSmall(v) == \A r \in 1..Len(v) : CSmall(v[r])

\* ---- bits: qubit q of an n-qubit basis index i (0-based) is the bit of weight 2^(n-1-q)
Bit(i, q, n) == (i \div 2^(n - 1 - q)) % 2
\* the sub-index read off the qubits qs (a sequence), first listed qubit most significant
RECURSIVE SubIdx(_, _, _)
SubIdx(i, qs, n) == IF qs = <<>> THEN 0
                    ELSE Bit(i, Head(qs), n) * 2^(Len(qs) - 1) + SubIdx(i, Tail(qs), n)
SeqRange(s) == {s[j] : j \in 1..Len(s)}
AgreeOutside(i, j, qs, n) == \A q \in (0..(n-1)) \ SeqRange(qs) : Bit(i, q, n) = Bit(j, q, n)
\* MEANING of "gate G on the qubits qs of an n-qubit register"
Lift(G, qs, n) == TLCEval( [r \in 1..2^n |-> TLCEval([c \in 1..2^n |->
     IF AgreeOutside(r-1, c-1, qs, n) THEN G[SubIdx(r-1, qs, n) + 1][SubIdx(c-1, qs, n) + 1] ELSE CZero])])
\* pad an operator on the first m qubits to n >= m qubits (new qubits are less significant)
Pad(U, m, n) == IF n = m THEN U ELSE MKron(U, MId(2^(n - m)))
\* equality up to one global phase u (|u| = 1, u a ring element): decided on the first non-zero entry of B
EqUpToPhase(A, B) ==
  \E r \in 1..Len(B) : \E c \in 1..Len(B) :
     /\ ~CIsZero(B[r][c])
     /\ LET num == CMul(A[r][c], CConj(B[r][c])) den == CAbsSq(B[r][c]) IN
           \* u = num/den ; compare  den*A = num*B  and |num|^2 = den^2
           /\ MScale(den, A) = MScale(num, B)
           /\ CAbsSq(num) = CMul(den, den)
=============================================================================
