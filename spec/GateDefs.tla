------------------------------ MODULE GateDefs ------------------------------
(***************************************************************************)
(* The 27 built-in gates as matrices of Laurent polynomials in             *)
(* z_j = e^{i param_j / 2} (definitions only; Gates.tla checks them,       *)
(* CircuitSem / Modifiers / Evolution / Decompose evaluate them on the     *)
(* angle grid: param_j = k_j * pi/2  <=>  z_j = w^k_j).                    *)
(***************************************************************************)
EXTENDS Laurent

kc(x) == SPConst(x)
M2(a, b, cc, d) == <<<<a, b>>, <<cc, d>>>>
Diag4(a, b, cc, d) == <<<<a, SPZero, SPZero, SPZero>>, <<SPZero, b, SPZero, SPZero>>, <<SPZero, SPZero, cc, SPZero>>, <<SPZero, SPZero, SPZero, d>>>>
Pz0 == SPZero
Po1 == SPOne
isin(j) == SPMul(ISP, SinH(j))                  \* i sin(angle_j/2)
nisin(j) == SPNeg(isin(j))                      \* -i sin(angle_j/2)
invsqrt2 == kc(CInvSqrt2)

XM == M2(Pz0, Po1, Po1, Pz0)
YM == M2(Pz0, kc(CNegI), kc(CI), Pz0)
ZM == M2(Po1, Pz0, Pz0, kc(CMinus))
HM == M2(invsqrt2, invsqrt2, invsqrt2, SPNeg(invsqrt2))
SM == M2(Po1, Pz0, Pz0, kc(CI))
TM == M2(Po1, Pz0, Pz0, kc(CW))
SXM == LET p == kc(CMul(CHalf, CAdd(COne, CI))) m == kc(CMul(CHalf, CSub(COne, CI))) IN M2(p, m, m, p)
RXM == M2(CosH(1), nisin(1), nisin(1), CosH(1))
RYM == M2(CosH(1), SPNeg(SinH(1)), SinH(1), CosH(1))
RZM == M2(Z(1, -1), Pz0, Pz0, Z(1, 1))
RHM == LET s == SPMul(kc(CMul(CNegI, CInvSqrt2)), SinH(1)) IN       \* -i/sqrt2 * sin
       PMScale(Z(1, 1), M2(SPAdd(CosH(1), s), s, s, SPAdd(CosH(1), SPNeg(s))))
PHASEM == M2(Po1, Pz0, Pz0, Z(1, 2))
\* U3(theta, phi, lambda) = RZ(phi) RY(theta) RZ(lambda) * e^{i(phi+lambda)/2};  z1 = theta, z2 = phi, z3 = lambda
RZv(j) == M2(Z(j, -1), Pz0, Pz0, Z(j, 1))
U3M == PMScale(SPMul(Z(2, 1), Z(3, 1)), PMMul(RZv(2), PMMul(RYM, RZv(3))))
GPiM == M2(Pz0, Z(1, -2), Z(1, 2), Pz0)
GPi2M == PMScale(invsqrt2, M2(Po1, SPMul(kc(CNegI), Z(1, -2)), SPMul(kc(CNegI), Z(1, 2)), Po1))
CNOTM == <<<<Po1, Pz0, Pz0, Pz0>>, <<Pz0, Po1, Pz0, Pz0>>, <<Pz0, Pz0, Pz0, Po1>>, <<Pz0, Pz0, Po1, Pz0>>>>
CZM == Diag4(Po1, Po1, Po1, kc(CMinus))
SWAPM == <<<<Po1, Pz0, Pz0, Pz0>>, <<Pz0, Pz0, Po1, Pz0>>, <<Pz0, Po1, Pz0, Pz0>>, <<Pz0, Pz0, Pz0, Po1>>>>
ISWAPM == <<<<Po1, Pz0, Pz0, Pz0>>, <<Pz0, Pz0, kc(CI), Pz0>>, <<Pz0, kc(CI), Pz0, Pz0>>, <<Pz0, Pz0, Pz0, Po1>>>>
CPHASEM == Diag4(Po1, Po1, Po1, Z(1, 2))
XXM == <<<<CosH(1), Pz0, Pz0, nisin(1)>>, <<Pz0, CosH(1), nisin(1), Pz0>>, <<Pz0, nisin(1), CosH(1), Pz0>>, <<nisin(1), Pz0, Pz0, CosH(1)>>>>
YYM == <<<<CosH(1), Pz0, Pz0, isin(1)>>, <<Pz0, CosH(1), nisin(1), Pz0>>, <<Pz0, nisin(1), CosH(1), Pz0>>, <<isin(1), Pz0, Pz0, CosH(1)>>>>
ZZM == Diag4(Z(1, -1), Z(1, 1), Z(1, 1), Z(1, -1))
XYM == <<<<Po1, Pz0, Pz0, Pz0>>, <<Pz0, CosH(1), isin(1), Pz0>>, <<Pz0, isin(1), CosH(1), Pz0>>, <<Pz0, Pz0, Pz0, Po1>>>>
\* MS(phi0, phi1): z1 = phi0, z2 = phi1;  e^{-i(phi0+phi1)} = z1^-2 z2^-2
ZZ2(a, b) == SPMul(Z(1, a), Z(2, b))
MSM == PMScale(invsqrt2,
        <<<<Po1, Pz0, Pz0, SPMul(kc(CNegI), ZZ2(-2, -2))>>,
          <<Pz0, Po1, SPMul(kc(CNegI), ZZ2(-2, 2)), Pz0>>,
          <<Pz0, SPMul(kc(CNegI), ZZ2(2, -2)), Po1, Pz0>>,
          <<SPMul(kc(CNegI), ZZ2(2, 2)), Pz0, Pz0, Po1>>>>)
IM == PMId(2)

Row(name, nq, np, herm, poly) == [name |-> name, nq |-> nq, np |-> np, herm |-> herm, poly |-> poly]
Table == <<
  Row("X", 1, 0, TRUE, XM), Row("Y", 1, 0, TRUE, YM), Row("Z", 1, 0, TRUE, ZM), Row("H", 1, 0, TRUE, HM),
  Row("I", 1, 0, TRUE, IM), Row("S", 1, 0, FALSE, SM), Row("SX", 1, 0, FALSE, SXM), Row("T", 1, 0, FALSE, TM),
  Row("RX", 1, 1, FALSE, RXM), Row("RY", 1, 1, FALSE, RYM), Row("RZ", 1, 1, FALSE, RZM), Row("RH", 1, 1, FALSE, RHM),
  Row("PHASE", 1, 1, FALSE, PHASEM), Row("U3", 1, 3, FALSE, U3M), Row("GPi", 1, 1, TRUE, GPiM), Row("GPi2", 1, 1, FALSE, GPi2M),
  Row("CNOT", 2, 0, TRUE, CNOTM), Row("CZ", 2, 0, TRUE, CZM), Row("SWAP", 2, 0, TRUE, SWAPM), Row("ISWAP", 2, 0, FALSE, ISWAPM),
  Row("CPHASE", 2, 1, FALSE, CPHASEM), Row("XX", 2, 1, FALSE, XXM), Row("YY", 2, 1, FALSE, YYM), Row("ZZ", 2, 1, FALSE, ZZM),
  Row("XY", 2, 1, FALSE, XYM), Row("MS", 2, 2, FALSE, MSM), Row("Delay", 1, 1, TRUE, IM) >>
GroupGates == {"RX", "RY", "RZ", "RH", "PHASE", "CPHASE", "XX", "YY", "ZZ", "XY"}
ByName(n) == LET i == CHOOSE j \in 1..Len(Table) : Table[j].name = n IN Table[i]

\* the polynomial matrix of one gate WITHOUT building the whole table (TLC re-evaluates `Table`, with all its
\* polynomial products, on every reference)
PolyOf(n) ==
  CASE n = "X" -> XM [] n = "Y" -> YM [] n = "Z" -> ZM [] n = "H" -> HM [] n = "I" -> IM [] n = "S" -> SM [] n = "SX" -> SXM [] n = "T" -> TM
    [] n = "RX" -> RXM [] n = "RY" -> RYM [] n = "RZ" -> RZM [] n = "RH" -> RHM [] n = "PHASE" -> PHASEM [] n = "U3" -> U3M
    [] n = "GPi" -> GPiM [] n = "GPi2" -> GPi2M [] n = "CNOT" -> CNOTM [] n = "CZ" -> CZM [] n = "SWAP" -> SWAPM [] n = "ISWAP" -> ISWAPM
    [] n = "CPHASE" -> CPHASEM [] n = "XX" -> XXM [] n = "YY" -> YYM [] n = "ZZ" -> ZZM [] n = "XY" -> XYM [] n = "MS" -> MSM [] n = "Delay" -> IM
\* the exact matrix of gate `name` at parameters k_j * pi/2
GateAt(name, k) == PMEvalW(PolyOf(name), <<k[1], k[2], k[3]>>)
=============================================================================
