------------------------------- MODULE Runner -------------------------------
(***************************************************************************)
(* C14 - runners validate requests, deliver enough shots and count their   *)
(* work.  One behaviour = the call history of ONE runner object (plus the  *)
(* inner runner when the object is a measurement-tracking wrapper).        *)
(*                                                                         *)
(* kinds:  "plain"  BaseCircuitRunner subclass on the default batch path   *)
(*         "plainx" the same, but the device delivers shots in blocks of 4 *)
(*                  (MORE shots than requested are allowed)                *)
(*         "wf"     BaseWavefunctionSimulator subclass (SymbolicSimulator  *)
(*                  included); counters move per native/non-native segment *)
(*         "trk"    MeasurementTrackingBackend around an inner runner      *)
(* A circuit is abstracted to what the counters and result shapes depend   *)
(* on:  nat  - for every operation, is it native for the runner called     *)
(*             (the groupby key of split_circuit),                         *)
(*      w    - register width,   sym - has unbound symbols.                *)
(* The transition function Step is pure, so the trace specification        *)
(* (RunnerTrace) reuses it on recorded calls.                              *)
(***************************************************************************)
EXTENDS Integers, Sequences, FiniteSets, TLC, Json

CONSTANTS RunnerKinds,   \* set of <<kind, innerKind, Native>> configurations explored
          Circuits,      \* set of abstract circuits [ops, w, sym]
          Cap,           \* bound on the jobs counter (state constraint)
          MaxBatch,      \* longest batch
          NPaths,        \* number of random behaviours per runner kind in path mode (1 otherwise)
          Emitting

VARIABLES rk,    \* the runner under test: [kind, inner, native]
          cnt,   \* [own |-> [c, j], inner |-> [c, j]]  executed-circuits / executed-jobs counters
          file,  \* content of the tracker's data file (records of the last call); <<>> before the first write
          ev     \* last call: [op, args, out, res]
vars == <<rk, cnt, file, ev>>

Zero == [c |-> 0, j |-> 0]
Plus(a, dc, dj) == [c |-> a.c + dc, j |-> a.j + dj]

\* ---- mechanism of get_wavefunction: one pass over the operations (groupby on the native predicate) ----
RECURSIVE Walk(_, _, _, _)
Walk(nat, i, prev, acc) ==           \* prev \in {"none","T","F"}
  IF i > Len(nat) THEN acc
  ELSE LET cur == IF nat[i] THEN "T" ELSE "F" IN
       IF cur = prev THEN Walk(nat, i + 1, prev, acc)
       ELSE Walk(nat, i + 1, cur, [segs |-> acc.segs + 1, nat |-> acc.nat + (IF nat[i] THEN 1 ELSE 0)])
Work(c) == Walk(c.nat, 1, "none", [segs |-> 0, nat |-> 0])

Rej  == [out |-> "rejected", dc |-> 0, dj |-> 0, res |-> <<>>]
Shot(n, c) == [n |-> n, w |-> c.w]
IsPlain(k) == k \in {"plain", "plainx"}
Delivered(k, n) == IF k = "plainx" THEN 4 * ((n + 3) \div 4) ELSE n

\* ---- base-class runners -------------------------------------------------------------------------
BaseRun(k, c, n) ==
  IF n <= 0 THEN Rej
  ELSE IF IsPlain(k) THEN [out |-> "ok", dc |-> 1, dj |-> 1, res |-> <<Shot(Delivered(k, n), c)>>]
  ELSE IF c.sym THEN Rej                                     \* refused before anything runs
  ELSE [out |-> "ok", dc |-> Work(c).nat, dj |-> Work(c).segs, res |-> <<Shot(n, c)>>]

RECURSIVE RunSeq(_, _, _, _, _)
RunSeq(k, cs, spc, i, acc) ==        \* default batch path: run_and_measure one after the other
  IF i > Len(cs) THEN acc
  ELSE LET r == BaseRun(k, cs[i], spc[i]) IN
       IF r.out # "ok" THEN [acc EXCEPT !.out = "failed"]   \* raised in the middle: earlier work stays counted
       ELSE RunSeq(k, cs, spc, i + 1, [out |-> "ok", dc |-> acc.dc + r.dc, dj |-> acc.dj + r.dj, res |-> acc.res \o r.res])

\* a call is [op, cs, ns]:  cs - sequence of circuits (one for single calls),
\*   ns = [mode |-> "int" | "list" | "none", v |-> sequence of integers (<<n>> for "int")]
PerCircuit(cs, ns) == IF ns.mode = "int" THEN [i \in 1..Len(cs) |-> ns.v[1]] ELSE ns.v
BaseBatch(k, cs, ns) ==
  LET spc == PerCircuit(cs, ns) IN
  IF Len(spc) # Len(cs) THEN Rej
  ELSE IF \E i \in 1..Len(spc) : spc[i] <= 0 THEN Rej
  ELSE RunSeq(k, cs, spc, 1, [out |-> "ok", dc |-> 0, dj |-> 0, res |-> <<>>])

BaseWf(k, c) == [out |-> "ok", dc |-> Work(c).nat, dj |-> Work(c).segs, res |-> <<Shot(0, c)>>]
BaseDist(k, c, ns) ==
  IF ns.mode = "none" THEN (IF IsPlain(k) THEN Rej ELSE BaseWf(k, c))
  ELSE LET b == BaseRun(k, c, ns.v[1]) IN            \* a distribution carries no shots: only its width is a result
       IF b.out = "ok" THEN [b EXCEPT !.res = <<Shot(0, c)>>] ELSE b

Base(k, call) ==
  CASE call.op = "run"   -> BaseRun(k, call.cs[1], call.ns.v[1])
    [] call.op = "batch" -> BaseBatch(k, call.cs, call.ns)
    [] call.op = "dist"  -> BaseDist(k, call.cs[1], call.ns)
    [] call.op \in {"wf", "expval"} -> BaseWf(k, call.cs[1])

\* ---- the measurement-tracking wrapper --------------------------------------------------------------
Record(c, s) == [type |-> "measurement", gates |-> Len(c.nat), shots |-> s.n, w |-> c.w]
DistRecord(c, ns) == [type |-> "distribution", gates |-> Len(c.nat), shots |-> IF ns.mode = "none" THEN -1 ELSE ns.v[1], w |-> c.w]

\* result of one call: outcome, deltas of the own and the inner counters, results, new file content
Step(k, ik, call, f) ==
  IF k # "trk" THEN
     LET b == Base(k, call) IN [out |-> b.out, odc |-> b.dc, odj |-> b.dj, idc |-> 0, idj |-> 0, res |-> b.res, file |-> f]
  ELSE
  CASE call.op = "run" ->
         IF call.ns.v[1] <= 0 THEN [out |-> "rejected", odc |-> 0, odj |-> 0, idc |-> 0, idj |-> 0, res |-> <<>>, file |-> f]
         ELSE LET b == BaseRun(ik, call.cs[1], call.ns.v[1]) IN
              IF b.out = "ok"
              THEN [out |-> "ok", odc |-> 1, odj |-> 1, idc |-> b.dc, idj |-> b.dj, res |-> b.res, file |-> <<Record(call.cs[1], b.res[1])>>]
              ELSE [out |-> b.out, odc |-> 0, odj |-> 0, idc |-> b.dc, idj |-> b.dj, res |-> <<>>, file |-> f]
    [] call.op = "batch" ->
         LET b == BaseBatch(ik, call.cs, call.ns) IN    \* the wrapper counts before the inner runner validates
         [out |-> b.out, odc |-> Len(call.cs), odj |-> 1, idc |-> b.dc, idj |-> b.dj,
          res |-> IF b.out = "ok" THEN b.res ELSE <<>>,
          file |-> IF b.out = "ok" THEN [i \in 1..Len(call.cs) |-> Record(call.cs[i], b.res[i])] ELSE f]
    [] call.op = "dist" ->
         LET b == BaseDist(ik, call.cs[1], call.ns) IN
         [out |-> b.out, odc |-> 0, odj |-> 0, idc |-> b.dc, idj |-> b.dj,
          res |-> IF b.out = "ok" THEN b.res ELSE <<>>,
          file |-> IF b.out = "ok" THEN <<DistRecord(call.cs[1], call.ns)>> ELSE f]

\* ---- calls offered in the model ---------------------------------------------------------------------
NatOf(c, native) == [nat |-> [i \in 1..Len(c.ops) |-> c.ops[i] \in native], w |-> c.w, sym |-> c.sym]
Ns == {-1, 0, 1, 3}
SeqsOf(S, lo, hi) == UNION {[1..m -> S] : m \in lo..hi}
OneN(n) == [mode |-> "int", v |-> <<n>>]
NoneN == [mode |-> "none", v |-> <<>>]
Calls(native, k, ik) ==
  \* the wrapper serialises every circuit it records and the JSON format only knows gate operations,
  \* so circuits containing non-gate operations are outside the wrapper's domain
  LET CC == {NatOf(c, native) : c \in {c \in Circuits : k = "trk" => \A i \in 1..Len(c.ops) : c.ops[i] = "g"}} IN
       {[op |-> "run", cs |-> <<c>>, ns |-> OneN(n)] : c \in CC, n \in Ns}
  \cup {[op |-> "batch", cs |-> cs, ns |-> OneN(n)] : cs \in SeqsOf(CC, 0, MaxBatch), n \in {0, 2}}
  \cup {[op |-> "batch", cs |-> cs, ns |-> [mode |-> "list", v |-> v]] : cs \in SeqsOf(CC, 0, MaxBatch), v \in SeqsOf({0, 2, 3}, 0, MaxBatch)}
  \cup {[op |-> "dist", cs |-> <<c>>, ns |-> OneN(n)] : c \in CC, n \in {0, 2}}
  \cup {[op |-> "dist", cs |-> <<c>>, ns |-> NoneN] : c \in {c \in CC : ~c.sym \/ IsPlain(k) \/ (k = "trk" /\ IsPlain(ik))}}
  \cup (IF k = "wf" THEN {[op |-> o, cs |-> <<c>>, ns |-> NoneN] : o \in {"wf", "expval"}, c \in {c \in CC : ~c.sym}} ELSE {})

Init == /\ rk \in RunnerKinds
        /\ cnt = [own |-> Zero, inner |-> Zero]
        /\ file = <<>>
        /\ \E pid \in 1..NPaths : ev = [pid |-> pid, op |-> "new", call |-> [op |-> "new", cs |-> <<>>, ns |-> NoneN], out |-> "ok", res |-> <<>>, pre |-> [own |-> Zero, inner |-> Zero]]

Do(call) ==
  LET s == Step(rk[1], rk[2], call, file) IN
  /\ cnt' = [own |-> Plus(cnt.own, s.odc, s.odj), inner |-> Plus(cnt.inner, s.idc, s.idj)]
  /\ file' = s.file
  /\ ev' = [pid |-> ev.pid, op |-> call.op, call |-> call, out |-> s.out, res |-> s.res, pre |-> cnt]
  /\ UNCHANGED rk

Next == \E call \in Calls(rk[3], rk[1], rk[2]) : Do(call)

\* path mode: TLC itself draws one random call per state, so every behaviour is a single history
PathNext == LET all == Calls(rk[3], rk[1], rk[2]) IN
            \E o \in {RandomElement({c.op : c \in all})} :          \* draw the kind of call first, then the call
            \E call \in {RandomElement({c \in all : c.op = o})} : Do(call)
PathView == <<rk, cnt, file, ev.pid, TLCGet("level")>>
PathDepth == TLCGet("level") <= Cap

Bounded == cnt.own.j <= Cap /\ cnt.inner.j <= Cap

\* ---- what the property promises -----------------------------------------------------------------------
IsBase == rk[1] \in {"plain", "plainx", "wf"}
CountersMonotone == [][/\ cnt'.own.c >= cnt.own.c /\ cnt'.own.j >= cnt.own.j
                       /\ cnt'.inner.c >= cnt.inner.c /\ cnt'.inner.j >= cnt.inner.j]_vars
RejectedLeavesCountersUnchanged == [][(IsBase /\ ev'.out = "rejected") => cnt' = cnt]_vars
\* independent definition of the work: segments = positions where the native flag changes (or starts)
SegStarts(c) == {i \in 1..Len(c.nat) : i = 1 \/ c.nat[i] # c.nat[i-1]}
WorkDef(k, c) == IF IsPlain(k) THEN [c |-> 1, j |-> 1]
                 ELSE [c |-> Cardinality({i \in SegStarts(c) : c.nat[i]}), j |-> Cardinality(SegStarts(c))]
RECURSIVE SumWork(_, _)
SumWork(k, cs) == IF cs = <<>> THEN Zero ELSE LET a == WorkDef(k, Head(cs)) b == SumWork(k, Tail(cs)) IN [c |-> a.c + b.c, j |-> a.j + b.j]
CircuitsOf(call) == call.cs
CountersGrowByWorkDone ==
  [][(IsBase /\ ev'.out = "ok") =>
        LET wk == SumWork(rk[1], CircuitsOf(ev'.call)) IN
        cnt'.own = Plus(cnt.own, wk.c, wk.j)]_vars
Requested(call) == CASE call.op = "run" -> call.ns.v
                     [] call.op = "batch" -> PerCircuit(call.cs, call.ns)
                     [] call.op = "dist" -> IF call.ns.mode = "none" THEN <<0>> ELSE call.ns.v
                     [] OTHER -> <<0>>
\* (these speak about the call just made, so they are action properties over ev' - evaluated on EVERY transition,
\*  also when the VIEW identifies the target state with one already seen)
OneResultPerCircuitInOrder ==
  [][(ev'.out = "ok") =>
       LET cs == CircuitsOf(ev'.call) rq == Requested(ev'.call) IN
       /\ Len(ev'.res) = Len(cs)
       /\ \A i \in 1..Len(cs) : ev'.res[i].w = cs[i].w /\ (ev'.op \in {"run", "batch"} => ev'.res[i].n >= rq[i])]_vars
InvalidIsRejected ==          \* non-positive counts / wrong lengths never produce results
  [][(ev'.op \in {"run", "batch"} /\ ev'.out = "ok") =>
       /\ \A i \in 1..Len(Requested(ev'.call)) : Requested(ev'.call)[i] > 0
       /\ Len(Requested(ev'.call)) = Len(CircuitsOf(ev'.call))]_vars
InvalidNeverOk ==             \* the other direction: an invalid request is never answered
  [][((ev'.op \in {"run", "batch"} \/ (ev'.op = "dist" /\ ev'.call.ns.mode # "none")) /\
      (\/ \E i \in 1..Len(Requested(ev'.call)) : Requested(ev'.call)[i] <= 0
       \/ Len(Requested(ev'.call)) # Len(CircuitsOf(ev'.call)))) => ev'.out = "rejected"]_vars
TrackerRecordMatches ==
  [][(rk[1] = "trk" /\ ev'.op \in {"run", "batch"} /\ ev'.out = "ok") =>
       /\ Len(file') = Len(ev'.res)
       /\ \A i \in 1..Len(file') : file'[i].shots = ev'.res[i].n /\ file'[i].w = ev'.res[i].w
                                   /\ file'[i].gates = Len(CircuitsOf(ev'.call)[i].nat)]_vars
TrackerPassThrough ==         \* the wrapper's answer is the inner runner's answer on the same call
  [][(rk[1] = "trk" /\ ev'.op \in {"run", "batch", "dist"} /\ ~(ev'.op = "run" /\ ev'.call.ns.v[1] <= 0)) =>
       LET b == Base(rk[2], ev'.call) IN
       /\ ev'.out = b.out /\ (b.out = "ok" => ev'.res = b.res)
       /\ cnt'.inner = Plus(cnt.inner, b.dc, b.dj)]_vars
ViewNoEv == <<rk, cnt, file>>
FirstLevel == TLCGet("level") <= 2

\* ---- circuits and runner configurations used by the configs ---------------------------------------
CircuitsSmall == { [ops |-> <<>>, w |-> 2, sym |-> FALSE],
                   [ops |-> <<"g">>, w |-> 1, sym |-> FALSE],
                   [ops |-> <<"g", "p", "g">>, w |-> 2, sym |-> FALSE],
                   [ops |-> <<"g">>, w |-> 1, sym |-> TRUE],
                   \* the SAME operations on a wider register (idle qubits), and an empty register of another width
                   [ops |-> <<"g">>, w |-> 3, sym |-> FALSE],
                   [ops |-> <<>>, w |-> 3, sym |-> FALSE] }
CircuitsAll == CircuitsSmall \cup
                 { [ops |-> <<"g", "g">>, w |-> 3, sym |-> FALSE],
                   [ops |-> <<"p", "g", "g", "p">>, w |-> 2, sym |-> FALSE],
                   [ops |-> <<"p">>, w |-> 1, sym |-> FALSE] }
KindsAll == { <<"plain", "none", {}>>, <<"wf", "none", {"g", "p"}>>, <<"wf", "none", {"g"}>>, <<"wf", "none", {"p"}>>,
              <<"wf", "none", {}>>, <<"trk", "plain", {}>>, <<"trk", "wf", {"g", "p"}>>,
              <<"plainx", "none", {}>>, <<"trk", "plainx", {}>> }

Emit == IF ~Emitting THEN TRUE ELSE
  PrintT(ToJson([pid |-> ev.pid, lvl |-> TLCGet("level"), rk |-> <<rk[1], rk[2], [g |-> "g" \in rk[3], p |-> "p" \in rk[3]]>>,
                 pre |-> cnt, post |-> cnt', call |-> ev'.call, out |-> ev'.out, res |-> ev'.res, file |-> file']))
=============================================================================
