------------------------------ MODULE ShotsTrace ----------------------------
(***************************************************************************)
(* code -> spec for C13: every recorded call of the two randomised /       *)
(* rounding helpers (scale_and_discretize, get_measurements_representing_  *)
(* distribution) and of the expand / combine / batch helpers must be a     *)
(* result the specification Shots allows.  One ndjson line per call.       *)
(***************************************************************************)
EXTENDS Shots, IOUtils
Trace == ndJsonDeserialize(IOEnv.TRACE_FILE)
VARIABLE l
tvars == <<vars, l>>

AcceptScale(e)     == ScaleAllowed(e.w, e.total, e.r)
AcceptRepresent(e) == RepresentAllowed(e.dist, e.n, e.r)
AcceptExpand(e)    == LET x == ExpandAll(e.ns, e.mx) IN
                        /\ e.chunks = x.chunks /\ e.mult = x.mult /\ e.owners = x.owners
AcceptBatch(e)     == e.batches = BatchesOf([j \in 1..Len(e.ns) |-> j], e.ns, e.mx)
Accept(e) == CASE e.op = "scale" -> AcceptScale(e)
               [] e.op = "represent" -> AcceptRepresent(e)
               [] e.op = "sample" -> AcceptRepresent(e)         \* the plain sampler (utils): the same contract - n draws, all on the support
               [] e.op = "expand" -> AcceptExpand(e)
               [] e.op = "batch" -> AcceptBatch(e)
               [] OTHER -> FALSE

TInit == Init /\ l = 1
\* every line is consumed; a line the specification does not allow is reported, not silently skipped
TNext == /\ l <= Len(Trace)
         /\ IF Accept(Trace[l]) THEN TRUE ELSE PrintT(ToJson([reject |-> l, id |-> Trace[l].id]))
         /\ l' = l + 1
         /\ UNCHANGED vars
Consumed == TLCGet("stats").diameter - 1 = Len(Trace)
=============================================================================
