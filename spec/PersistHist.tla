----------------------------- MODULE PersistHist -----------------------------
(***************************************************************************)
(* C11, histories: a measurement set is a MUTABLE object that is saved     *)
(* more than once.  State: the object's current list of bitstrings, and    *)
(* what each of two paths holds ("none" before the first save there).      *)
(* Actions: replace the list, overwrite one element in place, append       *)
(* through add_counts, save to a path, load a path.                        *)
(*   promise: a load returns what the object held AT THE LAST SAVE to that *)
(*            path - not at an earlier save, not at the time of loading    *)
(* The variable `saved` remembers the object's value at the last save per  *)
(* path independently of `file` (history variable), so the invariant is a  *)
(* statement about the design and not a tautology: a writer that reuses    *)
(* what it serialised earlier (Stale = TRUE: rows cached from the previous *)
(* save are reused for the common prefix length) is refuted by TLC.        *)
(***************************************************************************)
EXTENDS Integers, Sequences, FiniteSets, TLC, Json

CONSTANTS Depth, Stale, Emitting
VARIABLES obj, file, saved, cache, ev
vars == <<obj, file, saved, cache, ev>>

Paths == {1, 2}
Lists == { <<>>, <<<<0, 1>>>>, <<<<1, 1>>>>, <<<<0, 1>>, <<1, 1>>>>, <<<<1, 0>>, <<0, 0>>>>, <<<<0, 1>>, <<1, 1>>, <<0, 1>>>> }
Shots == { <<0, 1>>, <<1, 1>>, <<1, 0>> }
None == <<<<9, 9>>>>                       \* "nothing saved there yet": a list no object ever holds

\* what a save writes: the object's rows - or, for the stale writer, cached rows for the prefix it has serialised before
Written == IF Stale /\ Len(cache) <= Len(obj) THEN cache \o SubSeq(obj, Len(cache) + 1, Len(obj)) ELSE obj

Ev(op, p, a, res) == [op |-> op, p |-> p, a |-> a, res |-> res]
Init == obj \in {<<>>, <<<<0, 1>>, <<1, 1>>>>} /\ file = [p \in Paths |-> None] /\ saved = [p \in Paths |-> None] /\ cache = <<>> /\ ev = Ev("new", 0, obj, <<>>)
Replace(l) == l # obj /\ obj' = l /\ ev' = Ev("replace", 0, l, <<>>) /\ UNCHANGED <<file, saved, cache>>
Edit(i, s) == i \in 1..Len(obj) /\ obj[i] # s /\ obj' = [obj EXCEPT ![i] = s] /\ ev' = Ev("edit", 0, <<i - 1, s>>, <<>>) /\ UNCHANGED <<file, saved, cache>>
AddCounts(s, k) == Len(obj) + k <= 3 /\ obj' = obj \o [j \in 1..k |-> s] /\ ev' = Ev("add_counts", 0, <<s, k>>, <<>>) /\ UNCHANGED <<file, saved, cache>>
Save(p) == file' = [file EXCEPT ![p] = Written] /\ saved' = [saved EXCEPT ![p] = obj] /\ cache' = Written /\ ev' = Ev("save", p, <<>>, <<>>) /\ UNCHANGED obj
Load(p) == file[p] # None /\ ev' = Ev("load", p, <<>>, file[p]) /\ UNCHANGED <<obj, file, saved, cache>>
Next == \/ \E l \in Lists : Replace(l)
        \/ \E i \in 1..3 : \E s \in Shots : Edit(i, s)
        \/ \E s \in Shots : \E k \in 1..2 : AddCounts(s, k)
        \/ \E p \in Paths : Save(p) \/ Load(p)
DepthBound == TLCGet("level") <= Depth
View == <<obj, file, saved, cache>>

LoadReturnsLastSaved == \A p \in Paths : file[p] = saved[p]
LoadedIsWhatWasSaved == ev.op = "load" => ev.res = saved[ev.p]

StateJ(o, f) == [obj |-> o, file |-> [p \in Paths |-> IF f[p] = None THEN [none |-> TRUE, rows |-> <<>>] ELSE [none |-> FALSE, rows |-> f[p]]]]
Emit == IF ~Emitting THEN TRUE ELSE
  PrintT(ToJson([op |-> ev'.op, p |-> ev'.p, a |-> ev'.a, res |-> ev'.res, pre |-> StateJ(obj, saved), post |-> StateJ(obj', saved')]))
=============================================================================
