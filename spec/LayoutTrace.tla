----------------------------- MODULE LayoutTrace -----------------------------
(* code -> spec: every line holds the connectivity and the layers a builder of the library returned for some
   dimensions; the line is accepted iff they form a layering whose connections join distinct qubits of the array. *)
EXTENDS Layout, IOUtils
Trace == ndJsonDeserialize(IOEnv.TRACE_FILE)
VARIABLE l
E == Trace[l]
Layered == IF E.kind = "chain" THEN IsLayering(E.conn, E.layers) ELSE IsCovering(E.conn, E.layers)
InsideArray == \A i \in 1..Len(E.conn) : Len(E.conn[i]) = 2 /\ E.conn[i][1] # E.conn[i][2] /\ \A j \in 1..2 : E.conn[i][j] \in 0..(E.qubits - 1)
EveryQubitConnected == E.qubits >= 2 => \A q \in 0..(E.qubits - 1) : \E i \in 1..Len(E.conn) : q \in SeqRange(E.conn[i])
Names == <<"Layered", "InsideArray", "EveryQubitConnected">>
Clauses == <<Layered, InsideArray, EveryQubitConnected>>
TInit == l = 1 /\ n = 0
TNext == /\ l <= Len(Trace)
         /\ IF \A i \in 1..3 : Clauses[i] THEN TRUE ELSE PrintT(ToJson([reject |-> l, failed |-> {Names[i] : i \in {j \in 1..3 : ~Clauses[j]}}]))
         /\ l' = l + 1 /\ UNCHANGED n
=============================================================================
