-------------------------- MODULE WavefunctionTrace -------------------------
(***************************************************************************)
(* code -> spec for C12: histories recorded from real Wavefunction objects *)
(* (seeded random driver; every event logs the call, its outcome and the   *)
(* full projected state of every live object) must be behaviours of        *)
(* Wavefunction.tla.  Amplitudes are logged by name of the alphabet value. *)
(***************************************************************************)
EXTENDS Wavefunction, IOUtils
Traces == JsonDeserialize(IOEnv.TRACE_FILE)
VARIABLES tid, l
tvars == <<vars, tid, l>>

NameVal(n) == CASE n = "0" -> CZero [] n = "1" -> COne [] n = "h" -> CHalf [] n = "-h" -> CNeg(CHalf) [] n = "ih" -> CMul(CI, CHalf)
                [] n = "r" -> CInvSqrt2 [] n = "-r" -> CNeg(CInvSqrt2) [] n = "ir" -> CMul(CI, CInvSqrt2)
                [] OTHER -> <<7,7,7,7,0>>        \* "other": a value outside the alphabet never matches
Dec(a) == IF "s" \in DOMAIN a THEN Sym(a.s) ELSE Num(NameVal(a.n))
DecVec(v) == [i \in 1..Len(v) |-> Dec(v[i])]
DecPool(p) == [o \in 1..Len(p) |-> DecVec(p[o])]

T == Traces[tid]
E == T.events[l]
StepOf(e) == [op |-> e.op, o |-> e.obj, i |-> e.i, val |-> Dec(e.val), map |-> [a |-> Dec(e.map.a), b |-> Dec(e.map.b)], vec |-> DecVec(e.vec)]

\* named conjuncts: the specification action for the logged call must be able to produce the logged outcome and state
CallEnabled  == ENABLED Do(StepOf(E))
OutcomeAllowed == \E out \in (CASE E.op = "new" -> Outcomes(DecVec(E.vec))
                                [] E.op = "set" -> LET vec == objs[E.obj] idx == IF E.i < 0 THEN E.i + Len(vec) + 1 ELSE E.i + 1
                                                   IN Outcomes([vec EXCEPT ![idx] = Dec(E.val)])
                                [] E.op = "bind" -> IF AllNum(objs[E.obj]) THEN {"ok"} ELSE Outcomes(Subst(objs[E.obj], StepOf(E).map))
                                [] OTHER -> {"ok"}) : out = E.out
StateMatches == Do(StepOf(E)) /\ objs' = DecPool(E.post) /\ ev'.out = E.out
RejectedUnchanged == E.out = "rejected" => DecPool(E.post) = objs
AllNormalised == \A o \in 1..Len(E.post) : Accept(DecVec(E.post[o]))

TInit == /\ tid \in 1..Len(Traces) /\ l = 1 /\ objs = <<>>
         /\ ev = [pid |-> tid, op |-> "init", obj |-> 0, args |-> NoArgs, out |-> "ok", res |-> 0, either |-> FALSE]
Report == PrintT(ToJson([reject |-> tid, at |-> l,
            failed |-> ({"OutcomeAllowed" : x \in {1} \ {IF OutcomeAllowed THEN 1 ELSE 0}}
                  \cup {"RejectedUnchanged" : x \in {1} \ {IF RejectedUnchanged THEN 1 ELSE 0}}
                  \cup {"AllNormalised" : x \in {1} \ {IF AllNormalised THEN 1 ELSE 0}}
                  \cup {"StateMatches"})]))
TNext == /\ l <= Len(T.events)
         /\ \/ (StateMatches /\ l' = l + 1 /\ UNCHANGED tid)
            \/ (~ENABLED StateMatches /\ Report /\ FALSE /\ UNCHANGED tvars)
=============================================================================
