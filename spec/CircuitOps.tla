----------------------------- MODULE CircuitOps -----------------------------
(***************************************************************************)
(* C08 - circuit-level constructions: inverse, controlled, gate layers,    *)
(* apply-to-qubits, ancilla registers.                                     *)
(* A circuit is a sequence of steps [t, qs, row]: the gate tree t (as in   *)
(* Modifiers, with the library's re-association rules) on the ordered      *)
(* tuple qs; row # <<>> overrides the leaf's parameters with row[j]*pi/2   *)
(* (gates made by a factory from a supplied parameter row).                *)
(*   mechanism:  InvProg (reversed, each gate replaced by DaggerOf),       *)
(*               CtrlProg (ControlledOf(.,1), control first, indices >= k  *)
(*               shifted, width recomputed from the operations),           *)
(*               ApplyMech (zip of ANY iteration order of the distinct     *)
(*               qubits with the rows), AncProg                            *)
(*   meaning:    adjoint; the projector sum |0><0| (x) I + |1><1| (x) U    *)
(*               defined by index bits; shapes; U (x) I                    *)
(***************************************************************************)
EXTENDS Modifiers, Sequences

CONSTANTS MaxQ,      \* qubits offered to Append
          MaxLen,    \* operations appended by hand
          MaxCons,   \* constructions applied afterwards
          MaxW,      \* widest register
          Pool,      \* set of indices into PoolSeq
          Widths     \* initial widths
VARIABLES prog, n, U, oev, ncons
ovars == <<prog, n, U, oev, ncons, t, chain, ev, gm>>
OView == <<prog, n, oev.op, ncons>>

L(g) == Leaf(g, FALSE)
Half == <<1, 2>>
PoolSeq == << L(1), L(12), L(2), L(3), L(5), L(7), L(8), L(9), L(11),                       \* X H S T RX U3 CNOT ISWAP A2
              ControlledOf(L(2), 1), DaggerOf(L(3)), PowerOf(L(2), <<3, 1>>), L(14),            \* c-S  T^+  S^3  XX
              PowerOf(L(1), Half),                                                              \* X^(1/2): the K1 gate
              DaggerOf(ControlledOf(L(3), 1)), ControlledOf(L(1), 2), PowerOf(DaggerOf(L(4)), <<-2, 1>>), L(10),     \* (c-T)^+  cc-X  (SX^+)^-2  A1
              ControlledOf(L(3), 1),                                                            \* c-T: the same wrapper, arity and (no) parameters as c-S
              Leaf(20, TRUE) >>                                                                 \* the parametric custom gate P(a) at a = 3 pi/2 (built at a = 0, where it is self-adjoint, then re-parametrised)
PoolQuick == {1, 3, 5, 6, 7, 9, 10, 11, 12, 14, 19, 20}
PoolAll == 1..Len(PoolSeq)

\* ---- meaning of a step --------------------------------------------------------------------------------------
RECURSIVE HasFrac(_), GSemR(_, _)
HasFrac(x) == CASE x.k = "base" -> FALSE [] x.k = "pow" -> (~IsInt(x.e)) \/ HasFrac(Sub(x)) [] OTHER -> HasFrac(Sub(x))
GSemR(x, row) ==
  CASE x.k = "base" -> IF row # <<>> THEN GateAt(IF Base[x.g].custom THEN "PHASE" ELSE Base[x.g].name, row) ELSE IF x.n = 1 THEN gm.alt[x.g] ELSE gm.std[x.g]
    [] x.k = "ctrl" -> LET s == GSemR(Sub(x), row) IN MBlockId(Len(s) * (2^x.n - 1), s)
    [] x.k = "dag"  -> MAdj(GSemR(Sub(x), row))
    [] x.k = "pow"  -> IF IsInt(x.e) THEN MPow(GSemR(Sub(x), row), x.e[1])
                       ELSE IF x.e = Half /\ Sub(x) = L(1) THEN GateAt("SX", K0)      \* principal square root of X
                       ELSE Assert(FALSE, "fractional power outside the model")
Step(tr, qs, row) == [t |-> tr, qs |-> qs, row |-> row]
OpMat(s, nq) == Lift(GSemR(s.t, s.row), s.qs, nq)
RECURSIVE OProd(_, _)
OProd(p, nq) == IF p = <<>> THEN MId(2^nq) ELSE MMul(OProd(Tail(p), nq), OpMat(Head(p), nq))
MaxOfS(s) == CHOOSE x \in SeqRange(s) : \A y \in SeqRange(s) : x >= y
RECURSIVE OpsWidth(_)
OpsWidth(p) == IF p = <<>> THEN 0 ELSE LET a == MaxOfS(Head(p).qs) + 1 b == OpsWidth(Tail(p)) IN IF a > b THEN a ELSE b
ProgHasFrac(p) == \E i \in 1..Len(p) : HasFrac(p[i].t)

\* ---- mechanisms (transcribed from _circuit.py / _generators.py) ------------------------------------------------
InvProg(p) == [i \in 1..Len(p) |-> LET s == p[Len(p) + 1 - i] IN Step(DaggerOf(s.t), s.qs, s.row)]
CtrlProg(p, k) == [i \in 1..Len(p) |-> LET s == p[i] IN
     Step(ControlledOf(s.t, 1), <<k>> \o [j \in 1..Len(s.qs) |-> IF s.qs[j] >= k THEN s.qs[j] + 1 ELSE s.qs[j]], s.row)]
AncProg(p, nq, m) == p \o [j \in 1..m |-> Step(L(15), <<nq + j - 1>>, <<>>)]
\* parameter rows handed to a factory: row i (1-based), np parameters, pairwise different
RowOf(i, np) == [j \in 1..3 |-> IF j > np THEN 0 ELSE IF j = 1 THEN i % 4 ELSE (j * i + 1) % 4]
Factories == {1, 5, 7}                           \* X (no parameters), RX (one), U3 (three)
FRow(g, i) == IF Base[g].np = 0 THEN <<>> ELSE RowOf(i, Base[g].np)
Perms(S) == {f \in [1..Cardinality(S) -> S] : \A i, j \in 1..Cardinality(S) : i # j => f[i] # f[j]}
\* apply_gate_to_qubits: `order` is the iteration order of set(qubit_indices) - ANY order; rows are zipped with it
ApplyMech(p, order, g) == p \o [i \in 1..Len(order) |-> Step(L(g), <<order[i]>>, FRow(g, i))]
Collections == { <<0>>, <<1, 0>>, <<2, 0>>, <<1, 1, 0>>, <<0, 2, 1>>, <<2, 2>>, <<2, 0, 2>>, <<1, 0, 1, 0>>, <<>> }

\* ---- meaning of the controlled circuit, by index bits ---------------------------------------------------------------
RemoveBit(i, k, w) == (i \div 2^(w - k)) * 2^(w - 1 - k) + (i % 2^(w - 1 - k))
CtrlMeaning(Uo, k, w) ==            \* Uo on w-1 qubits; control inserted at index k of w qubits
  [r \in 1..2^w |-> [c \in 1..2^w |->
     IF Bit(r - 1, k, w) # Bit(c - 1, k, w) THEN CZero
     ELSE IF Bit(r - 1, k, w) = 0 THEN (IF r = c THEN COne ELSE CZero)
     ELSE Uo[RemoveBit(r - 1, k, w) + 1][RemoveBit(c - 1, k, w) + 1]]]
Mx(a, b) == IF a > b THEN a ELSE b

\* ---- actions ------------------------------------------------------------------------------------------------------------
OEv(op, a) == [op |-> op, a |-> a]
OInit == /\ gm = [std |-> GMTab, alt |-> GMAlt] /\ t = L(1) /\ chain = <<>> /\ ev = [mod |-> NoMod, pre |-> L(1)]
         /\ prog = <<>> /\ n \in Widths /\ U = MId(2^n) /\ oev = OEv("new", <<>>) /\ ncons = 0
Tuples(k, nq) == {q \in [1..k -> 0..(nq - 1)] : \A i, j \in 1..k : i # j => q[i] # q[j]}
Append1(g, qs) ==
  LET nn == Mx(n, MaxOfS(qs) + 1) IN
  /\ ncons = 0 /\ Len(prog) < MaxLen
  /\ prog' = Append(prog, Step(PoolSeq[g], qs, <<>>)) /\ n' = nn
  /\ U' = MMul(OpMat(Step(PoolSeq[g], qs, <<>>), nn), Pad(U, n, nn))
  /\ oev' = OEv("append", <<g>>) /\ ncons' = 0
Inverse ==
  /\ ncons < MaxCons
  /\ prog' = InvProg(prog) /\ n' = n /\ U' = OProd(InvProg(prog), n)
  /\ oev' = OEv("inverse", <<>>) /\ ncons' = ncons + 1
Controlled(k) ==
  LET p2 == CtrlProg(prog, k) IN
  /\ ncons < MaxCons /\ n + 1 <= MaxW
  /\ prog' = p2 /\ n' = OpsWidth(p2) /\ U' = OProd(p2, OpsWidth(p2))
  /\ oev' = OEv("controlled", <<k>>) /\ ncons' = ncons + 1
Ancilla(m) ==
  /\ ncons < MaxCons /\ n + m <= MaxW
  /\ prog' = AncProg(prog, n, m) /\ n' = n + m /\ U' = OProd(AncProg(prog, n, m), n + m)
  /\ oev' = OEv("ancilla", <<m>>) /\ ncons' = ncons + 1
ApplyTo(coll, g) ==
  /\ ncons < MaxCons /\ Len(prog) <= 1
  /\ \A i \in 1..Len(coll) : coll[i] < MaxW
  /\ \E order \in Perms(SeqRange(coll)) :
       LET p2 == ApplyMech(prog, order, g) nn == Mx(n, OpsWidth(p2)) IN
       /\ prog' = p2 /\ n' = nn /\ U' = OProd(p2, nn)
  /\ oev' = OEv("apply", <<coll, <<g>>>>) /\ ncons' = ncons + 1
Layer(m, g) ==
  /\ ncons = 0 /\ prog = <<>> /\ n = 1 /\ m <= MaxW
  /\ prog' = ApplyMech(<<>>, [i \in 1..m |-> i - 1], g) /\ n' = m
  /\ U' = OProd(ApplyMech(<<>>, [i \in 1..m |-> i - 1], g), m)
  /\ oev' = OEv("layer", <<m, g>>) /\ ncons' = 1
ONext == /\ UNCHANGED <<t, chain, ev, gm>>
         /\ \/ \E g \in Pool : \E qs \in Tuples(NQ(PoolSeq[g]), MaxQ) : Append1(g, qs)
            \/ Inverse
            \/ \E k \in 0..n : Controlled(k)
            \/ \E m \in 0..2 : Ancilla(m)
            \/ \E coll \in Collections : \E g \in Factories : ApplyTo(coll, g)
            \/ \E m \in 0..MaxW : \E g \in Factories : Layer(m, g)

\* ---- what the property promises ----------------------------------------------------------------------------------------
UIsProduct == (oev.op = "append") => U = OProd(prog, n)                                        \* the tracked unitary is the ordered product
InverseIsAdjoint == [][oev'.op = "inverse" => (ProgHasFrac(prog) \/ (U' = MAdj(U) /\ MMul(U', U) = MId(2^n) /\ n' = n))]_ovars
DoubleInverseSameAction == (ncons = 0) => OProd(InvProg(InvProg(prog)), n) = U
\* known finding K1: with a fractional power of an involution in the circuit the construction is NOT the adjoint - TLC must be able to see that
K1Refutable == [][oev'.op = "inverse" => U' = MAdj(U)]_ovars
ControlledIsProjectorSum == [][oev'.op = "controlled" =>
    LET k == oev'.a[1] w == Mx(n', n + 1) IN
    Pad(U', n', w) = CtrlMeaning(Pad(U, n, w - 1), k, w)]_ovars
AncillaWidens == [][oev'.op = "ancilla" => (n' = n + oev'.a[1] /\ U' = Pad(U, n, n') /\ SubSeq(prog', 1, Len(prog)) = prog)]_ovars
LayerShape == [][oev'.op = "layer" =>
    LET m == oev'.a[1] g == oev'.a[2] IN
    /\ Len(prog') = m /\ n' = m
    /\ \A i \in 1..m : prog'[i].qs = <<i - 1>> /\ prog'[i].t = L(g) /\ prog'[i].row = FRow(g, i)]_ovars
ApplyToQubitsShape == [][oev'.op = "apply" =>
    LET coll == oev'.a[1] g == oev'.a[2][1] D == SeqRange(coll) new == SubSeq(prog', Len(prog) + 1, Len(prog')) IN
    /\ SubSeq(prog', 1, Len(prog)) = prog                                           \* existing operations stay in place
    /\ Len(new) = Cardinality(D)
    /\ \A q \in D : Cardinality({i \in 1..Len(new) : new[i].qs = <<q>>}) = 1       \* exactly one gate per distinct listed qubit
    /\ \A i \in 1..Len(new) : new[i].t = L(g)
    /\ \A r \in 1..Cardinality(D) : Cardinality({i \in 1..Len(new) : new[i].row = FRow(g, r)}) = (IF Base[g].np = 0 THEN Len(new) ELSE 1)]_ovars
ONoOverflow == MSmall(U)

StepsJ(p) == [i \in 1..Len(p) |-> [tree |-> TreeJ(p[i].t), qs |-> p[i].qs, row |-> p[i].row]]
OEmit == PrintT(ToJson([op |-> oev'.op, a |-> oev'.a, pre |-> StepsJ(prog), pren |-> n, post |-> StepsJ(prog'), n |-> n', U |-> U',
                        frac |-> ProgHasFrac(prog'), custom |-> [A1 |-> gm.std[10], A2 |-> gm.std[11]]]))
=============================================================================
