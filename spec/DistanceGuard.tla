---------------------------- MODULE DistanceGuard ----------------------------
(***************************************************************************)
(* C17 (beyond the statement): the guarded dispatcher                      *)
(* evaluate_distribution_distance(target, measured, f, **kw) and the       *)
(* constructor of a distribution from a vector of probabilities.           *)
(*                                                                         *)
(* An argument is abstract: a distribution object of some width that is    *)
(* normalised or not, or something that is not a distribution object.      *)
(*   mechanism: three guards IN THIS ORDER - type, number of subsystems,   *)
(*              same normalisation status - then ONE call f(target,        *)
(*              measured, **kw) whose value is returned                    *)
(*   meaning:   f is reached exactly for consistent pairs, and the class   *)
(*              of the outcome does not depend on the order of the pair    *)
(* FromProbabilities: entry i of the vector becomes the probability of the *)
(* i-th tuple of itertools.product([0,1], repeat=n) (mechanism), which is  *)
(* the n-bit binary expansion of i with position 0 most significant        *)
(* (meaning) - the library-wide convention "qubit 0 = most significant".   *)
(***************************************************************************)
EXTENDS Integers, Sequences, FiniteSets, TLC, Json
CONSTANTS MaxN, Emitting
VARIABLES a, b, ev
vars == <<a, b, ev>>
Arg(k, w, nrm) == [k |-> k, w |-> w, nrm |-> nrm]
Args == {Arg("dist", w, nrm) : w \in 1..2, nrm \in BOOLEAN} \cup {Arg("other", 0, FALSE)}
\* ---- mechanism -------------------------------------------------------------------------------------------
Outcome(x, y) == IF x.k # "dist" \/ y.k # "dist" THEN "TypeError"
                 ELSE IF x.w # y.w THEN "RuntimeError:length"
                 ELSE IF x.nrm # y.nrm THEN "RuntimeError:normalisation"
                 ELSE "value"
Calls(x, y) == IF Outcome(x, y) = "value" THEN << <<x, y>> >> ELSE << >>           \* the calls made to f, in order
\* ---- meaning ---------------------------------------------------------------------------------------------
Consistent(x, y) == x.k = "dist" /\ y.k = "dist" /\ x.w = y.w /\ x.nrm = y.nrm
Class(o) == IF o = "value" THEN "value" ELSE IF o = "TypeError" THEN "TypeError" ELSE "RuntimeError"
Init == a \in Args /\ b \in Args /\ ev = "init"
Next == ev = "init" /\ ev' = Outcome(a, b) /\ UNCHANGED <<a, b>>
ReachedIffConsistent == ev # "init" => ((ev = "value") <=> Consistent(a, b)) /\ (Len(Calls(a, b)) = (IF Consistent(a, b) THEN 1 ELSE 0))
ClassSymmetric == Class(Outcome(a, b)) = Class(Outcome(b, a))
LengthBeforeNormalisation == (a.k = "dist" /\ b.k = "dist" /\ a.w # b.w) => Outcome(a, b) = "RuntimeError:length"
\* ---- a distribution from a vector of probabilities ----------------------------------------------------------
RECURSIVE ProductOrder(_)
ProductOrder(n) == IF n = 0 THEN << << >> >>                                      \* itertools.product: the LAST position runs fastest
                   ELSE LET prev == ProductOrder(n - 1) IN
                        [i \in 1..(2 * Len(prev)) |-> <<(IF i <= Len(prev) THEN 0 ELSE 1)>> \o prev[((i - 1) % Len(prev)) + 1]]
BinaryMSB(i, n) == [j \in 1..n |-> (i \div (2 ^ (n - j))) % 2]
ProductOrderIsBinaryMSB == \A n \in 1..MaxN : \A i \in 0..(2 ^ n - 1) : ProductOrder(n)[i + 1] = BinaryMSB(i, n)
ASSUME ProductOrderIsBinaryMSB
Emit == IF ~Emitting THEN TRUE ELSE PrintT(ToJson([a |-> a, b |-> b, out |-> ev', ncalls |-> Len(Calls(a, b))]))
EmitKeys == IF ~Emitting \/ ev # "init" \/ a # b \/ a.k # "other" THEN TRUE ELSE
            PrintT(ToJson([keys |-> [n \in 1..MaxN |-> [i \in 1..(2 ^ n) |-> BinaryMSB(i - 1, n)]]]))
=============================================================================
