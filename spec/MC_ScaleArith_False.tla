------------------------- MODULE MC_ScaleArith_False -------------------------
EXTENDS Integers
VARIABLES
  \* @type: Int;
  a,
  \* @type: Int;
  b,
  \* @type: Int;
  c,
  \* @type: Int;
  t
INSTANCE ScaleArith WITH Big <- 100000, Floor <- FALSE
=============================================================================
