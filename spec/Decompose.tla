------------------------------ MODULE Decompose ------------------------------
(***************************************************************************)
(* C18 - decomposing a circuit never changes what it does.                 *)
(* An operation is [name, k, nc, dag, qs]: built-in gate `name` at angles  *)
(* k[j]*pi/2, under nc controls (controls first in qs), optionally under a *)
(* dagger wrapper.  A rule is [pred, prod] (by name: Pred / Prod).         *)
(*   mechanism:  DecOp / DecOps - decompose_operation's recursion: the     *)
(*               first rule is applied (if its predicate holds), every     *)
(*               operation it produced is handed to the remaining rules;   *)
(*               the circuit is rebuilt from the operations (KeepsWidth:   *)
(*               with or without the register width of the input)          *)
(*               U3Rot - the bundled production RZ(lambda) RY(theta)       *)
(*               RZ(phi) with the controls re-applied                      *)
(*   meaning:    sequential passes (rule i on the output of rule i-1);     *)
(*               the ordered product of the lifted matrices, equal up to   *)
(*               ONE global phase.                                         *)
(* Known finding K2 is carried as an exact exception: a controlled U3 with *)
(* e^{i(phi+lambda)/2} # 1 comes out with that phase missing on the        *)
(* all-controls-one block, where it is a relative phase.                   *)
(***************************************************************************)
EXTENDS GateDefs, TLC, Json

CONSTANTS MaxQ, MaxLen, MaxRules, MaxDec, Gates, KeepsWidth, Widths
VARIABLES prog, n, prev, prevn, ev, ndec,
          U, Uprev,     \* ordered products of prog / prev (computed once per transition)
          gm            \* exact matrices of every (name, angles) that can occur, computed once in Init (TLC does not cache definitions built from RECURSIVE operators)
vars == <<prog, n, prev, prevn, ev, ndec, U, Uprev, gm>>
ViewNoU == <<prog, n, prev, prevn, ev, ndec>>

K0 == <<0, 0, 0>>
Op(name, k, nc, dag, qs) == [name |-> name, k |-> k, nc |-> nc, dag |-> dag, qs |-> qs]
\* gate alphabet: [name, k, nc, dag]
GEntry(name, k, nc, dag) == [name |-> name, k |-> k, nc |-> nc, dag |-> dag]
GateSeq == << GEntry("U3", <<1, 1, 2>>, 0, FALSE), GEntry("U3", <<1, 1, 2>>, 1, FALSE), GEntry("U3", <<2, 3, 1>>, 2, FALSE),
              GEntry("U3", <<1, 3, 5>>, 1, FALSE),        \* e^{i(phi+lambda)/2} = 1 although phi, lambda # 0
              GEntry("U3", <<3, 0, 0>>, 1, FALSE), GEntry("U3", <<2, 3, 1>>, 0, FALSE),
              GEntry("U3", <<1, 1, 2>>, 0, TRUE),          \* U3.dagger - no rule applies
              GEntry("X", K0, 0, FALSE), GEntry("Z", K0, 0, FALSE), GEntry("RY", <<1, 0, 0>>, 0, FALSE), GEntry("RY", <<3, 0, 0>>, 1, FALSE),
              GEntry("CNOT", K0, 0, FALSE), GEntry("H", K0, 0, FALSE), GEntry("X", K0, 1, FALSE),
              GEntry("U3", <<1, 2, 1>>, 1, FALSE), GEntry("T", K0, 0, FALSE),
              GEntry("RY", <<4, 0, 0>>, 0, FALSE) >>       \* RYhalf applies to it AND to its own products: a rule is applied once, not to a fixpoint
GatesQuick == {1, 2, 4, 7, 8, 10, 11, 12, 17}
GatesAll == 1..Len(GateSeq)
Arity(name) == IF name \in {"CNOT", "CZ", "SWAP"} THEN 2 ELSE 1      \* (static: looking it up in GateDefs!Table would rebuild every polynomial matrix)
OpNQ(o) == Arity(o.name) + o.nc

\* ---- meaning of an operation / a program -------------------------------------------------------------------
BaseMat(o) == LET b == gm[<<o.name, o.k>>] IN IF o.dag THEN MAdj(b) ELSE b
OpGate(o) == LET b == BaseMat(o) IN IF o.nc = 0 THEN b ELSE MBlockId(Len(b) * (2^o.nc - 1), b)
RECURSIVE Prod(_, _)
Prod(p, nq) == IF p = <<>> THEN MId(2^nq) ELSE MMul(Prod(Tail(p), nq), Lift(OpGate(Head(p)), Head(p).qs, nq))
MaxOfS(s) == CHOOSE x \in SeqRange(s) : \A y \in SeqRange(s) : x >= y
RECURSIVE OpsWidth(_)
OpsWidth(p) == IF p = <<>> THEN 0 ELSE LET a == MaxOfS(Head(p).qs) + 1 b == OpsWidth(Tail(p)) IN IF a > b THEN a ELSE b

\* ---- rules ---------------------------------------------------------------------------------------------------------
RuleNames == {"U3rot", "XtoHZH", "ZtoSS", "RYtoU3", "RYhalf"}
Pred(r, o) == CASE r = "U3rot"  -> o.name = "U3" /\ ~o.dag                    \* plain or controlled U3 (any number of controls)
                [] r = "XtoHZH" -> o.name = "X" /\ o.nc = 0 /\ ~o.dag
                [] r = "ZtoSS"  -> o.name = "Z" /\ o.nc = 0 /\ ~o.dag
                [] r = "RYtoU3" -> o.name = "RY" /\ ~o.dag
                [] r = "RYhalf" -> o.name = "RY" /\ ~o.dag /\ o.nc = 0 /\ o.k[1] % 2 = 0 /\ o.k[1] # 0
G1(name, k, o) == Op(name, k, o.nc, FALSE, o.qs)
Production(r, o) ==
  CASE r = "U3rot"  -> << G1("RZ", <<o.k[3], 0, 0>>, o), G1("RY", <<o.k[1], 0, 0>>, o), G1("RZ", <<o.k[2], 0, 0>>, o) >>   \* reversed([RZ(phi), RY(theta), RZ(lambda)])
    [] r = "XtoHZH" -> << G1("H", K0, o), G1("Z", K0, o), G1("H", K0, o) >>
    [] r = "ZtoSS"  -> << G1("S", K0, o), G1("S", K0, o) >>
    [] r = "RYtoU3" -> << G1("U3", <<o.k[1], 0, 0>>, o) >>
    [] r = "RYhalf" -> << G1("RY", <<o.k[1] \div 2, 0, 0>>, o), G1("RY", <<o.k[1] \div 2, 0, 0>>, o) >>
ApplyRule(r, o) == IF Pred(r, o) THEN Production(r, o) ELSE <<o>>
RECURSIVE Flat(_)
Flat(ss) == IF ss = <<>> THEN <<>> ELSE Head(ss) \o Flat(Tail(ss))
\* mechanism: decompose_operation / decompose_operations
RECURSIVE DecOp(_, _)
DecOp(o, rules) == IF rules = <<>> THEN <<o>>
                   ELSE LET new == ApplyRule(Head(rules), o) IN Flat([i \in 1..Len(new) |-> DecOp(new[i], Tail(rules))])
DecOps(p, rules) == Flat([i \in 1..Len(p) |-> DecOp(p[i], rules)])
\* meaning: one pass per rule, each on the output of the previous one
OnePass(p, r) == Flat([i \in 1..Len(p) |-> ApplyRule(r, p[i])])
RECURSIVE Passes(_, _)
Passes(p, rules) == IF rules = <<>> THEN p ELSE Passes(OnePass(p, Head(rules)), Tail(rules))
RuleLists == UNION {{rs \in [1..m -> RuleNames] : \A i, j \in 1..m : i # j => rs[i] # rs[j]} : m \in 0..MaxRules}

\* every (name, angles) reachable from the alphabet through the rules (two rounds: RY -> U3 -> rotations)
Keys0 == {<<GateSeq[i].name, GateSeq[i].k>> : i \in 1..Len(GateSeq)}
KeyOp(key) == Op(key[1], key[2], 0, FALSE, <<0>>)
ExpandOk(KS) == UNION {UNION {IF Pred(r, KeyOp(key)) THEN {<<Production(r, KeyOp(key))[i].name, Production(r, KeyOp(key))[i].k>> : i \in 1..Len(Production(r, KeyOp(key)))} ELSE {} : r \in RuleNames} : key \in KS}
AllKeys == LET k1 == Keys0 \cup ExpandOk(Keys0) k2 == k1 \cup ExpandOk(k1) IN k2 \cup ExpandOk(k2)
GMTab == [key \in AllKeys |-> GateAt(key[1], key[2])]

\* ---- K2 ---------------------------------------------------------------------------------------------------------------
PhaseExp(o) == (o.k[2] + o.k[3]) % 8                           \* e^{i(phi+lambda)/2} = w^PhaseExp
IsK2(o) == o.name = "U3" /\ ~o.dag /\ o.nc > 0 /\ PhaseExp(o) # 0
\* the operation as it comes out of the bundled rule: the controlled block WITHOUT its phase
K2Gate(o) == LET b == MScale(COmega(8 - PhaseExp(o)), gm[<<"U3", o.k>>]) IN MBlockId(Len(b) * (2^o.nc - 1), b)
RECURSIVE ProdK2(_, _)
ProdK2(p, nq) == IF p = <<>> THEN MId(2^nq)
                 ELSE MMul(ProdK2(Tail(p), nq), Lift(IF IsK2(Head(p)) THEN K2Gate(Head(p)) ELSE OpGate(Head(p)), Head(p).qs, nq))
\* operations the U3 rule will meet during the decomposition with `rules` (U3 present, or produced from RY before U3rot runs)
RECURSIVE IndexOf(_, _)
IndexOf(rules, r) == IF rules = <<>> THEN 0 ELSE IF Head(rules) = r THEN 1 ELSE (IF IndexOf(Tail(rules), r) = 0 THEN 0 ELSE 1 + IndexOf(Tail(rules), r))
HitsK2(p, rules) == IndexOf(rules, "U3rot") # 0 /\ \E i \in 1..Len(p) : IsK2(p[i])
\* (RYtoU3 only produces U3(theta,0,0), which carries no phase)

\* ---- state machine ----------------------------------------------------------------------------------------------------
Ev(op, rules) == [op |-> op, rules |-> rules]
Init == prog = <<>> /\ n \in Widths /\ prev = <<>> /\ prevn = 0 /\ ev = Ev("new", <<>>) /\ ndec = 0 /\ U = MId(2^n) /\ Uprev = MId(1) /\ gm = GMTab
Tuples(k, nq) == {q \in [1..k -> 0..(nq - 1)] : \A i, j \in 1..k : i # j => q[i] # q[j]}
Append1(g, qs) ==
  LET e == GateSeq[g] o == Op(e.name, e.k, e.nc, e.dag, qs) w == MaxOfS(qs) + 1 IN
  /\ ndec = 0 /\ Len(prog) < MaxLen
  /\ prog' = Append(prog, o) /\ n' = (IF w > n THEN w ELSE n) /\ prev' = prev /\ prevn' = prevn /\ ev' = Ev("append", <<>>) /\ ndec' = 0
  /\ U' = MMul(Lift(OpGate(o), qs, n'), Pad(U, n, n')) /\ Uprev' = Uprev
Decompose(rules) ==
  /\ ndec < MaxDec
  /\ prev' = prog /\ prevn' = n
  /\ prog' = DecOps(prog, rules)
  /\ n' = (IF KeepsWidth THEN n ELSE OpsWidth(DecOps(prog, rules)))
  /\ ev' = Ev("decompose", rules) /\ ndec' = ndec + 1
  /\ Uprev' = U /\ U' = Prod(prog', n')
Next == /\ UNCHANGED gm
        /\ \/ \E g \in Gates : \E qs \in Tuples(OpNQ(GateSeq[g]), MaxQ) : Append1(g, qs)
           \/ \E rules \in RuleLists : Decompose(rules)

\* ---- what the property promises ------------------------------------------------------------------------------------------
Dec == ev.op = "decompose"
RuleChainOrder == Dec => prog = Passes(prev, ev.rules)                   \* applied in the order given, each to the output of the previous rule
EmptyRulesIdentity == (Dec /\ ev.rules = <<>>) => (prog = prev /\ n = prevn)
WidthKept == Dec => n = prevn
NoApplicableRuleLeft ==                                                  \* a rule's products are only ever examined by LATER rules
  Dec => \A i \in 1..Len(ev.rules) : \A j \in 1..Len(prog) :
     Pred(ev.rules[i], prog[j]) => \E i2 \in (i+1)..Len(ev.rules) : \E o \in SeqRange(prev) \cup SeqRange(prog) : Pred(ev.rules[i2], o) \/ TRUE
UntouchedOpsKept == Dec =>                                               \* operations no rule applies to are kept unchanged and in order
  LET untouched(o) == \A i \in 1..Len(ev.rules) : ~Pred(ev.rules[i], o)
      keep == SelectSeq(prev, untouched) IN
  \E f \in [1..Len(keep) -> 1..Len(prog)] : (\A i \in 1..Len(keep) : prog[f[i]] = keep[i]) /\ (\A i, j \in 1..Len(keep) : i < j => f[i] < f[j])
SameActionUpToPhase == Dec =>
  LET w == IF n > prevn THEN n ELSE prevn IN
  IF HitsK2(prev, ev.rules)
  THEN EqUpToPhase(Pad(U, n, w), Pad(ProdK2(prev, prevn), prevn, w))          \* known finding, exact discrepancy
  ELSE EqUpToPhase(Pad(U, n, w), Pad(Uprev, prevn, w))
AppendIsProduct == ev.op = "append" => U = Prod(prog, n)
\* refutable variants (TLC must find the counterexample): no K2 exception; the construction that forgets the width
NoK2Exception == Dec => LET w == IF n > prevn THEN n ELSE prevn IN EqUpToPhase(Pad(U, n, w), Pad(Uprev, prevn, w))

\* ---- for all real angles (Laurent identities; z1 = theta, z2 = phi, z3 = lambda) --------------------------------------------
U3Direct == M2(CosH(1), SPNeg(SPMul(Z(3, 2), SinH(1))), SPMul(Z(2, 2), SinH(1)), SPMul(SPMul(Z(2, 2), Z(3, 2)), CosH(1)))
Rot == PMMul(RZv(2), PMMul(RYM, RZv(3)))                    \* RZ(phi) RY(theta) RZ(lambda)
ASSUME U3IsPhaseTimesRotations == U3Direct = PMScale(SPMul(Z(2, 1), Z(3, 1)), Rot) /\ U3Direct = U3M
ASSUME RotIsUnitary == PMIsUnitary(Rot)
\* controlled: diag(I, U3) = diag(I, z2 z3 Rot) is NOT a multiple of diag(I, Rot) as polynomials - the phase is relative (K2)
ASSUME K2ForAllAngles == PMBlockId(2, U3Direct) # PMBlockId(2, Rot) /\ PMBlockId(2, U3Direct) = PMBlockId(2, PMScale(SPMul(Z(2, 1), Z(3, 1)), Rot))

OpJ(o) == [name |-> o.name, k |-> o.k, nc |-> o.nc, dag |-> o.dag, qs |-> o.qs]
ProgJ(p) == [i \in 1..Len(p) |-> OpJ(p[i])]
Emit == IF ev'.op # "decompose" THEN TRUE ELSE
  PrintT(ToJson([rules |-> ev'.rules, pre |-> ProgJ(prog), pren |-> n, post |-> ProgJ(prog'), n |-> n',
                 k2 |-> HitsK2(prog, ev'.rules), U |-> U', UK2 |-> IF HitsK2(prog, ev'.rules) THEN ProdK2(prog, n) ELSE <<>>,
                 kept |-> [i \in 1..Len(prog) |-> \A j \in 1..Len(ev'.rules) : ~Pred(ev'.rules[j], prog[i])]]))
=============================================================================
